"""Shared machinery for the /verif checks (see DESIGN.md section 2).

Everything here is harness code (part of the trusted base): building the Coq
development, taking the theorem inventory of a property from its Props.v,
evaluating generated cases inside Coq with vm_compute, classifying failures
against known_findings.json, writing evidence and replay files.
"""

import contextlib
import fcntl
import hashlib
import json
import os
import random
import re
import shutil
import subprocess
import sys
import tempfile
import time

VERIF = os.path.dirname(os.path.dirname(os.path.abspath(__file__)))  # /verif, or a snapshot of it
REPO = os.environ.get("VERIF_REPO", "/repo")
COQ = os.path.join(VERIF, "coq")
THEORIES = os.path.join(COQ, "theories")
PY = "/venv/bin/python"
PYVT = "python3-vt"
DEFAULT_SEED = 20260930

FORBIDDEN = re.compile(
    r"\b(Admitted|admit|Axiom|Axioms|Parameter|Parameters|Conjecture|"
    r"Conjectures|Admit Obligations|bypass_check|native_compute)\b|"
    r"Unset\s+Guard|Unset\s+Positivity|Unset\s+Universe|type-in-type|"
    r"impredicative-set|^\s*(Variable|Variables|Hypothesis|Hypotheses)\b"
)

# Axioms declared by Coq's standard library that a theorem may depend on
# (each is still named in the evidence when it occurs).
STDLIB_AXIOMS = (
    "functional_extensionality_dep",
    "proof_irrelevance",
    "classic",
    "JMeq_eq",
    "Eqdep.Eq_rect_eq.eq_rect_eq",
    "eq_rect_eq",
    "propositional_extensionality",
    "constructive_indefinite_description",
    "ClassicalDedekindReals",
)


def child_env():
    env = dict(os.environ)
    env["PYTHONPATH"] = REPO
    env["PYTHONHASHSEED"] = "0"
    env["PYTHONDONTWRITEBYTECODE"] = "1"
    env["PYTHONWARNINGS"] = "ignore"
    env["HDF5_USE_FILE_LOCKING"] = "FALSE"
    for k in ("OMP_NUM_THREADS", "OPENBLAS_NUM_THREADS", "MKL_NUM_THREADS", "NUMEXPR_NUM_THREADS"):
        env[k] = "1"
    env.pop("NCAS_CMS_CFDM_VERIF", None)
    return env


def get_seed():
    try:
        return int(os.environ.get("VERIF_SEED", DEFAULT_SEED))
    except ValueError:
        return DEFAULT_SEED


# --------------------------------------------------------------------------
# Coq build
# --------------------------------------------------------------------------
@contextlib.contextmanager
def coq_lock():
    os.makedirs(COQ, exist_ok=True)
    with open(os.path.join(COQ, ".lock"), "w") as fh:
        fcntl.flock(fh, fcntl.LOCK_EX)
        try:
            yield
        finally:
            fcntl.flock(fh, fcntl.LOCK_UN)


def write_if_changed(path, text):
    try:
        with open(path) as fh:
            if fh.read() == text:
                return False
    except FileNotFoundError:
        pass
    os.makedirs(os.path.dirname(path), exist_ok=True)
    with open(path, "w") as fh:
        fh.write(text)
    return True


def gen_tables():
    """Regenerate theories/Tables/*.v from /repo (DESIGN 2.3).

    Returns (ok, message).  The extractor runs in a child process with
    PYTHONPATH=/repo and prints a JSON object {filename: text}.
    """
    p = subprocess.run(
        [PY, os.path.join(VERIF, "harness", "tables.py")],
        env=child_env(),
        capture_output=True,
        text=True,
        timeout=300,
    )
    if p.returncode != 0:
        return False, (p.stdout + p.stderr)[-4000:]
    try:
        files = json.loads(p.stdout.strip().splitlines()[-1])
    except Exception as e:  # noqa
        return False, f"table extractor output unparsable: {e}\n{p.stdout[-2000:]}"
    for name, text in files.items():
        write_if_changed(os.path.join(THEORIES, "Tables", name), text)
    # remove stale generated tables
    for fn in os.listdir(os.path.join(THEORIES, "Tables")):
        if fn.endswith(".v") and fn not in files:
            os.remove(os.path.join(THEORIES, "Tables", fn))
    return True, ""


def list_v_files():
    out = []
    for root, _dirs, files in os.walk(THEORIES):
        for fn in sorted(files):
            if fn.endswith(".v"):
                out.append(os.path.relpath(os.path.join(root, fn), COQ))
    return sorted(out)


def build(jobs=16, timeout=2400):
    """Full .vo build of the development.  Returns (ok, log)."""
    with coq_lock():
        ok, msg = gen_tables()
        if not ok:
            return False, "TABLES: " + msg
        proj = "-Q theories CfdmV\n-arg -w -arg -notation-overridden,-deprecated\n" + "\n".join(list_v_files()) + "\n"
        changed = write_if_changed(os.path.join(COQ, "_CoqProject"), proj)
        if changed or not os.path.exists(os.path.join(COQ, "Makefile")):
            p = subprocess.run(
                ["coq_makefile", "-f", "_CoqProject", "-o", "Makefile"],
                cwd=COQ,
                capture_output=True,
                text=True,
            )
            if p.returncode != 0:
                return False, p.stdout + p.stderr
        p = subprocess.run(
            ["timeout", str(timeout), "make", f"-j{jobs}", "-k"],
            cwd=COQ,
            capture_output=True,
            text=True,
        )
        return p.returncode == 0, (p.stdout + p.stderr)


def failing_files(log):
    """Names of .v files that failed to compile, from a make log."""
    bad = set()
    for m in re.finditer(r'File "\./?(theories/[^"]+\.v)"', log):
        bad.add(m.group(1))
    for m in re.finditer(r"\[(theories/[^\]]+)\.vo\] Error", log):
        bad.add(m.group(1) + ".v")
    return sorted(bad)


def vo_ok(relpath):
    """True if relpath (.v under coq/) has an up-to-date .vo."""
    v = os.path.join(COQ, relpath)
    vo = v[:-2] + ".vo"
    return os.path.exists(vo) and os.path.getmtime(vo) >= os.path.getmtime(v)


def hygiene(subdirs=None):
    """Lines in the development that declare axioms or switch checks off."""
    bad = []
    for rel in list_v_files():
        if subdirs and not any(("/" + s + "/") in ("/" + rel) for s in subdirs):
            continue
        with open(os.path.join(COQ, rel)) as fh:
            text = fh.read()
        # strip comments (non-nested is enough for our own files)
        text_nc = re.sub(r"\(\*.*?\*\)", lambda m: "\n" * m.group(0).count("\n"), text, flags=re.S)
        in_section = 0
        for i, line in enumerate(text_nc.splitlines(), 1):
            if re.match(r"\s*Section\b", line):
                in_section += 1
            if re.match(r"\s*End\b", line) and in_section:
                in_section -= 1
            m = FORBIDDEN.search(line)
            if m:
                word = m.group(0).strip()
                if word.split()[0] in ("Variable", "Variables", "Hypothesis", "Hypotheses") and in_section:
                    continue
                bad.append(f"{rel}:{i}: {line.strip()}")
    return bad


def obligations(prop):
    """Theorem inventory of theories/<prop>/Props.v.

    Compiles Props.v again (it only contains `exact` proofs) to capture the
    Print Assumptions output of this run.  Returns a dict.
    """
    rel = f"theories/{prop}/Props.v"
    path = os.path.join(COQ, rel)
    with open(path) as fh:
        src = fh.read()
    src_nc = re.sub(r"\(\*.*?\*\)", "", src, flags=re.S)
    names = re.findall(r"^\s*Theorem\s+([A-Za-z0-9_']+)", src_nc, flags=re.M)
    printed = re.findall(r"Print Assumptions\s+([A-Za-z0-9_'.]+)\s*\.", src_nc)
    res = {"file": rel, "theorems": [], "obligations": len(names), "discharged": 0,
           "axioms": [], "log": ""}
    with coq_lock():
        p = subprocess.run(
            ["timeout", "600", "coqc", "-Q", "theories", "CfdmV", "-w",
             "-notation-overridden,-deprecated", rel],
            cwd=COQ, capture_output=True, text=True)
    res["log"] = (p.stdout + p.stderr)[-6000:]
    if p.returncode != 0:
        res["compiled"] = False
        for n in names:
            res["theorems"].append({"name": n, "status": "not-checked"})
        return res
    res["compiled"] = True
    # Split the output into one block per Print Assumptions, in order.
    blocks = re.split(r"(?=Closed under the global context|Axioms:)", p.stdout)
    blocks = [b for b in blocks if b.startswith("Closed under") or b.startswith("Axioms:")]
    for i, n in enumerate(printed):
        blk = blocks[i] if i < len(blocks) else ""
        entry = {"name": n}
        if blk.startswith("Closed under"):
            entry["status"] = "proved"
            entry["axioms"] = []
        elif blk.startswith("Axioms:"):
            ax = re.findall(r"^([A-Za-z0-9_'.]+)\s*:", blk[len("Axioms:"):], flags=re.M)
            entry["axioms"] = ax
            foreign = [a for a in ax if not any(a.endswith(s) or s in a for s in STDLIB_AXIOMS)
                       and not a.startswith("PrimFloat.") and not a.startswith("Uint63.")
                       and not a.startswith("Coq.") and not a.startswith("FloatOps")
                       and not a.startswith("PrimInt63")]
            entry["status"] = "proved" if not foreign else "foreign-axioms"
            for a in ax:
                if a not in res["axioms"]:
                    res["axioms"].append(a)
        else:
            entry["status"] = "no-assumption-report"
        res["theorems"].append(entry)
    for n in names:
        if n not in printed:
            res["theorems"].append({"name": n, "status": "no-assumption-report"})
    res["discharged"] = sum(1 for t in res["theorems"] if t["status"] == "proved")
    return res


# --------------------------------------------------------------------------
# Evaluating cases in Coq
# --------------------------------------------------------------------------
def _parse_nat_list(out):
    """Parse `= [1; 2]%nat : list nat` (possibly wrapped) -> [1, 2]."""
    m = re.search(r"=\s*(\[.*?\]|nil)\s*(%\w+)?\s*:\s*list", out, flags=re.S)
    if not m:
        return None
    body = m.group(1)
    if body == "nil":
        return []
    body = body.strip()[1:-1].strip()
    if not body:
        return []
    return [int(x.strip().rstrip("%nat").rstrip("%Z").strip("()")) for x in body.split(";")]


class CoqEvalError(Exception):
    pass


def coq_bad_indices(prop, requires, check_fn, cases, chunk=300, workdir=None,
                    timeout=900, jobs=16, defs=""):
    """Evaluate `check_fn case` (a bool) for every Gallina literal in `cases`
    inside Coq with vm_compute; return the sorted list of indices where it is
    false.  `requires` is the text of the Require lines.  Shards are compiled
    in parallel.  Raises CoqEvalError if a shard does not compile (reported
    by callers as a broken correspondence).
    """
    if not cases:
        return []
    own = workdir is None
    if own:
        os.makedirs(os.path.join(VERIF, ".scratch"), exist_ok=True)
        workdir = tempfile.mkdtemp(prefix=f"{prop}-", dir=os.path.join(VERIF, ".scratch"))
    try:
        shards = []
        for k in range(0, len(cases), chunk):
            name = f"cases_{k // chunk}"
            body = ";\n ".join(cases[k:k + chunk])
            text = (
                f"{requires}\n"
                "Require Import Coq.Lists.List. Import ListNotations.\n"
                f"{defs}\n"
                "Fixpoint bad_idx_ {A} (f : A -> bool) (i : nat) (l : list A) : list nat :=\n"
                "  match l with [] => [] | x :: r => if f x then bad_idx_ f (S i) r else i :: bad_idx_ f (S i) r end.\n"
                # the literal is an argument of bad_idx_ so that its element type is
                # fixed by the domain of the check function (a list whose tuples all
                # have [] / None in the same place could not be typed on its own)
                f"Eval vm_compute in (bad_idx_ ({check_fn}) 0\n [{body}]).\n"
            )
            with open(os.path.join(workdir, name + ".v"), "w") as fh:
                fh.write(text)
            shards.append((k, name))
        procs = []
        bad = []
        pending = list(shards)
        running = []

        def reap(block):
            nonlocal running
            still = []
            for (k, name, pr) in running:
                if block or pr.poll() is not None:
                    out, err = pr.communicate()
                    if pr.returncode != 0:
                        raise CoqEvalError(f"shard {name} failed:\n{(out + err)[-3000:]}")
                    idx = _parse_nat_list(out)
                    if idx is None:
                        raise CoqEvalError(f"shard {name}: unparsable output:\n{out[-2000:]}")
                    bad.extend(k + i for i in idx)
                else:
                    still.append((k, name, pr))
            running = still

        while pending or running:
            while pending and len(running) < jobs:
                k, name = pending.pop(0)
                pr = subprocess.Popen(
                    ["timeout", str(timeout), "coqc", "-Q", os.path.join(COQ, "theories"), "CfdmV",
                     "-w", "-notation-overridden,-deprecated", name + ".v"],
                    cwd=workdir, stdout=subprocess.PIPE, stderr=subprocess.PIPE, text=True)
                running.append((k, name, pr))
            if running:
                k, name, pr = running[0]
                pr.wait()
                reap(False)
        return sorted(bad)
    finally:
        if own:
            shutil.rmtree(workdir, ignore_errors=True)


def coq_eval(requires, expr, timeout=300):
    """Evaluate one expression with vm_compute; return Coq's printed answer."""
    os.makedirs(os.path.join(VERIF, ".scratch"), exist_ok=True)
    d = tempfile.mkdtemp(prefix="eval-", dir=os.path.join(VERIF, ".scratch"))
    try:
        with open(os.path.join(d, "e.v"), "w") as fh:
            fh.write(f"{requires}\nRequire Import Coq.Lists.List. Import ListNotations.\n"
                     f"Eval vm_compute in ({expr}).\n")
        p = subprocess.run(
            ["timeout", str(timeout), "coqc", "-Q", os.path.join(COQ, "theories"), "CfdmV",
             "-w", "-notation-overridden,-deprecated", "e.v"],
            cwd=d, capture_output=True, text=True)
        if p.returncode != 0:
            raise CoqEvalError((p.stdout + p.stderr)[-3000:])
        return " ".join(p.stdout.split())
    finally:
        shutil.rmtree(d, ignore_errors=True)


# --------------------------------------------------------------------------
# Gallina literal printers
# --------------------------------------------------------------------------
def gz(i):
    i = int(i)
    return f"({i})%Z" if i < 0 else f"{i}%Z"


def gnat(i):
    i = int(i)
    assert 0 <= i < 5000, i
    return f"{i}%nat"


def gbool(b):
    return "true" if b else "false"


def gopt(x, f):
    return "None" if x is None else f"(Some {f(x)})"


def glist(xs, f):
    return "[" + "; ".join(f(x) for x in xs) + "]"


def gstr(s):
    assert all(32 <= ord(c) < 127 for c in s), s
    return '"' + s.replace('"', '""') + '"%string'


def gpair(a, b):
    return f"({a}, {b})"


# --------------------------------------------------------------------------
# Worker subprocesses that drive the implementation
# --------------------------------------------------------------------------
def run_worker(script, payload, timeout=1800):
    """Run harness/<script> under /venv python with PYTHONPATH=/repo, passing
    `payload` as JSON on stdin; returns (returncode, parsed JSON lines, stderr).
    """
    p = subprocess.run(
        [PY, os.path.join(VERIF, "harness", script)],
        input=json.dumps(payload), env=child_env(), capture_output=True,
        text=True, timeout=timeout)
    rows = []
    for line in p.stdout.splitlines():
        line = line.strip()
        if line.startswith("{") or line.startswith("["):
            try:
                rows.append(json.loads(line))
            except Exception:
                pass
    return p.returncode, rows, p.stderr


def run_workers_parallel(script, payloads, timeout=1800, jobs=16):
    """Run several workers concurrently; returns list of (rc, rows, stderr).

    stdin, stdout and stderr all go through temporary files, so every worker
    starts at once and none blocks on a full pipe."""
    results = [None] * len(payloads)
    idx = 0
    running = []

    def parse(out):
        rows = []
        for line in out.splitlines():
            line = line.strip()
            if line.startswith("{") or line.startswith("["):
                try:
                    rows.append(json.loads(line))
                except Exception:
                    pass
        return rows

    while idx < len(payloads) or running:
        while idx < len(payloads) and len(running) < jobs:
            fin = tempfile.TemporaryFile(mode="w+")
            json.dump(payloads[idx], fin)
            fin.flush()
            fin.seek(0)
            fout = tempfile.TemporaryFile(mode="w+")
            ferr = tempfile.TemporaryFile(mode="w+")
            pr = subprocess.Popen(
                [PY, os.path.join(VERIF, "harness", script)],
                stdin=fin, stdout=fout, stderr=ferr, env=child_env(), text=True)
            fin.close()
            running.append((idx, pr, fout, ferr, time.time()))
            idx += 1
        i, pr, fout, ferr, t0 = running.pop(0)
        try:
            pr.wait(timeout=max(1, timeout - (time.time() - t0)))
            extra = ""
        except subprocess.TimeoutExpired:
            pr.kill()
            pr.wait()
            extra = "\nTIMEOUT"
        fout.seek(0)
        ferr.seek(0)
        out, err = fout.read(), ferr.read() + extra
        fout.close()
        ferr.close()
        results[i] = (pr.returncode, parse(out), err)
    return results


# --------------------------------------------------------------------------
# Known findings, violations, evidence
# --------------------------------------------------------------------------
def load_known():
    """known_findings.json plus per-property files known_findings.d/*.json
    (same format; all committed, never written at run time)."""
    out = []
    paths = [os.path.join(VERIF, "known_findings.json")]
    d = os.path.join(VERIF, "known_findings.d")
    if os.path.isdir(d):
        paths += sorted(os.path.join(d, f) for f in os.listdir(d) if f.endswith(".json"))
    for path in paths:
        if os.path.exists(path):
            with open(path) as fh:
                out += json.load(fh).get("findings", [])
    return out


class Failure:
    """One failing case.

    kind: 'property'        - the property itself fails on the implementation
          'correspondence'  - model and implementation disagree (no property
                              failure established)
          'proof'           - a theorem / build obligation no longer checks
    signature: stable identifier of the failure class (matched against
          known_findings.json)
    """

    def __init__(self, kind, signature, what, detail=None):
        self.kind = kind
        self.signature = signature
        self.what = what
        self.detail = detail or {}


class Check:
    def __init__(self, prop, tier, technique=""):
        self.prop = prop
        self.tier = tier
        self.seed = get_seed()
        self.rng = random.Random(f"{self.seed}-{prop}")
        self.t0 = time.time()
        self.failures = []
        self.coverage = {}
        self.assumptions = []
        self.notes = []
        self.technique = technique
        self._scratch = None

    @property
    def scratch(self):
        if self._scratch is None:
            self._scratch = tempfile.mkdtemp(prefix=f"verif-{self.prop}-")
        return self._scratch

    def cleanup(self):
        if self._scratch:
            shutil.rmtree(self._scratch, ignore_errors=True)

    def fail(self, kind, signature, what, detail=None):
        self.failures.append(Failure(kind, signature, what, detail))

    def finish(self, obl):
        """Classify failures, print lines, write evidence, return exit code."""
        known = [k for k in load_known() if k.get("property") == self.prop]
        open_known = {k["signature"]: k for k in known if k.get("status") == "open"}
        violations = []
        known_hit = {}
        for f in self.failures:
            if f.signature in open_known and f.kind == "property":
                known_hit.setdefault(f.signature, f)
            else:
                violations.append(f)
        for sig, f in sorted(known_hit.items()):
            print(f"KNOWN-FINDING: property={self.prop} {open_known[sig]['what_fails']} [{sig}]")
        rc = 0
        if violations:
            rc = 1
            os.makedirs(os.path.join(VERIF, "replays"), exist_ok=True)
            # group by signature; one replay file per signature
            seen = {}
            for f in violations:
                seen.setdefault((f.kind, f.signature), []).append(f)
            any_prop_failure = any(f.kind == "property" for f in violations)
            for (kind, sig), fs in sorted(seen.items()):
                h = hashlib.sha1((self.prop + kind + sig).encode()).hexdigest()[:10]
                path = os.path.join(VERIF, "replays", f"{self.prop}-{h}.json")
                with open(path, "w") as fh:
                    json.dump({
                        "property": self.prop, "kind": kind, "signature": sig,
                        "seed": self.seed, "tier": self.tier,
                        "no_longer_checks": fs[0].detail.get("theorem") or fs[0].detail.get("correspondence"),
                        "cases": [dict(what=f.what, **f.detail) for f in fs[:20]],
                        "count": len(fs),
                    }, fh, indent=1, default=str)
                # the suffix is for a run in which NO input was found on which the
                # property itself fails
                suffix = "" if (kind == "property" or any_prop_failure) else " no-failing-input-found"
                # when a property failure exists, broken correspondences are
                # explained by it: still list them, without the suffix rule
                # changing (each line describes its own replay)
                print(f"VIOLATION property={self.prop} replay={path}{suffix}")
                print(f"  ({kind}) {sig}: {fs[0].what}"[:600])
        cov = dict(self.coverage)
        if obl.get("discharged", 0) >= 1:
            cov.setdefault("obligations", obl.get("obligations", 0))
            cov.setdefault("discharged", obl.get("discharged", 0))
        else:
            # nothing of Props.v could be re-checked on this run (the development no longer builds
            # against the tree under test): that is reported as a VIOLATION above; the evidence
            # then carries the exploration-style counts only, and says so
            cov["obligations_attempted"] = obl.get("obligations", 0)
            cov["discharged_on_this_run"] = 0
            cov.setdefault("explanation", "no theorem of Props.v could be re-checked on this run (build failure of the "
                                          "property's Coq files against the tree under test); the run exits 1 with a VIOLATION line")
        cov.setdefault("checker_cmd", f"cd /verif/coq && make -j16 && coqc -Q theories CfdmV theories/{self.prop}/Props.v  (Print Assumptions under every theorem)")
        cov.setdefault("theorems", [{k: v for k, v in t.items()} for t in obl.get("theorems", [])])
        cov.setdefault("axioms_reported", obl.get("axioms", []))
        cov.setdefault("trusted_base", TRUSTED_BASE)
        cov.setdefault("known_findings_hit", sorted(known_hit))
        ev = {
            "property_id": self.prop,
            "tier": self.tier,
            "seed": self.seed,
            "level": "proof",
            "coverage": cov,
            "assumptions": self.assumptions,
            "wall_s": round(time.time() - self.t0, 2),
            "violations": len(violations),
        }
        os.makedirs(os.path.join(VERIF, "evidence"), exist_ok=True)
        path = os.path.join(VERIF, "evidence", f"{self.prop}.json")
        with open(path, "w") as fh:
            json.dump(ev, fh, indent=1, default=str)
        validate_evidence(path)
        self.cleanup()
        return rc


TRUSTED_BASE = [
    "Coq 8.16.1 kernel and its bytecode VM (vm_compute); native_compute is not used",
    "axioms: none declared by this development; per-theorem Print Assumptions output is in coverage.theorems",
    "hand-written Gallina models of the anchored Python code (modelled, not verified)",
    "the per-run correspondence harness: generators, canonicalisation, Gallina literal printer (harness/lib.py), drivers importing cfdm from /repo",
    "harness/tables.py constant-table extractor (imports cfdm from /repo)",
    "numpy / netCDF4-python / h5netcdf / HDF5 as independent oracles and as the I/O substrate",
    "no extraction to OCaml is used",
]


def validate_evidence(path):
    code = (
        "import json,sys,jsonschema;"
        "s=json.load(open('/root/.vp/EVIDENCE.schema.json'));"
        f"jsonschema.validate(json.load(open({path!r})),s)"
    )
    if not os.path.exists("/root/.vp/EVIDENCE.schema.json"):
        return
    p = subprocess.run([PYVT, "-c", code], capture_output=True, text=True)
    if p.returncode != 0:
        print("EVIDENCE-SCHEMA-ERROR:", p.stderr[-1500:], file=sys.stderr)


def canon(obj):
    return json.dumps(obj, sort_keys=True, default=str)
