"""Drive cfdm indexing / assignment / subspacing for C03 (PYTHONPATH=/repo).

stdin: {"mode": ..., "scratch": dir, "cases": [...]};  one JSON line per case on stdout.
"""
import json
import os
import sys

import numpy as np

import cfdm

ERR = {IndexError: "IndexErr", ValueError: "ValueErr", TypeError: "TypeErr", KeyError: "KeyErr"}


def errclass(e):
    for k, v in ERR.items():
        if isinstance(e, k):
            return v
    return "OtherErr:" + type(e).__name__


def mk_index(idx, as_array=False):
    out = []
    for i in idx:
        k = i[0]
        if k == "int":
            out.append(int(i[1]))
        elif k == "slice":
            out.append(slice(i[1], i[2], i[3]))
        elif k == "list":
            out.append(np.array(i[1], dtype=int) if (as_array and len(i[1])) else list(i[1]))
        elif k == "bool":
            out.append(np.array(i[1], dtype=bool))
        elif k == "ellipsis":
            out.append(Ellipsis)
    return tuple(out)


def mk_array(shape, flat):
    vals = np.array([0 if x is None else x for x in flat], dtype="i8").reshape(shape)
    mask = np.array([x is None for x in flat], dtype=bool).reshape(shape)
    if mask.any():
        return np.ma.array(vals, mask=mask)
    return vals


def scribble(a):
    """Overwrite a returned array in place after it has been recorded: a result that aliases the
    source (or any internal state) then shows up in the source-unchanged check."""
    try:
        np.ma.getdata(a)[...] = -987654
        if np.ma.isMA(a) and a.mask is not np.ma.nomask:
            a.mask[...] = False
    except Exception:
        pass


def obs_array(a):
    a = np.ma.asanyarray(a)
    mask = np.ma.getmaskarray(a)
    flat = [None if m else (int(v) if float(v).is_integer() else float(v))
            for v, m in zip(a.data.ravel().tolist(), mask.ravel().tolist())]
    return {"shape": list(a.shape), "flat": flat, "dtype": str(a.dtype)}


_files = {}


def source_data(case, scratch, n):
    """A cfdm.Data over the case's array, held as the requested kind of array."""
    arr = mk_array(case["shape"], case["flat"])
    src = case.get("src", "mem")
    if src == "mem":
        return cfdm.Data(arr), arr
    if src in ("nc4", "h5"):
        import netCDF4
        key = json.dumps([case["shape"], case["flat"]])
        if key not in _files:
            fn = os.path.join(scratch, f"c03_{os.getpid()}_{len(_files)}.nc")
            nc = netCDF4.Dataset(fn, "w", format="NETCDF4")
            dims = []
            for k, s in enumerate(case["shape"]):
                nc.createDimension(f"d{k}", s)
                dims.append(f"d{k}")
            v = nc.createVariable("v", "i8", tuple(dims), fill_value=-999)
            v[...] = np.ma.filled(arr, -999) if np.ma.isMA(arr) else arr
            nc.close()
            _files[key] = fn
        fn = _files[key]
        cls = cfdm.NetCDF4Array if src == "nc4" else cfdm.H5netcdfArray
        fa = cls(filename=fn, address="v", dtype=np.dtype("i8"), shape=tuple(case["shape"]))
        return cfdm.Data(fa), arr
    if src == "ragged":
        # rows = first axis; pack each row's leading non-masked run: here every element is
        # kept (counts = row length), the array is 2-d (rows, width)
        rows, width = case["shape"]
        counts = np.array([width] * rows)
        comp = np.ma.asanyarray(arr).reshape(rows * width)
        ra = cfdm.RaggedContiguousArray(
            compressed_array=cfdm.Data(comp), shape=(rows, width),
            count_variable=cfdm.Count(data=cfdm.Data(counts)))
        return cfdm.Data(ra), arr
    raise RuntimeError(src)


def do_get(cases, scratch):
    for n, c in enumerate(cases):
        row = {"i": c["i"]}
        try:
            d, arr = source_data(c, scratch, n)
            before = obs_array(d.array)
            idx = mk_index(c["idx"], c.get("as_array", False))
            if c.get("bare") and len(idx) == 1:
                idx = idx[0]
            try:
                e = d[idx]
                ea = e.array
                row["ok"] = obs_array(ea)
                scribble(ea)
                row["ok_again"] = obs_array(e.array) == row["ok"]
                row["compressed_after"] = d.get_compression_type() if c.get("src") == "ragged" else None
            except Exception as ex:
                row["err"] = errclass(ex)
                row["msg"] = str(ex)[:200]
            row["source_unchanged"] = obs_array(d.array) == before
        except Exception as ex:  # harness-level problem
            row["harness_err"] = type(ex).__name__ + ": " + str(ex)[:300]
        print(json.dumps(row), flush=True)


def do_set(cases, scratch):
    for n, c in enumerate(cases):
        row = {"i": c["i"]}
        try:
            d, arr = source_data(c, scratch, n)
            idx = mk_index(c["idx"], c.get("as_array", False))
            if c["value"] == "masked":
                val = cfdm.masked
            else:
                val = mk_array(c["value"]["shape"], c["value"]["flat"])
                if c["value"].get("as_data"):
                    val = cfdm.Data(val)
                elif c["value"]["shape"] == [] and not np.ma.isMA(val):
                    val = int(val)
            try:
                d[idx] = val
                row["ok"] = obs_array(d.array)
            except Exception as ex:
                row["err"] = errclass(ex)
                row["msg"] = str(ex)[:200]
                row["after_err"] = obs_array(d.array)
        except Exception as ex:
            row["harness_err"] = type(ex).__name__ + ": " + str(ex)[:300]
        print(json.dumps(row), flush=True)


def do_bounds(cases, scratch):
    for c in cases:
        row = {"i": c["i"]}
        try:
            n, nb = c["size"], c["nb"]
            data = np.arange(n, dtype="i8") * 10
            bnds = (np.arange(n * nb, dtype="i8").reshape(n, nb)) + 100
            cls = cfdm.DimensionCoordinate if c.get("dim", True) else cfdm.AuxiliaryCoordinate
            x = cls(data=cfdm.Data(data), bounds=cfdm.Bounds(data=cfdm.Data(bnds)))
            idx = mk_index(c["idx"], c.get("as_array", False))
            if c.get("bare") and len(idx) == 1:
                idx = idx[0]
            try:
                y = x[idx]
                ya, yb = y.data.array, y.bounds.data.array
                row["data"] = obs_array(ya)
                row["bounds"] = obs_array(yb)
                scribble(ya)
                scribble(yb)
            except Exception as ex:
                row["err"] = errclass(ex)
            row["source_unchanged"] = bool((x.data.array == data).all() and (x.bounds.data.array == bnds).all())
        except Exception as ex:
            row["harness_err"] = type(ex).__name__ + ": " + str(ex)[:300]
        print(json.dumps(row), flush=True)


def build_field(spec):
    """spec: {"sizes": [n0, n1, ...] for all domain axes, "data_axes": [axis numbers],
    "constructs": [{"type", "axes": [axis numbers], "bounds": nb or 0}]}"""
    f = cfdm.Field()
    f.set_property("standard_name", "air_temperature")
    keys = []
    for s in spec["sizes"]:
        keys.append(f.set_construct(cfdm.DomainAxis(s)))
    dshape = [spec["sizes"][a] for a in spec["data_axes"]]
    f.set_data(cfdm.Data(np.arange(int(np.prod(dshape)), dtype="i8").reshape(dshape)),
               axes=[keys[a] for a in spec["data_axes"]])
    ckeys = []
    for j, c in enumerate(spec["constructs"]):
        shp = [spec["sizes"][a] for a in c["axes"]]
        base = 1000 * (j + 1)
        data = cfdm.Data(np.arange(int(np.prod(shp)), dtype="i8").reshape(shp) + base)
        cls = {"dim": cfdm.DimensionCoordinate, "aux": cfdm.AuxiliaryCoordinate,
               "measure": cfdm.CellMeasure, "anc": cfdm.FieldAncillary,
               "domanc": cfdm.DomainAncillary}[c["type"]]
        x = cls(data=data)
        x.set_property("long_name", f"c{j}")
        if c["type"] == "measure":
            x.set_measure("area")
        if c.get("bounds"):
            nb = c["bounds"]
            b = np.arange(int(np.prod(shp)) * nb, dtype="i8").reshape(shp + [nb]) + base * 100
            x.set_bounds(cfdm.Bounds(data=cfdm.Data(b)))
        ckeys.append(f.set_construct(x, axes=[keys[a] for a in c["axes"]]))
    return f, keys, ckeys


def snapshot(f, keys, ckeys):
    out = {"axis_sizes": [f.domain_axes(todict=True)[k].get_size() for k in keys],
           "data": obs_array(f.data.array), "constructs": []}
    for ck in ckeys:
        x = f.constructs[ck]
        e = {"data": obs_array(x.data.array)}
        if hasattr(x, "has_bounds") and x.has_bounds():
            e["bounds"] = obs_array(x.bounds.data.array)
        out["constructs"].append(e)
    return out


def do_field(cases, scratch):
    for c in cases:
        row = {"i": c["i"]}
        try:
            f, keys, ckeys = build_field(c["spec"])
            before = snapshot(f, keys, ckeys)
            idx = mk_index(c["idx"], c.get("as_array", False))
            try:
                g = f[idx]
                row["ok"] = snapshot(g, keys, ckeys)
            except Exception as ex:
                row["err"] = errclass(ex)
            row["before"] = before
            row["source_unchanged"] = snapshot(f, keys, ckeys) == before
        except Exception as ex:
            row["harness_err"] = type(ex).__name__ + ": " + str(ex)[:300]
        print(json.dumps(row), flush=True)


def do_geometry(cases, scratch):
    f = cfdm.example_field(6)
    aux = [k for k, v in f.auxiliary_coordinates(todict=True).items()]
    for c in cases:
        row = {"i": c["i"]}
        try:
            idx = mk_index(c["idx"])
            g = f[idx]
            res = {}
            for k in aux:
                x0, x1 = f.constructs[k], g.constructs[k]
                e = {}
                if x0.has_bounds():
                    e["bounds0"] = obs_array(x0.bounds.data.array)
                    e["bounds1"] = obs_array(x1.bounds.data.array)
                ir0 = x0.get_interior_ring(None)
                if ir0 is not None:
                    e["ring0"] = obs_array(ir0.data.array)
                    e["ring1"] = obs_array(x1.get_interior_ring().data.array)
                if x0.has_data() and x0.data.dtype.kind in "iuf":
                    e["data0"] = obs_array(x0.data.array)
                    e["data1"] = obs_array(x1.data.array)
                res[k] = e
            row["ok"] = res
            row["shape0"] = list(f.shape)
            row["shape1"] = list(g.shape)
        except Exception as ex:
            row["err"] = errclass(ex)
            row["msg"] = str(ex)[:200]
        print(json.dumps(row), flush=True)


def main():
    p = json.load(sys.stdin)
    {"get": do_get, "set": do_set, "bounds": do_bounds, "field": do_field,
     "geometry": do_geometry}[p["mode"]](p["cases"], p.get("scratch", "/tmp"))


main()
