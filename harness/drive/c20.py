"""Drive the real cfdm global-settings code for C20 (runs with PYTHONPATH=/repo).

stdin: {"mode": "blocks", "cases": [{"pre": block, "b": block}, ...]}
       {"mode": "reflect", "verbose": [...]}
       {"mode": "equals"}
stdout: one JSON line per case.
"""
import inspect
import json
import logging
import sys

import cfdm
from cfdm import decorators

DEC = decorators._manage_log_level_via_verbosity
CALLS = DEC.__defaults__[0]
FUNC = {"atol": cfdm.atol, "rtol": cfdm.rtol, "level": cfdm.log_level}


class Boom(Exception):
    pass


def reset():
    CALLS[0] = 0
    cfdm.log_level("WARNING")
    cfdm.atol(1000)
    cfdm.rtol(2000)


def full():
    a = cfdm.atol().value
    r = cfdm.rtol().value
    return [str(cfdm.log_level().value), int(logging.root.manager.disable),
            int(logging.getLogger().level), int(CALLS[0]),
            int(a) if float(a).is_integer() else a, int(r) if float(r).is_integer() else r]


def conv(val):
    if val is None:
        return None
    if val[0] == "num":
        return int(val[1])
    if val[0] == "name":
        return val[1]
    return "bad-value"


def conv_verbose(v):
    if v is None:
        return None
    if v[0] == "int":
        return int(v[1])
    if v[0] == "str":
        return v[1]
    return bool(v[1])


def make_call(tree):
    items = tree["b"]["items"]
    end = tree["b"]["end"]

    @DEC
    def f(verbose=None):
        for sub, catch in items:
            if catch:
                try:
                    make_call(sub)()
                except Exception:
                    pass
            else:
                make_call(sub)()
        if end == "raise":
            raise Boom()

    v = conv_verbose(tree["v"])
    return lambda: f(verbose=v)


def run_block(block):
    for st in block:
        run_stmt(st)


def run_stmt(st):
    kind = st[0]
    if kind == "set":
        FUNC[st[1]](conv(st[2]))
    elif kind == "with":
        with FUNC[st[1]](conv(st[2])):
            run_block(st[3])
    elif kind == "config":
        with cfdm.configuration(atol=conv(st[1]), rtol=conv(st[2]), log_level=conv(st[3])):
            run_block(st[4])
    elif kind == "call":
        make_call(st[1])()
    elif kind == "raise":
        raise Boom()
    else:
        raise RuntimeError("bad stmt")


def do_blocks(cases):
    for i, c in enumerate(cases):
        reset()
        row = {"i": i}
        try:
            run_block(c["pre"])
        except (ValueError, Boom):
            pass
        row["e0"] = full()
        exc = None
        try:
            run_block(c["b"])
        except (ValueError, Boom) as e:
            exc = type(e).__name__
        except Exception as e:  # unexpected class
            exc = "UNEXPECTED:" + type(e).__name__ + ":" + str(e)[:200]
        row["e1"] = full()
        row["exc"] = exc
        print(json.dumps(row), flush=True)


def decorated_functions():
    """Every function/method in cfdm wrapped by the verbosity decorator."""
    import importlib
    import pkgutil
    seen = {}
    mods = [cfdm]
    for m in pkgutil.walk_packages(cfdm.__path__, "cfdm."):
        if ".test" in m.name:
            continue
        try:
            mods.append(importlib.import_module(m.name))
        except Exception:
            pass
    for mod in mods:
        for name, obj in vars(mod).items():
            if inspect.isfunction(obj) and obj.__code__.co_name == "verbose_override_wrapper":
                seen[id(obj)] = (f"{obj.__module__}.{obj.__qualname__}", None, obj)
            if inspect.isclass(obj) and obj.__module__.startswith("cfdm"):
                for an, av in vars(obj).items():
                    fn = av
                    if isinstance(av, (classmethod, staticmethod)):
                        fn = av.__func__
                    if inspect.isfunction(fn) and fn.__code__.co_name == "verbose_override_wrapper":
                        seen.setdefault(id(fn), (f"{obj.__module__}.{obj.__name__}.{an}", obj, fn))
    return sorted(seen.values(), key=lambda t: t[0])


def instance_of(cls):
    f = cfdm.example_field(1)
    cands = [f, f.domain, f.data, f.constructs]
    cands += list(f.constructs.values())
    c = f.construct("latitude")
    if c.has_bounds():
        cands.append(c.bounds)
    for x in cands:
        if isinstance(x, cls):
            return x
    try:
        return cls()
    except Exception:
        return None


def do_reflect(verbose_values, levels):
    fns = decorated_functions()
    for qual, cls, fn in fns:
        for lvl in levels:
            for v in verbose_values:
                reset()
                cfdm.log_level(lvl)
                before = full()
                inst = instance_of(cls) if cls is not None else None
                exc = None
                try:
                    if cls is not None and inst is not None:
                        fn(inst, verbose=conv_verbose(v))
                    else:
                        fn(verbose=conv_verbose(v))
                except BaseException as e:
                    exc = type(e).__name__
                after = full()
                print(json.dumps({"fn": qual, "level": lvl, "v": v, "before": before,
                                  "after": after, "exc": exc}), flush=True)


def do_equals():
    import numpy as np
    out = []
    f = cfdm.example_field(0)
    g = f.copy()
    g.data[0, 0] = float(f.data[0, 0].array[0, 0]) + 0.5  # differs by 0.5
    for glob in (0, 1000):
        for loc in (0, 1000):
            reset()
            cfdm.atol(glob)
            cfdm.rtol(glob)
            before = full()
            r_local = f.equals(g, atol=loc, rtol=loc)
            mid = full()
            r_global = f.equals(g)
            after = full()
            r_data = f.data.equals(g.data, atol=loc, rtol=loc)
            print(json.dumps({"glob": glob, "loc": loc, "r_local": bool(r_local),
                              "r_data": bool(r_data),
                              "r_global": bool(r_global), "before": before, "mid": mid,
                              "after": after}), flush=True)


def main():
    logging.getLogger().handlers[:] = [logging.NullHandler()]
    p = json.load(sys.stdin)
    if p["mode"] == "blocks":
        do_blocks(p["cases"])
    elif p["mode"] == "reflect":
        do_reflect(p["verbose"], p["levels"])
    elif p["mode"] == "equals":
        do_equals()


main()
