"""Drive the real cfdm global-settings code for C20 (runs with PYTHONPATH=/repo).

stdin: {"mode": "blocks", "cases": [{"pre": block, "b": block}, ...]}
       {"mode": "reflect", "verbose": [...]}
       {"mode": "equals"}
stdout: one JSON line per case.
"""
import inspect
import json
import logging
import sys

import cfdm
from cfdm import decorators

DEC = decorators._manage_log_level_via_verbosity
FUNC = {"atol": cfdm.atol, "rtol": cfdm.rtol, "level": cfdm.log_level}


def find_counters():
    """The decorator's nesting counter(s), wherever the code keeps them: a mutable default
    argument of the decorator (as at the pinned commit), or a list of one int in the closure of
    a decorated function.  An empty result means the counter cannot be observed from outside;
    the nesting depth is then reported as 0 and only the logging state is compared."""
    out = []
    for d in (DEC.__defaults__ or ()):
        if isinstance(d, list) and len(d) == 1 and isinstance(d[0], int):
            out.append(d)
    if not out:
        @DEC
        def probe_fn(verbose=None):
            return None
        for cell in (probe_fn.__closure__ or ()):
            try:
                d = cell.cell_contents
            except ValueError:
                continue
            if isinstance(d, list) and len(d) == 1 and isinstance(d[0], int):
                out.append(d)
    return out


COUNTERS = find_counters()


class Boom(Exception):
    pass


class BaseBoom(BaseException):
    pass


EXC = {"Exception": Boom, "BaseException": BaseBoom, "KeyboardInterrupt": KeyboardInterrupt,
       "SystemExit": SystemExit, "GeneratorExit": GeneratorExit}
RAISES = (ValueError, Boom, BaseBoom, KeyboardInterrupt, SystemExit, GeneratorExit)
CURRENT = {"exc": Boom}
TRACE = []


def probe():
    return [str(cfdm.log_level().value), int(logging.root.manager.disable), int(logging.getLogger().level)]


def reset():
    for c in COUNTERS:
        c[0] = 0
    cfdm.log_level("WARNING")
    cfdm.atol(1000)
    cfdm.rtol(2000)


def full():
    a = cfdm.atol().value
    r = cfdm.rtol().value
    return [str(cfdm.log_level().value), int(logging.root.manager.disable),
            int(logging.getLogger().level), int(sum(c[0] for c in COUNTERS)),
            int(a) if float(a).is_integer() else a, int(r) if float(r).is_integer() else r]


def conv(val):
    if val is None:
        return None
    if val[0] == "num":
        return int(val[1])
    if val[0] == "name":
        return val[1]
    return "bad-value"


def conv_verbose(v):
    if v is None:
        return None
    if v[0] == "int":
        return int(v[1])
    if v[0] == "str":
        return v[1]
    return bool(v[1])


def make_call(tree):
    items = tree["b"]["items"]
    end = tree["b"]["end"]

    @DEC
    def f(verbose=None):
        # what code running inside the call sees: at the start of the body and after every
        # nested call that returned, or raised and was caught
        TRACE.append(probe())
        for sub, catch in items:
            if catch:
                try:
                    make_call(sub)()
                except BaseException:
                    pass
            else:
                make_call(sub)()
            TRACE.append(probe())
        if end == "raise":
            raise CURRENT["exc"]()

    v = conv_verbose(tree["v"])
    return lambda: f(verbose=v)


def run_block(block):
    for st in block:
        run_stmt(st)


def run_stmt(st):
    kind = st[0]
    if kind == "set":
        FUNC[st[1]](conv(st[2]))
    elif kind == "with":
        with FUNC[st[1]](conv(st[2])):
            run_block(st[3])
    elif kind == "config":
        with cfdm.configuration(atol=conv(st[1]), rtol=conv(st[2]), log_level=conv(st[3])):
            run_block(st[4])
    elif kind == "call":
        make_call(st[1])()
    elif kind == "raise":
        raise CURRENT["exc"]()
    else:
        raise RuntimeError("bad stmt")


def do_blocks(cases):
    for i, c in enumerate(cases):
        reset()
        row = {"i": i}
        CURRENT["exc"] = Boom
        try:
            run_block(c["pre"])
        except RAISES:
            pass
        CURRENT["exc"] = EXC[c.get("exc", "Exception")]
        row["e0"] = full()
        del TRACE[:]
        exc = None
        try:
            run_block(c["b"])
        except RAISES as e:
            exc = type(e).__name__
        except Exception as e:  # unexpected class
            exc = "UNEXPECTED:" + type(e).__name__ + ":" + str(e)[:200]
        row["e1"] = full()
        row["exc"] = exc
        row["tr"] = list(TRACE)
        row["counters"] = len(COUNTERS)
        print(json.dumps(row), flush=True)


def decorated_functions():
    """Every function/method in cfdm wrapped by the verbosity decorator."""
    import importlib
    import pkgutil
    seen = {}
    mods = [cfdm]
    for m in pkgutil.walk_packages(cfdm.__path__, "cfdm."):
        if ".test" in m.name:
            continue
        try:
            mods.append(importlib.import_module(m.name))
        except Exception:
            pass
    for mod in mods:
        for name, obj in vars(mod).items():
            if inspect.isfunction(obj) and obj.__code__.co_name == "verbose_override_wrapper":
                seen[id(obj)] = (f"{obj.__module__}.{obj.__qualname__}", None, obj)
            if inspect.isclass(obj) and obj.__module__.startswith("cfdm"):
                for an, av in vars(obj).items():
                    fn = av
                    if isinstance(av, (classmethod, staticmethod)):
                        fn = av.__func__
                    if inspect.isfunction(fn) and fn.__code__.co_name == "verbose_override_wrapper":
                        seen.setdefault(id(fn), (f"{obj.__module__}.{obj.__name__}.{an}", obj, fn))
    return sorted(seen.values(), key=lambda t: t[0])


def instance_of(cls):
    f = cfdm.example_field(1)
    cands = [f, f.domain, f.data, f.constructs]
    cands += list(f.constructs.values())
    c = f.construct("latitude")
    if c.has_bounds():
        cands.append(c.bounds)
    for x in cands:
        if isinstance(x, cls):
            return x
    try:
        return cls()
    except Exception:
        return None


def do_reflect(verbose_values, levels):
    fns = decorated_functions()
    for qual, cls, fn in fns:
        for lvl in levels:
            for v in verbose_values:
                reset()
                cfdm.log_level(lvl)
                before = full()
                inst = instance_of(cls) if cls is not None else None
                exc = None
                try:
                    if cls is not None and inst is not None:
                        fn(inst, verbose=conv_verbose(v))
                    else:
                        fn(verbose=conv_verbose(v))
                except BaseException as e:
                    exc = type(e).__name__
                after = full()
                print(json.dumps({"fn": qual, "level": lvl, "v": v, "before": before,
                                  "after": after, "exc": exc}), flush=True)


def _ragged(delta):
    import numpy as np
    arr = np.array([1.0, 2.0, 3.0, 4.0, 5.0, 6.0])
    arr[4] += delta
    ra = cfdm.RaggedContiguousArray(
        compressed_array=cfdm.Data(arr), shape=(2, 4), size=8, ndim=2,
        count_variable=cfdm.Count(data=cfdm.Data([2, 4])))
    return cfdm.Data(ra)


def _gathered(delta):
    import numpy as np
    arr = np.array([[1.0, 2.0, 3.0], [4.0, 5.0, 6.0]])
    arr[1, 1] += delta
    ga = cfdm.GatheredArray(
        compressed_array=cfdm.Data(arr), compressed_dimensions={1: (1, 2)}, shape=(2, 2, 3), size=12, ndim=3,
        list_variable=cfdm.List(data=cfdm.Data([0, 2, 5])))
    return cfdm.Data(ga)


def equal_pairs():
    """(name, x, y, extra keyword sets): y differs from x by 0.5 in one element, reached
    through a different nesting of equals each time."""
    import numpy as np
    out = []
    f = cfdm.example_field(0)
    g = f.copy()
    g.data[0, 0] = float(f.data[0, 0].array[0, 0]) + 0.5
    out.append(("field-data", f, g, [{}]))
    out.append(("data", f.data, g.data, [{}]))
    h = f.copy()
    c = h.construct("latitude")
    b = c.bounds.data.array.copy()
    b[0, 0] += 0.5
    c.set_bounds(cfdm.Bounds(data=cfdm.Data(b, units=c.bounds.data.get_units(None))))
    out.append(("field-coordinate-bounds", f, h, [{}]))
    out.append(("coordinate-bounds", f.construct("latitude"), c, [{}]))
    k = cfdm.example_field(1)
    m = k.copy()
    da = m.construct("ncvar%a")
    a = da.data.array.copy()
    a[0] += 0.5
    da.set_data(cfdm.Data(a, units=da.data.get_units(None)))
    out.append(("field-domain-ancillary", k, m, [{}]))
    cm = m.copy()
    out.append(("constructs", k.constructs, m.constructs, [{}]))
    for name, mk in (("ragged", _ragged), ("gathered", _gathered)):
        try:
            x, y = mk(0.0), mk(0.5)
        except Exception as e:  # noqa
            print(json.dumps({"skip": name, "why": type(e).__name__ + ": " + str(e)[:200]}), flush=True)
            continue
        out.append((name + "-data", x, y, [{}, {"ignore_compression": False}, {"ignore_compression": True}]))
        ax = cfdm.AuxiliaryCoordinate(properties={"long_name": "c"}, data=x)
        ay = cfdm.AuxiliaryCoordinate(properties={"long_name": "c"}, data=y)
        out.append((name + "-construct", ax, ay, [{}, {"ignore_compression": False}]))
    return out


def do_equals():
    for name, x, y, kws in equal_pairs():
        for kw in kws:
            for glob in (0, 1000):
                for loc in (0, 1000):
                    reset()
                    cfdm.atol(glob)
                    cfdm.rtol(glob)
                    before = full()
                    row = {"pair": name, "kw": kw, "glob": glob, "loc": loc}
                    try:
                        row["r_local"] = bool(x.equals(y, atol=loc, rtol=loc, **kw))
                        row["r_local_rev"] = bool(y.equals(x, atol=loc, rtol=loc, **kw))
                        mid = full()
                        row["r_global"] = bool(x.equals(y, **kw))
                        row["r_self"] = bool(x.equals(x.copy(), atol=0, rtol=0, **kw))
                    except Exception as e:  # noqa
                        row["exc"] = type(e).__name__ + ": " + str(e)[:200]
                        mid = full()
                    after = full()
                    row.update({"before": before, "mid": mid, "after": after})
                    print(json.dumps(row), flush=True)


def main():
    logging.getLogger().handlers[:] = [logging.NullHandler()]
    p = json.load(sys.stdin)
    if p["mode"] == "blocks":
        do_blocks(p["cases"])
    elif p["mode"] == "reflect":
        do_reflect(p["verbose"], p["levels"])
    elif p["mode"] == "equals":
        do_equals()


main()
