"""Drive the real cfdm construct container for C02 (runs with PYTHONPATH=<repo>).

stdin : {"cases": [ {"id": n, "seed": s, "nops": n, "malformed": p}            (generate)
                  | {"id": n, "ops": [op, ...]} ]}                              (explicit / replay)
stdout: one JSON line per case:
   {"id": n, "steps": [ {"op": op, "out": "ok"|"ValueErr"|..., "state": S | "same",
                         "bad": [[clause, text], ...]} , ...]}

Operations are applied to ONE variable `f` (a cfdm.Field).  Operations that
return a new field (copy, subspace, convert, and the inplace=False forms of
squeeze / transpose / insert_dimension) rebind `f` to the result when they
complete.  Arguments of generated operations are drawn from the state of the
real object as read through the public API, so most operations are applicable.
After every step the abstract state is read back through the public API and
the property's invariant is evaluated on the live object (the oracle).
"""
import json
import random
import sys

import numpy as np

import cfdm

ARRAY_TYPES = ["dimension_coordinate", "auxiliary_coordinate", "domain_ancillary",
               "field_ancillary", "cell_measure"]
BOUNDED = ("dimension_coordinate", "auxiliary_coordinate", "domain_ancillary")
NON_ARRAY = ["domain_axis", "coordinate_reference", "cell_method"]
ALL_TYPES = ["domain_axis"] + ARRAY_TYPES + ["coordinate_reference", "cell_method"]
DOMAIN_IGNORES = ("cell_method", "field_ancillary")
STD_NAMES = ("area", "time", "longitude")
CLS = {
    "dimension_coordinate": cfdm.DimensionCoordinate,
    "auxiliary_coordinate": cfdm.AuxiliaryCoordinate,
    "domain_ancillary": cfdm.DomainAncillary,
    "field_ancillary": cfdm.FieldAncillary,
    "cell_measure": cfdm.CellMeasure,
}
BASE = {
    "dimension_coordinate": "dimensioncoordinate", "auxiliary_coordinate": "auxiliarycoordinate",
    "domain_ancillary": "domainancillary", "field_ancillary": "fieldancillary",
    "cell_measure": "cellmeasure", "domain_axis": "domainaxis",
    "coordinate_reference": "coordinatereference", "cell_method": "cellmethod",
}


def errclass(e):
    if isinstance(e, KeyError):
        return "KeyErr"
    if isinstance(e, IndexError):
        return "IndexErr"
    if isinstance(e, ValueError):
        return "ValueErr"
    if isinstance(e, TypeError):
        return "TypeErr"
    return "OtherErr"


# --------------------------------------------------------------------------
# building constructs from specs
# --------------------------------------------------------------------------
def make(spec):
    t = spec["t"]
    if t == "domain_axis":
        return cfdm.DomainAxis(spec["size"])
    if t == "coordinate_reference":
        return cfdm.CoordinateReference(
            coordinates=list(spec["coords"]),
            coordinate_conversion=cfdm.CoordinateConversion(
                parameters={"p": 1.0}, domain_ancillaries=dict(spec["ancs"])))
    if t == "cell_method":
        return cfdm.CellMethod(axes=list(spec["axes"]), method="mean")
    c = CLS[t]()
    shape = spec.get("shape")
    if t == "cell_measure":
        c.set_measure("area")
    if shape is not None and spec.get("hasdata", True):
        c.set_data(cfdm.Data(np.zeros(tuple(shape))), copy=False)
    if spec.get("bnd") is not None and shape is not None and t in BOUNDED:
        c.set_bounds(cfdm.Bounds(data=cfdm.Data(np.zeros(tuple(shape) + (spec["bnd"],)))), copy=False)
    return c


# --------------------------------------------------------------------------
# reading the abstract state back through the public API
# --------------------------------------------------------------------------
def payload(t, c):
    if t == "domain_axis":
        s = c.get_size(None)
        return {"size": -1 if s is None else int(s)}
    if t == "coordinate_reference":
        return {"coords": sorted(c.coordinates()),
                "ancs": sorted([k, v] for k, v in c.coordinate_conversion.domain_ancillaries().items())}
    if t == "cell_method":
        return {"axes": [a for a in c.get_axes(()) if a not in STD_NAMES]}
    try:
        shape = [int(n) for n in c.shape]
    except AttributeError:
        shape = None
    hasdata = bool(c.has_data())
    bnd = None
    if t in BOUNDED and c.has_bounds() and c.bounds.has_data():
        bs = c.bounds.shape
        bnd = int(bs[-1]) if len(bs) else None
    return {"shape": shape, "hasdata": hasdata, "bnd": bnd}


def read_state(f):
    C = f.constructs
    cons = []
    for t in ALL_TYPES:
        for k, c in C.filter_by_type(t, todict=True).items():
            cons.append([t, k, payload(t, c)])
    cons.sort(key=lambda x: (x[1], x[0]))
    ct = C.construct_types()
    ctypes = sorted([k, t] for k, t in ct.items())
    da = C.data_axes()
    caxes = sorted([k, list(v)] for k, v in da.items())
    d = f.get_data(None)
    fshape = None if d is None else [int(n) for n in d.shape]
    fax = f.get_data_axes(default=None)
    out = {"cons": cons, "ctypes": ctypes, "caxes": caxes, "fshape": fshape,
           "faxes": None if fax is None else list(fax)}
    # what was returned is the caller's: overwrite it in place, so that a
    # collection that aliases the container's own state shows up on the next read
    scribble(ct)
    scribble(da)
    scribble(C.todict())
    scribble(f.domain.constructs.data_axes())
    scribble(f.domain.constructs.construct_types())
    if isinstance(fax, list):
        fax[:] = ["scribble"]
    return out


def scribble(d):
    if isinstance(d, dict):
        for k in list(d):
            v = d[k]
            if isinstance(v, list):
                v[:] = ["scribble"]
        d.clear()
        d["scribble"] = ("scribble",)


# --------------------------------------------------------------------------
# the property oracle on the live object
# --------------------------------------------------------------------------
def probe(C, key, expect, bad, who):
    """Membership, look-up and get of one key must agree with each other."""
    try:
        inside = key in C
    except Exception as e:
        bad.append(["i", f"{who}: `{key!r} in constructs` raised {type(e).__name__}"])
        return
    if inside != expect:
        bad.append(["i", f"{who}: `{key!r} in constructs` is {inside} but the key is "
                         f"{'held' if expect else 'not held'}"])
    try:
        C[key]
        got = True
    except KeyError:
        got = False
    except Exception as e:
        bad.append(["i", f"{who}: constructs[{key!r}] raised {type(e).__name__}"])
        return
    if got != expect:
        bad.append(["i", f"{who}: constructs[{key!r}] {'succeeds' if got else 'raises KeyError'} but the key is "
                         f"{'held' if expect else 'not held'}"])
    if (C.get(key) is not None) != expect:
        bad.append(["i", f"{who}: constructs.get({key!r}) disagrees with the constructs held"])
    if (C.construct_type(key) is not None) != expect:
        bad.append(["i", f"{who}: construct_type({key!r}) disagrees with the constructs held"])


def oracle(f, probes=(), view_regs=()):
    bad = []
    C = f.constructs
    try:
        todict = C.todict()
        types = C.construct_types()
        if sorted(C.keys()) != sorted(todict) or len(list(C.values())) != len(todict) or len(list(iter(C))) != len(todict):
            bad.append(["i", f"keys()/values()/iter of the constructs disagree with todict(): {sorted(C.keys())} vs {sorted(todict)}"])
        for k in set(probes) | set(types) | set(todict) | set(C.data_axes()):
            probe(C, k, k in todict, bad, "field")
        per_type = {t: C.filter_by_type(t, todict=True) for t in ALL_TYPES}
        # (i) key -> one construct of the matching type
        if len(C) != len(todict) or len(types) != len(todict) or set(types) != set(todict):
            bad.append(["i", f"len(constructs)={len(C)}, {len(todict)} constructs, {len(types)} typed keys"])
        for k, c in todict.items():
            owners = [t for t in ALL_TYPES if k in per_type[t]]
            if len(owners) != 1 or types.get(k) != owners[0] or c.construct_type != owners[0]:
                bad.append(["i", f"key {k!r}: registered as {types.get(k)!r}, held under {owners}, construct says {c.construct_type!r}"])
            if k not in C or C.get(k) is not c or f.constructs[k] is not c:
                bad.append(["i", f"key {k!r} does not map back to its construct"])
        n_owned = sum(len(v) for v in per_type.values())
        if n_owned != len(todict):
            bad.append(["i", f"{n_owned} (type,key) entries for {len(todict)} keys"])
        axes_sizes = {k: a.get_size(None) for k, a in per_type["domain_axis"].items()}
        # (ii) construct data axes exist, sizes equal shape, bounds agree
        for k, axes in C.data_axes().items():
            if k not in todict or types.get(k) not in ARRAY_TYPES:
                bad.append(["ii", f"data axes recorded for {k!r} which is not an array construct"])
                continue
            missing = [a for a in axes if a not in axes_sizes]
            if missing:
                bad.append(["ii", f"construct {k!r} spans non-existent axes {missing}"])
                continue
            c = todict[k]
            try:
                shape = tuple(c.shape)
            except AttributeError:
                shape = None
            if shape is not None and tuple(axes_sizes[a] for a in axes) != shape:
                bad.append(["ii", f"construct {k!r} shape {shape} but axes {tuple(axes)} have sizes {tuple(axes_sizes[a] for a in axes)}"])
        for k, c in todict.items():
            if types.get(k) in BOUNDED and c.has_data() and c.has_bounds() and c.bounds.has_data():
                if tuple(c.bounds.shape[:c.data.ndim]) != tuple(c.data.shape):
                    bad.append(["ii", f"bounds of {k!r} have shape {c.bounds.shape}, data {c.data.shape}"])
        # a dimension coordinate construct has 1-dimensional data and spans exactly one axis
        for k, c in per_type["dimension_coordinate"].items():
            if c.has_data() and c.data.ndim != 1:
                bad.append(["ii", f"dimension coordinate {k!r} has {c.data.ndim}-dimensional data"])
            ax = C.data_axes().get(k)
            if c.has_data() and ax is not None and len(ax) != 1:
                bad.append(["ii", f"dimension coordinate {k!r} spans {len(ax)} axes {tuple(ax)}"])
        # (iii) field data axes
        d = f.get_data(None)
        fax = f.get_data_axes(default=None)
        if fax is not None:
            missing = [a for a in fax if a not in axes_sizes]
            if missing:
                bad.append(["iii", f"field data axes name non-existent axes {missing}"])
            elif d is not None and tuple(axes_sizes[a] for a in fax) != tuple(d.shape):
                bad.append(["iii", f"field data shape {d.shape} but data axes {fax} have sizes {tuple(axes_sizes[a] for a in fax)}"])
        # (iv) references
        for k, r in per_type["coordinate_reference"].items():
            for ck in r.coordinates():
                if ck not in todict:
                    bad.append(["iv", f"coordinate reference {k!r} names non-existent coordinate {ck!r}"])
            for term, ak in r.coordinate_conversion.domain_ancillaries().items():
                if ak is not None and ak not in todict:
                    bad.append(["iv", f"coordinate reference {k!r} term {term!r} names non-existent {ak!r}"])
        for k, cm in per_type["cell_method"].items():
            for a in cm.get_axes(()):
                if a not in STD_NAMES and a not in axes_sizes:
                    bad.append(["iv", f"cell method {k!r} names non-existent axis {a!r}"])
        # (v) the domain view
        dom = f.domain
        DC = dom.constructs
        expect = {k for k in todict if types.get(k) not in DOMAIN_IGNORES}
        dkeys = set(DC.todict())
        if dkeys != expect or len(DC) != len(expect) or set(DC.keys()) != expect or set(DC.construct_types()) != expect:
            bad.append(["v", f"domain sees {sorted(dkeys)} (len {len(DC)}, keys {sorted(DC.keys())}, "
                             f"typed {sorted(DC.construct_types())}), field has {sorted(expect)}"])
        for k in set(probes) | set(types) | dkeys:
            probe(DC, k, k in expect, bad, "domain view")
        for k, a in DC.filter_by_type("domain_axis", todict=True).items():
            if a.get_size(None) != axes_sizes.get(k):
                bad.append(["v", f"domain axis {k!r} has size {a.get_size(None)} in the view, {axes_sizes.get(k)} in the field"])
        for k in dkeys & expect:
            if DC[k] is not todict[k]:
                bad.append(["v", f"domain construct {k!r} is not the field's construct"])
        fda = {k: tuple(v) for k, v in C.data_axes().items() if types.get(k) not in DOMAIN_IGNORES}
        dda = {k: tuple(v) for k, v in DC.data_axes().items()}
        if fda != dda:
            bad.append(["v", f"domain data axes {dda} != field's {fda}"])
        # the views held in registers (views of the field, views of views ...)
        for n, d in enumerate(view_regs, 1):
            VC = d.constructs
            vd = VC.todict()
            if set(vd) != expect or len(VC) != len(expect) or set(VC.keys()) != expect:
                bad.append(["v", f"view register {n} sees {sorted(vd)} (len {len(VC)}), field has {sorted(expect)}"])
            for k in set(vd) & expect:
                if vd[k] is not todict[k]:
                    bad.append(["v", f"view register {n}: construct {k!r} is not the field's construct"])
            if {k: tuple(v) for k, v in VC.data_axes().items()} != fda:
                bad.append(["v", f"view register {n}: data axes differ from the field's"])
            for k in set(probes):
                probe(VC, k, k in expect, bad, f"view register {n}")
    except Exception as e:  # the inspection API itself failed
        bad.append(["inspect", f"{type(e).__name__}: {e}"])
    # (vi) repr, str, dump
    more = []
    for n, d in enumerate(view_regs, 1):
        more.append((f"view-register-{n}-str", lambda d=d: str(d)))
        more.append((f"view-register-{n}-dump", lambda d=d: d.dump(display=False)))
    for name, fn in [("repr", lambda: repr(f)), ("str", lambda: str(f)),
                     ("dump", lambda: f.dump(display=False)),
                     ("domain-str", lambda: str(f.domain)),
                     ("domain-dump", lambda: f.domain.dump(display=False))] + more:
        try:
            fn()
        except Exception as e:
            bad.append(["vi", f"{name} raised {type(e).__name__}: {e}"])
    return bad


# --------------------------------------------------------------------------
# applying one operation
# --------------------------------------------------------------------------
def conv_index(ix):
    if ix[0] == "s":
        return slice(ix[1], ix[2], ix[3])
    if ix[0] == "l":
        return list(ix[1])
    return int(ix[1])


def take_view(x, route):
    """A view (no copy) of the constructs of `x` (the field or a domain that is
    itself such a view)."""
    if route == "domain":
        return x.domain
    if route == "get_domain":
        return x.get_domain()
    if route == "fromconstructs":
        return cfdm.Domain.fromconstructs(x.constructs)
    if route == "fromconstructs-nocopy":
        return cfdm.Domain.fromconstructs(x.constructs, copy=False)
    if route == "source":
        return cfdm.Domain(source=x, copy=False)
    raise RuntimeError("unknown route " + route)


def apply(f, op, regs=None):
    """Apply `op` to `f`; return the field that `f` is bound to afterwards.
    `regs`: the registers - regs[0] is the field, the others are views of it
    (of any depth); an operation with "reg": r > 0 is issued through regs[r]."""
    k = op["op"]
    if k == "view":
        regs.append(take_view(regs[op["of"]], op["route"]))
        return f
    if k == "sibling":
        # a second field made from this one without copying: it shares the construct
        # objects and the data object; container-level calls on it must not reach `f`
        g = cfdm.Field(source=regs[op.get("of", 0)] if regs else f, copy=False)
        gregs = [g]
        op["sub_out"] = []
        for sub in op["ops"]:
            try:
                g2 = apply(g, sub, gregs)
                op["sub_out"].append("ok")
                if g2 is not g:
                    break
            except Exception as e:
                op["sub_out"].append(errclass(e))
        return f
    if op.get("reg"):
        tgt = regs[op["reg"]]
    else:
        tgt = f.domain if op.get("via") == "d" else f
    if k == "set":
        c = make(op["c"])
        axes = op.get("axes")
        if op.get("via") == "core":
            cfdm.core.Field.set_construct(f, c, key=op.get("key"), axes=axes, copy=op.get("copy", True))
        else:
            tgt.set_construct(c, key=op.get("key"), axes=axes, copy=op.get("copy", True))
        return f
    if k == "del":
        if op.get("via") == "core":
            cfdm.core.Field.del_construct(f, op["key"])
        else:
            tgt.del_construct(op["key"])
        return f
    if k == "set_data":
        f.set_data(cfdm.Data(np.zeros(tuple(op["shape"]))), axes=op.get("axes"), copy=False)
        return f
    if k == "del_data":
        f.del_data()
        return f
    if k == "set_data_axes":
        if op.get("key") is None:
            f.set_data_axes(op["axes"])
        else:
            tgt.set_data_axes(op["axes"], key=op["key"])
        return f
    if k == "del_data_axes":
        if op.get("key") is None:
            f.del_data_axes()
        else:
            tgt.del_data_axes(op["key"])
        return f
    if k == "copy":
        return f.copy()
    if k == "subspace":
        return f[tuple(conv_index(ix) for ix in op["idx"])]
    if k == "squeeze":
        g = f.squeeze(op.get("axes"), inplace=op["inplace"])
        return f if op["inplace"] else g
    if k == "transpose":
        g = f.transpose(op.get("axes"), constructs=op["constructs"], inplace=op["inplace"])
        return f if op["inplace"] else g
    if k == "insert_dimension":
        g = f.insert_dimension(op.get("axis"), position=op["position"],
                               constructs=op["constructs"], inplace=op["inplace"])
        return f if op["inplace"] else g
    if k == "convert":
        return f.convert(op["key"], full_domain=op["full_domain"])
    raise RuntimeError("unknown op " + k)


def index_sizes(shape, idx):
    """Resulting size per dimension of an orthogonal index, by numpy alone
    (None = numpy rejects the index for that dimension)."""
    out = []
    for n, ix in zip(shape, idx):
        try:
            r = np.empty((n,))[conv_index(ix) if ix[0] != "i" else slice(int(ix[1]), int(ix[1]) + 1 or None)]
            if ix[0] == "i":
                np.empty((n,))[int(ix[1])]
            out.append(int(r.shape[0]))
        except Exception:
            out.append(None)
    return out


# --------------------------------------------------------------------------
# generation from the live state
# --------------------------------------------------------------------------
class Gen:
    def __init__(self, seed, malformed):
        self.r = random.Random(seed)
        self.mal = malformed
        self.pending = []
        self.nregs = 1
        self.depth = [0]

    def view(self, f):
        C = f.constructs
        self.types = dict(C.construct_types())
        self.axes = {k: a.get_size(None) for k, a in C.filter_by_type("domain_axis", todict=True).items()}
        self.daxes = {k: tuple(v) for k, v in C.data_axes().items()}
        d = f.get_data(None)
        self.fshape = None if d is None else tuple(d.shape)
        self.fax = f.get_data_axes(default=None)
        self.keys_of = lambda *ts: [k for k, t in self.types.items() if t in ts]
        self.named = []
        for r in C.filter_by_type("coordinate_reference", todict=True).values():
            self.named += [k for k in r.coordinates() if k in self.types]
            self.named += [k for k in r.coordinate_conversion.domain_ancillaries().values() if k in self.types]

    def size(self):
        return self.r.choice([1, 1, 2, 3, 3, 5])

    def pick_axes(self, n=None):
        ax = list(self.axes)
        if not ax:
            return []
        if n is None:
            n = self.r.choice([1, 1, 1, 2, 2, 0, 3])
        n = min(n, len(ax))
        return self.r.sample(ax, n)

    def bad_key(self):
        return self.r.choice(["nope0", "domainaxis99", "dimensioncoordinate77", "cellmethod9"])

    def array_spec(self, t, axes, wrong=False):
        shape = [self.axes[a] for a in axes]
        if wrong and shape:
            i = self.r.randrange(len(shape))
            shape[i] = shape[i] + self.r.choice([1, 2])
        elif wrong:
            shape = [2]
        spec = {"t": t, "shape": shape, "hasdata": True, "bnd": None}
        if t in BOUNDED and self.r.random() < 0.35:
            spec["bnd"] = self.r.choice([2, 2, 4])
            if t != "dimension_coordinate" and self.r.random() < 0.2:
                spec["hasdata"] = False
        if self.r.random() < 0.04:
            spec = {"t": t, "shape": None, "hasdata": False, "bnd": None}
        return spec

    def op_set(self, f):
        r = self.r
        mal = r.random() < self.mal
        via = "d" if r.random() < 0.2 else "f"
        kind = r.choice(["axis", "axis", "array", "array", "array", "array", "ref", "cm", "replace", "replace"])
        if not self.axes:
            kind = "axis"
        if kind == "axis":
            op = {"op": "set", "via": via, "c": {"t": "domain_axis", "size": self.size()}, "key": None, "axes": None}
            if mal:
                ch = r.random()
                if ch < 0.4:
                    op["axes"] = self.pick_axes(1) or ["domainaxis0"]     # axes for a non-array construct
                elif ch < 0.7 and self.types:
                    op["key"] = r.choice(list(self.types))                # a key owned by anything
                else:
                    op["key"] = "domainaxis%d" % r.choice([7, 8, 9])     # explicit new key
            return op
        if kind == "array":
            t = r.choice(ARRAY_TYPES)
            if t == "dimension_coordinate":
                axes = self.pick_axes(1)
            else:
                axes = self.pick_axes()
                if axes and r.random() < 0.04:
                    axes = axes + [r.choice(axes)]                        # an axis spanned twice
            op = {"op": "set", "via": via, "c": self.array_spec(t, axes), "key": None, "axes": axes}
            if r.random() < 0.1 and len(axes) == 1:
                op["axes"] = axes[0]                                      # axes given as a string
            if r.random() < 0.08:
                op["key"] = BASE[t] + str(r.choice([5, 6]))              # explicit, probably new, key
            if mal:
                ch = r.random()
                if ch < 0.25:
                    op["c"] = self.array_spec(t, axes, wrong=True)        # shape does not match
                elif ch < 0.45:
                    op["axes"] = [self.bad_key()]                         # axis does not exist
                elif ch < 0.65 and self.types:
                    op["key"] = r.choice(list(self.types))                # key owned by (maybe) another type
                elif ch < 0.8:
                    op["axes"] = None                                     # inserted without axes
                else:
                    op["axes"] = self.keys_of(*ARRAY_TYPES)[:1] or [self.bad_key()]   # a non-axis key as axis
            return op
        if kind == "ref":
            coords = self.keys_of("dimension_coordinate", "auxiliary_coordinate")
            ancs = self.keys_of("domain_ancillary")
            r.shuffle(coords)
            r.shuffle(ancs)
            spec = {"t": "coordinate_reference", "coords": sorted(coords[:r.choice([0, 1, 2, 3])]),
                    "ancs": {}}
            for i, a in enumerate(ancs[:r.choice([0, 1, 2])]):
                spec["ancs"]["t%d" % i] = a
            if r.random() < 0.2:
                spec["ancs"]["tnone"] = None
            op = {"op": "set", "via": via, "c": spec, "key": None, "axes": None}
            if mal and r.random() < 0.5:
                op["axes"] = self.pick_axes(1)
            return op
        if kind == "cm":
            ax = self.pick_axes(r.choice([1, 1, 2]))
            if r.random() < 0.3:
                ax = ax + [r.choice(STD_NAMES)]
            op = {"op": "set", "via": via, "c": {"t": "cell_method", "axes": ax}, "key": None, "axes": None}
            return op
        # replace an existing construct under its key
        cand = [k for k, t in self.types.items() if t in ARRAY_TYPES or t == "domain_axis"]
        if not cand:
            return self.op_set_axis(via)
        key = r.choice(cand)
        t = self.types[key]
        if t == "domain_axis":
            size = self.axes[key]
            if mal and r.random() < 0.5:
                size = size + 1                                           # resize an axis in place
            return {"op": "set", "via": via, "c": {"t": t, "size": size}, "key": key, "axes": None}
        cur = self.daxes.get(key)
        if cur is None or any(a not in self.axes for a in cur):
            cur = self.pick_axes(1)
        keep = r.random() < 0.5
        spec = self.array_spec(t, list(cur), wrong=mal and r.random() < 0.6)
        if via == "d" and t in DOMAIN_IGNORES and not mal:
            via = "f"
        return {"op": "set", "via": via, "c": spec, "key": key, "axes": None if keep else list(cur)}

    def op_take_view(self, f):
        r = self.r
        n = getattr(self, "nregs", 1)
        if n >= 5:
            return self.op_domain_axis_edit(f)
        # favour the deepest register, so that depth grows
        of = (n - 1) if r.random() < 0.6 else r.randrange(n)
        routes = ["fromconstructs", "source", "fromconstructs-nocopy"]
        if of == 0:
            routes += ["domain", "get_domain"]
        op = {"op": "view", "of": of, "route": r.choice(routes)}
        # often go one or two levels deeper at once, then edit an axis through the deepest view
        k = n
        while k < 4 and r.random() < 0.6:
            self.pending.append({"op": "view", "of": k, "route": r.choice(["fromconstructs", "source", "fromconstructs-nocopy"])})
            k += 1
        if r.random() < 0.7:
            self.pending.append("axis-edit")
        return op

    def through(self, op):
        """Issue a domain-view operation through a view register (if there is one)."""
        n = getattr(self, "nregs", 1)
        if op.get("via") == "d" and n > 1 and self.r.random() < 0.75:
            # favour views of views
            deep = [i for i in range(1, n) if self.depth[i] >= 2]
            op["reg"] = self.r.choice(deep) if deep and self.r.random() < 0.7 else self.r.randrange(1, n)
        return op

    def op_sibling(self, f):
        """Container-level calls on g = Field(source=f, copy=False), generated from
        the state of `f` (g starts as its twin): drop g's data axes or data, then
        delete / resize axes and delete / insert constructs through g and g.domain."""
        r = self.r
        ops = []
        ch = r.random()
        if ch < 0.45:
            ops.append({"op": "del_data_axes", "key": None, "via": "f"})
        elif ch < 0.7:
            ops.append({"op": "del_data"})
            ops.append({"op": "del_data_axes", "key": None, "via": "f"})
        elif ch < 0.85 and self.axes:
            ax = self.pick_axes(r.choice([0, 1, 2]))
            ops.append({"op": "set_data", "shape": [self.axes[a] for a in ax], "axes": ax})
        for _ in range(r.choice([1, 2, 3, 4])):
            c = r.random()
            if c < 0.45:
                o = self.op_domain_axis_edit(f)
                o["via"] = r.choice(["f", "d", "core"])
            elif c < 0.65:
                o = self.op_del(f)
            elif c < 0.85:
                o = self.op_set(f)
            elif c < 0.93:
                o = self.op_set_data_axes(f)
            else:
                o = self.op_del_data_axes(f)
            o.pop("reg", None)
            ops.append(o)
        op = {"op": "sibling", "ops": ops}
        if self.nregs > 1 and r.random() < 0.3:
            op["of"] = r.randrange(1, self.nregs)      # made from a domain that is a view of f
        return op

    def fresh_key(self, t):
        r = self.r
        for _ in range(20):
            k = r.choice([BASE[t] + str(r.randrange(20, 60)), BASE[r.choice(ALL_TYPES)] + str(r.randrange(20, 60)),
                          "mykey%d" % r.randrange(10)])
            if k not in self.types:
                return k
        return "fresh%d" % r.randrange(1000, 9999)

    def op_set_fresh_rejected(self, f):
        """An insertion under a NEW explicit key that the container must reject:
        afterwards the key must not be known in any way (the oracle probes it
        on the field and on the domain view)."""
        r = self.r
        if not self.axes:
            return self.op_set_axis("f")
        ch = r.choice(["shape", "noaxis", "nonaxis", "axes-for-nonarray", "view-ignored", "dup-shape", "2d-dimcoord"])
        via = "d" if r.random() < 0.3 else ("core" if r.random() < 0.15 else "f")
        t = r.choice(ARRAY_TYPES)
        axes = self.pick_axes(1) if t == "dimension_coordinate" else (self.pick_axes() or self.pick_axes(1))
        if ch == "shape":
            c = self.array_spec(t, axes, wrong=True)
            if c.get("shape") is None:
                c = {"t": t, "shape": [self.axes[a] + 1 for a in axes] or [2], "hasdata": True, "bnd": None}
            op = {"op": "set", "via": via, "c": c, "key": self.fresh_key(t), "axes": axes}
        elif ch == "noaxis":
            op = {"op": "set", "via": via, "c": {"t": t, "shape": [3], "hasdata": True, "bnd": None},
                  "key": self.fresh_key(t), "axes": [self.bad_key()]}
        elif ch == "nonaxis":
            other = self.keys_of(*ARRAY_TYPES)
            op = {"op": "set", "via": via, "c": {"t": t, "shape": [3], "hasdata": True, "bnd": None},
                  "key": self.fresh_key(t), "axes": [r.choice(other) if other else self.bad_key()]}
        elif ch == "axes-for-nonarray":
            t2 = r.choice(NON_ARRAY)
            c = ({"t": t2, "size": self.size()} if t2 == "domain_axis" else
                 {"t": t2, "coords": [], "ancs": {}} if t2 == "coordinate_reference" else
                 {"t": t2, "axes": self.pick_axes(1)})
            op = {"op": "set", "via": via, "c": c, "key": self.fresh_key(t2), "axes": self.pick_axes(1)}
        elif ch == "view-ignored":
            if r.random() < 0.5:
                ax = self.pick_axes(1)
                op = {"op": "set", "via": "d", "c": self.array_spec("field_ancillary", ax),
                      "key": self.fresh_key("field_ancillary"), "axes": ax}
            else:
                op = {"op": "set", "via": "d", "c": {"t": "cell_method", "axes": self.pick_axes(1)},
                      "key": self.fresh_key("cell_method"), "axes": None}
        elif ch == "dup-shape":
            a = self.pick_axes(1)
            t = r.choice([x for x in ARRAY_TYPES if x != "dimension_coordinate"])
            op = {"op": "set", "via": via, "c": {"t": t, "shape": [self.axes[a[0]], self.axes[a[0]] + 1],
                                                   "hasdata": True, "bnd": None},
                  "key": self.fresh_key(t), "axes": a + a}
        else:
            op = {"op": "set", "via": via, "c": {"t": "dimension_coordinate", "shape": [1, self.size()],
                                                   "hasdata": True, "bnd": None},
                  "key": self.fresh_key("dimension_coordinate"), "axes": None}
        if r.random() < 0.15:
            op["key"] = None              # the same rejected insertion with an automatic identifier
        return op

    def op_domain_axis_edit(self, f):
        """Through the domain view (mostly): delete or resize a domain axis -
        favouring axes that only constructs hidden from the view use."""
        r = self.r
        if not self.axes:
            return self.op_set_axis("d")
        hidden = set()
        seen = set(self.fax or ())
        for k, ax in self.daxes.items():
            (hidden if self.types.get(k) in DOMAIN_IGNORES else seen).update(ax)
        only_hidden = [a for a in self.axes if a in hidden and a not in seen]
        spanned = set()
        for ax in self.daxes.values():
            spanned.update(ax)
        # axes that only the field's data span (e.g. made by insert_dimension(None))
        only_data = [a for a in self.axes if a in (self.fax or ()) and a not in spanned]
        if only_data and r.random() < 0.45:
            axis = r.choice(only_data)
        else:
            axis = r.choice(only_hidden) if only_hidden and r.random() < 0.7 else r.choice(list(self.axes))
        via = "d" if r.random() < 0.8 else r.choice(["f", "core"])
        if r.random() < 0.5:
            return {"op": "del", "via": via, "key": axis}
        size = self.axes[axis]
        return {"op": "set", "via": via, "c": {"t": "domain_axis", "size": (size or 0) + r.choice([1, 1, 2, 0])},
                "key": axis, "axes": None}

    def op_set_axis(self, via):
        return {"op": "set", "via": via, "c": {"t": "domain_axis", "size": self.size()}, "key": None, "axes": None}

    def op_del(self, f):
        r = self.r
        via = r.choice(["f", "f", "f", "d", "core"])
        keys = list(self.types)
        if not keys or r.random() < self.mal * 0.5:
            return {"op": "del", "via": via, "key": self.bad_key()}
        # favour axes (guards) and referenced constructs
        if r.random() < 0.35 and self.axes:
            return {"op": "del", "via": via, "key": r.choice(list(self.axes))}
        if r.random() < 0.45 and self.named:
            multi = [k for k in set(self.named) if self.named.count(k) >= 2]
            return {"op": "del", "via": via, "key": r.choice(multi if multi and r.random() < 0.7 else self.named)}
        return {"op": "del", "via": via, "key": r.choice(keys)}

    def op_set_data(self, f):
        r = self.r
        if r.random() < 0.3 and self.fax is not None and all(a in self.axes for a in self.fax):
            shape = [self.axes[a] for a in self.fax]
            if r.random() < self.mal:
                shape = shape + [2]
            return {"op": "set_data", "shape": shape, "axes": None}
        axes = self.pick_axes(r.choice([0, 1, 2, 2, 3]))
        if axes and r.random() < 0.05:
            axes = axes + [r.choice(axes)]                               # an axis spanned twice
        shape = [self.axes[a] for a in axes]
        op = {"op": "set_data", "shape": shape, "axes": axes}
        if r.random() < 0.1:
            op["axes"] = None
        if r.random() < self.mal:
            ch = r.random()
            if ch < 0.4 and shape:
                op["shape"] = shape[:-1] + [shape[-1] + 1]
            elif ch < 0.7:
                op["axes"] = axes + [self.bad_key()]
                op["shape"] = shape + [1]
            else:
                op["axes"] = axes + axes[:1]
                op["shape"] = shape + shape[:1]
        return op

    def op_set_data_axes(self, f):
        r = self.r
        if r.random() < 0.5:
            # the field's own data axes
            if self.fshape is not None:
                # a permutation among axes with the right sizes
                axes = []
                for n in self.fshape:
                    c = [a for a, s in self.axes.items() if s == n]
                    axes.append(r.choice(c) if c else self.bad_key())
            else:
                axes = self.pick_axes()
            if r.random() < self.mal:
                axes = (axes + [self.bad_key()]) if r.random() < 0.5 else axes[:-1]
            return {"op": "set_data_axes", "axes": axes, "key": None, "via": "f"}
        arr = self.keys_of(*ARRAY_TYPES)
        via = "d" if r.random() < 0.25 else "f"
        if not arr or r.random() < self.mal * 0.5:
            return {"op": "set_data_axes", "axes": self.pick_axes(1), "via": via,
                    "key": r.choice(list(self.types)) if self.types and r.random() < 0.5 else self.bad_key()}
        key = r.choice(arr)
        cur = self.daxes.get(key, ())
        axes = list(cur)
        r.shuffle(axes)
        if not axes or r.random() < 0.3:
            axes = self.pick_axes()
        if r.random() < self.mal:
            axes = axes + [self.bad_key()]
        if r.random() < 0.1 and len(axes) == 1:
            axes = axes[0]
        return {"op": "set_data_axes", "axes": axes, "key": key, "via": via}

    def op_del_data_axes(self, f):
        r = self.r
        if r.random() < 0.3:
            return {"op": "del_data_axes", "key": None, "via": "f"}
        via = "d" if r.random() < 0.25 else "f"
        arr = list(self.daxes)
        if not arr or r.random() < self.mal:
            return {"op": "del_data_axes", "via": via,
                    "key": r.choice(list(self.types)) if self.types and r.random() < 0.6 else self.bad_key()}
        return {"op": "del_data_axes", "key": r.choice(arr), "via": via}

    def op_subspace(self, f):
        r = self.r
        shape = self.fshape if self.fshape is not None else (3,)
        idx = []
        for n in shape:
            ch = r.random()
            if ch < 0.35:
                idx.append(["s", None, None, None])
            elif ch < 0.65:
                a = r.randrange(0, n)
                b = r.randrange(a + 1, n + 1)
                idx.append(["s", a, b, r.choice([None, 1, 2])])
            elif ch < 0.75:
                idx.append(["s", None, None, -1])
            elif ch < 0.88:
                m = r.randrange(1, n + 1)
                idx.append(["l", sorted(r.sample(range(n), m))])
            else:
                idx.append(["i", r.randrange(-n, n)])
        if r.random() < self.mal and idx:
            i = r.randrange(len(idx))
            idx[i] = r.choice([["s", 0, 0, None], ["i", shape[i] + 3], ["l", [shape[i] + 1]], ["s", 1, 0, None]])
        op = {"op": "subspace", "idx": idx}
        op["sizes"] = index_sizes(shape, idx)
        return op

    def op_squeeze(self, f):
        r = self.r
        nd = max(1, len(self.fshape)) if self.fshape is not None else 1
        ones = [i for i, n in enumerate(self.fshape or ()) if n == 1]
        axes = None
        ch = r.random()
        if ch < 0.4:
            axes = None
        elif ch < 0.8 and ones:
            axes = r.sample(ones, r.randrange(1, len(ones) + 1))
        else:
            axes = [r.randrange(0, nd)]
        if r.random() < self.mal:
            axes = [nd + 1] if r.random() < 0.5 else (axes or []) + [0]
        return {"op": "squeeze", "axes": axes, "inplace": r.random() < 0.6}

    def op_transpose(self, f):
        r = self.r
        nd = len(self.fshape) if self.fshape is not None else 1
        axes = None
        if r.random() < 0.7:
            axes = list(range(nd))
            r.shuffle(axes)
        if r.random() < self.mal:
            axes = (axes or [0]) + [0]
        return {"op": "transpose", "axes": axes, "constructs": r.random() < 0.4, "inplace": r.random() < 0.6}

    def op_insert_dimension(self, f):
        r = self.r
        nd = len(self.fshape) if self.fshape is not None else 0
        ones = [a for a, s in self.axes.items() if s == 1 and (self.fax is None or a not in self.fax)]
        axis = r.choice(ones) if ones and r.random() < 0.75 else None
        pos = r.randrange(0, nd + 1)
        if r.random() < 0.2:
            pos = pos - nd - 1
        if r.random() < self.mal:
            ch = r.random()
            if ch < 0.3:
                pos = nd + 2
            elif ch < 0.6 and self.axes:
                axis = r.choice(list(self.axes))
            elif ch < 0.8:
                axis = self.bad_key()
            else:
                pos = -nd - 3
        return {"op": "insert_dimension", "axis": axis, "position": pos,
                "constructs": r.random() < 0.35, "inplace": r.random() < 0.6}

    def op_convert(self, f):
        r = self.r
        arr = self.keys_of(*ARRAY_TYPES)
        if not arr or r.random() < self.mal:
            key = r.choice(list(self.types)) if self.types and r.random() < 0.7 else self.bad_key()
        else:
            key = r.choice(arr)
        return {"op": "convert", "key": key, "full_domain": r.random() < 0.7}

    def build_prefix(self):
        """A structured start: axes, data, coordinates, a reference, cell methods."""
        r = self.r
        ops = []
        n = r.choice([1, 2, 2, 3, 3, 4])
        sizes = [self.size() for _ in range(n)]
        if n >= 2 and r.random() < 0.4:
            sizes[1] = sizes[0]
        ax = ["domainaxis%d" % i for i in range(n)]
        for s in sizes:
            ops.append({"op": "set", "via": "f", "c": {"t": "domain_axis", "size": s}, "key": None, "axes": None})
        m = r.randrange(0, n + 1)
        dax = r.sample(ax, m)
        if r.random() < 0.85:
            ops.append({"op": "set_data", "shape": [sizes[ax.index(a)] for a in dax], "axes": dax})
        sz = dict(zip(ax, sizes))
        self.axes = sz
        for a in ax:
            if r.random() < 0.7:
                ops.append({"op": "set", "via": "f", "c": self.array_spec("dimension_coordinate", [a]), "key": None, "axes": [a]})
        made = {"dimension_coordinate": sum(1 for o in ops if o["op"] == "set" and o["c"]["t"] == "dimension_coordinate")}
        for t in ("auxiliary_coordinate", "cell_measure", "field_ancillary", "domain_ancillary", "auxiliary_coordinate"):
            if r.random() < 0.6:
                axes = self.pick_axes(r.choice([1, 2, 2]))
                ops.append({"op": "set", "via": "f", "c": self.array_spec(t, axes), "key": None, "axes": axes})
                made[t] = made.get(t, 0) + 1
        # a scalar coordinate / domain ancillary (axes=()) that the coordinate references below name:
        # whatever derives a field from this one must carry it along with the reference
        scalar = None
        if r.random() < 0.3:
            t = r.choice(["auxiliary_coordinate", "auxiliary_coordinate", "domain_ancillary"])
            scalar = BASE[t] + str(made.get(t, 0))
            ops.append({"op": "set", "via": "f", "c": {"t": t, "shape": [], "hasdata": True, "bnd": None},
                        "key": None, "axes": []})
            made[t] = made.get(t, 0) + 1
            self.pending.append("convert-full")
        # two or three coordinate references that share coordinates and domain ancillaries
        if scalar or r.random() < 0.5:
            coords = (["dimensioncoordinate%d" % i for i in range(made.get("dimension_coordinate", 0))] +
                      ["auxiliarycoordinate%d" % i for i in range(made.get("auxiliary_coordinate", 0))])
            ancs = ["domainancillary%d" % i for i in range(made.get("domain_ancillary", 0))]
            if scalar and scalar.startswith("domainancillary"):
                ancs = [scalar] + [a for a in ancs if a != scalar]
            if coords:
                shared = r.sample(coords, min(len(coords), r.choice([1, 1, 2])))
                if scalar in coords and scalar not in shared:
                    shared.append(scalar)
                for j in range(r.choice([2, 2, 3])):
                    extra = [c for c in coords if c not in shared and r.random() < 0.3]
                    spec = {"t": "coordinate_reference", "coords": sorted(shared + extra), "ancs": {}}
                    if ancs and r.random() < 0.7:
                        spec["ancs"]["t0"] = ancs[0]
                    ops.append({"op": "set", "via": "f", "c": spec, "key": None, "axes": None})
        # a domain axis that only constructs hidden from the domain view use
        if r.random() < 0.4:
            extra = "domainaxis%d" % n
            size = self.size()
            ops.append({"op": "set", "via": "f", "c": {"t": "domain_axis", "size": size}, "key": None, "axes": None})
            if r.random() < 0.75:
                ops.append({"op": "set", "via": "f", "c": {"t": "field_ancillary", "shape": [size], "hasdata": True, "bnd": None},
                            "key": None, "axes": [extra]})
            else:
                ops.append({"op": "set", "via": "f", "c": {"t": "cell_method", "axes": [extra]}, "key": None, "axes": None})
            self.axes[extra] = size
        return ops


WEIGHTS = [("op_set", 30), ("op_set_fresh_rejected", 5), ("op_domain_axis_edit", 6), ("op_take_view", 6), ("op_sibling", 3), ("op_del", 16), ("op_set_data", 6), ("del_data", 2), ("op_set_data_axes", 9),
           ("op_del_data_axes", 3), ("copy", 3), ("op_subspace", 8), ("op_squeeze", 6), ("op_transpose", 6),
           ("op_insert_dimension", 7), ("op_convert", 4)]


def next_op(g, f):
    g.view(f)
    while g.pending:
        op = g.pending.pop(0)
        if op == "convert-full":
            arr = [k for k in g.keys_of(*ARRAY_TYPES) if g.daxes.get(k)]
            if arr:
                return {"op": "convert", "key": g.r.choice(arr), "full_domain": True}
            continue
        if op == "axis-edit":
            if g.nregs > 1:
                op = g.op_domain_axis_edit(f)
                op["via"] = "d"
                op["reg"] = g.nregs - 1
                return op
            continue
        if op["of"] < g.nregs:
            return op
    names = [n for n, _ in WEIGHTS]
    w = [x for _, x in WEIGHTS]
    n = g.r.choices(names, w)[0]
    if n == "del_data":
        return {"op": "del_data"}
    if n == "copy":
        return {"op": "copy"}
    if n == "op_sibling":
        return g.op_sibling(f)
    return g.through(getattr(g, n)(f))


def situation(f, op):
    """Which of the situations the property is about this call is in (read
    from the live object before the call; used for coverage counters only)."""
    sit = []
    try:
        C = f.constructs
        types = C.construct_types()
        key = op.get("key")
        if op["op"] == "set" and isinstance(key, str) and key not in types:
            sit.append("set-under-fresh-key")
        if op["op"] == "convert" and op.get("full_domain"):
            da = C.data_axes()
            for r in C.filter_by_type("coordinate_reference", todict=True).values():
                named = list(r.coordinates()) + [v for v in r.coordinate_conversion.domain_ancillaries().values() if v]
                if any(da.get(k) == () for k in named):
                    sit.append("convert-with-reference-naming-a-scalar-construct")
                    break
        if op["op"] == "del" and isinstance(key, str) and key in types:
            n = 0
            for r in C.filter_by_type("coordinate_reference", todict=True).values():
                if key in r.coordinates() or key in r.coordinate_conversion.domain_ancillaries().values():
                    n += 1
            if n >= 2:
                sit.append("del-named-by-2+-references")
            elif n == 1:
                sit.append("del-named-by-1-reference")
        if (op.get("via") == "d" and isinstance(key, str) and types.get(key) == "domain_axis"
                and (op["op"] == "del" or (op["op"] == "set" and op["c"]["t"] == "domain_axis"
                                           and op["c"]["size"] != C[key].get_size(None)))):
            seen = set(f.get_data_axes(default=()) or ())
            hidden = set()
            named = set()
            for k, ax in C.data_axes().items():
                (hidden if types.get(k) in DOMAIN_IGNORES else seen).update(ax)
            for cm in C.filter_by_type("cell_method", todict=True).values():
                named.update(cm.get_axes(()))
            kind = "deletes" if op["op"] == "del" else "resizes"
            if key in (f.get_data_axes(default=()) or ()) and not any(key in ax for ax in C.data_axes().values()):
                sit.append(f"view-{kind}-axis-only-the-field-data-span")
            if key in hidden and key not in seen:
                sit.append(f"view-{kind}-axis-only-a-field-ancillary-spans")
            elif key in named and key not in seen:
                # resizing is harmless here (a cell method has no shape), deleting is not
                sit.append(f"view-{kind}-axis-only-a-cell-method-names")
            elif key in seen:
                sit.append(f"view-{kind}-axis-in-use")
    except Exception:
        pass
    return sit


def run_case(case):
    f = cfdm.Field()
    regs = [f]
    depth = [0]
    steps = []
    prev = None
    gen = None
    if "ops" in case:
        queue = list(case["ops"])
        n = len(queue)
    else:
        gen = Gen(case["seed"], case.get("malformed", 0.15))
        queue = gen.build_prefix() if case.get("prefix", True) else []
        n = len(queue) + case["nops"]
    for i in range(n):
        if queue:
            op = queue.pop(0)
            if op["op"] == "subspace" and "sizes" not in op:
                d = f.get_data(None)
                op["sizes"] = index_sizes(d.shape if d is not None else (3,), op["idx"])
        else:
            gen.nregs = len(regs)
            gen.depth = depth
            op = next_op(gen, f)
        sit = situation(f, op)
        if op.get("reg"):
            sit.append("through-view-depth-%d" % depth[op["reg"]])
        if op["op"] == "sibling":
            sit.append("calls-on-a-field-made-with-copy=False")
        try:
            g = apply(f, op, regs)
            out = "ok"
            if op["op"] == "view":
                depth.append(depth[op["of"]] + 1)
                sit.append("take-view-depth-%d" % depth[-1])
            if g is not f:
                # the variable is bound to a new field: the views were views of the old one
                f = g
                regs[:] = [f]
                depth[:] = [0]
        except Exception as e:  # a rejected call
            out = errclass(e)
        try:
            st = read_state(f)
        except Exception as e:
            st = {"unreadable": f"{type(e).__name__}: {e}"}
        probes = [x for x in (op.get("key"),) if isinstance(x, str)]
        if op["op"] == "set" and op.get("key") is None:
            # the identifier an automatic insertion would have used next
            probes += [BASE[op["c"]["t"]] + str(i) for i in range(0, 12)]
        bad = oracle(f, probes, regs[1:])
        steps.append({"op": op, "out": out, "state": "same" if st == prev else st, "bad": bad, "sit": sit})
        prev = st
    return {"id": case["id"], "steps": steps}


def main():
    payload_ = json.load(sys.stdin)
    for case in payload_["cases"]:
        try:
            row = run_case(case)
        except Exception as e:  # harness-level problem: report, keep going
            row = {"id": case["id"], "error": f"{type(e).__name__}: {e}"}
        sys.stdout.write(json.dumps(row) + "\n")
        sys.stdout.flush()


if __name__ == "__main__":
    main()
