"""Drive cfdm.read on deliberately broken datasets for C13 (PYTHONPATH=/repo).

stdin: {"mode": "bases" | "faults", "scratch": dir, ...};  one JSON line per case on stdout.

mode "bases":  {"bases": [{"id":..., "example": n, "compress": None|str, "variants": [...]}]}
               writes <scratch>/bases/<id>.nc and prints, per base, the raw content of the file
               (netCDF4-python, independent of cfdm) and the observation of the unfaulted read.
mode "faults": {"cases": [{"cid":..., "base": id, "edits": [[var, attr, newvalue|None], ...],
                           "foreign": bool}]}
               copies the base to a fresh file, applies the edits with netCDF4-python, reads the
               result with cfdm.read(warnings=False) and prints the observation.
"""
import gc
import hashlib
import json
import os
import shutil
import sys

import netCDF4
import numpy as np

import cfdm

REF_ATTRS = (
    "bounds", "climatology", "coordinates", "cell_measures", "ancillary_variables",
    "grid_mapping", "formula_terms", "cell_methods", "geometry", "node_coordinates",
    "node_count", "part_node_count", "interior_ring", "nodes", "compress",
    "sample_dimension", "instance_dimension", "external_variables", "dimensions", "mesh",
    "face_coordinates", "edge_coordinates", "face_node_connectivity", "edge_node_connectivity",
)


def open_fds(path):
    """Number of descriptors of this process that refer to `path`."""
    n = 0
    real = os.path.realpath(path)
    for fd in os.listdir("/proc/self/fd"):
        try:
            if os.path.realpath(os.readlink(f"/proc/self/fd/{fd}")) == real:
                n += 1
        except OSError:
            pass
    return n


def digest(arr):
    a = np.ma.asanyarray(arr)
    m = np.ma.getmaskarray(a)
    h = hashlib.sha1()
    h.update(str(a.shape).encode())
    h.update(str(a.dtype.kind).encode())
    if a.dtype.kind in "OUS":
        h.update(repr(np.ma.filled(a, "").tolist()).encode())
    else:
        h.update(np.ascontiguousarray(np.ma.filled(a.astype("f8"), 0.0)).tobytes())
    h.update(np.ascontiguousarray(m).tobytes())
    return h.hexdigest()[:12]


WITH_DATA = [True]


def scribble(a):
    """Overwrite an array returned by the implementation, in place."""
    try:
        if isinstance(a, np.ndarray) and a.flags.writeable and a.size:
            if a.dtype.kind in "iuf":
                a[...] = 77
            elif a.dtype.kind in "SU":
                a[...] = "#"
            elif a.dtype.kind == "O":
                a[...] = "#"
            if np.ma.isMA(a) and a.mask is not np.ma.nomask and np.ndim(a.mask):
                a.mask[...] = ~a.mask
    except Exception:  # noqa
        pass


def data_obs(c):
    """(shape, digest) of a construct's data; the digest is 'ERR:<class>' when the data
    cannot be brought into memory."""
    try:
        if not c.has_data():
            return None
    except AttributeError:
        return None
    if not WITH_DATA[0]:
        return [list(c.data.shape), "unread"]
    try:
        d = c.data
        a = d.array
        h = digest(a)
        # overwrite the returned array in place, then ask again: if the array aliased internal
        # state of the construct the second answer differs
        scribble(a)
        h2 = digest(d.array)
        if h2 != h:
            return [list(d.shape), "ALIASED:" + h + "/" + h2]
        return [list(d.shape), h]
    except Exception as e:  # noqa
        return [None, "ERR:" + type(e).__name__]


def axis_names(f):
    """Canonical, key-independent name of every domain axis of f."""
    names = {}
    dcs = f.dimension_coordinates(todict=True)
    for key, ax in f.domain_axes(todict=True).items():
        nm = ax.nc_get_dimension(None)
        if nm is None:
            for dkey, dc in dcs.items():
                if f.get_data_axes(dkey, ()) == (key,):
                    nm = "scalar:" + str(dc.nc_get_variable(None))
                    break
        if nm is None:
            nm = "anon"
        names[key] = f"{nm}[{ax.get_size(None)}]"
    return names


def field_obs(f, full=True):
    out = {"ncvar": f.nc_get_variable(None), "type": f.__class__.__name__}
    # a variable that became a field only because the fault orphaned it: its structure is
    # recorded, its data are not read (a scalar char variable raises inside netCDF4 and the
    # next open can bring HDF5 down)
    WITH_DATA[0] = bool(full)
    if not full:
        out["extra"] = True
    ax = axis_names(f)
    out["data"] = data_obs(f) if hasattr(f, "get_data") else None
    out["data_axes"] = [ax.get(a, a) for a in (f.get_data_axes(default=()) if hasattr(f, "get_data") else ())]
    out["axes"] = sorted(ax.values())
    cons = []
    key2nc = {}
    for key, c in f.constructs.filter_by_data(todict=True).items():
        key2nc[key] = c.nc_get_variable(None)
    for key, c in f.constructs.filter_by_data(todict=True).items():
        t = c.construct_type
        row = {"type": t, "ncvar": c.nc_get_variable(None),
               "axes": [ax.get(a, a) for a in f.get_data_axes(key, ())],
               "data": data_obs(c), "bounds": None}
        if hasattr(c, "has_bounds") and c.has_bounds():
            b = c.bounds
            row["bounds"] = [b.nc_get_variable(None), data_obs(b)]
        if hasattr(c, "is_climatology"):
            try:
                row["clim"] = bool(c.is_climatology())
            except Exception:  # noqa
                row["clim"] = None
        if hasattr(c, "get_geometry"):
            row["geometry"] = c.get_geometry(None)
        if t == "cell_measure":
            row["measure"] = c.get_measure(None)
            row["external"] = bool(c.nc_get_external())
        cons.append(row)
    cons.sort(key=lambda r: (r["type"], str(r["ncvar"])))
    out["constructs"] = cons
    cms = []
    for key, cm in f.cell_methods(todict=True).items() if hasattr(f, "cell_methods") else ():
        quals = {}
        for q, v in cm.qualifiers().items():
            if q == "interval":
                quals[q] = [str(x) for x in v]
            else:
                quals[q] = str(v)
        cms.append({"axes": [ax.get(a, "name:" + str(a)) for a in cm.get_axes(())],
                    "method": cm.get_method(None), "qualifiers": quals})
    out["cell_methods"] = cms
    crs = []
    for key, cr in f.coordinate_references(todict=True).items():
        conv = cr.coordinate_conversion
        terms = sorted([t, key2nc.get(k, None if k is None else "?" + str(k))]
                       for t, k in conv.domain_ancillaries().items())
        crs.append({"ncvar": cr.nc_get_variable(None),
                    "coordinates": sorted(str(key2nc.get(k, "?" + str(k))) for k in cr.coordinates()),
                    "terms": terms,
                    "conversion": sorted(conv.parameters()),
                    "datum": sorted(cr.datum.parameters())})
    crs.sort(key=lambda r: (str(r["ncvar"]), r["coordinates"], r["conversion"]))
    out["coordinate_references"] = crs
    rep = []
    try:
        dc = f.dataset_compliance()
    except Exception as e:  # noqa
        dc = {"ERR": {"non-compliance": {type(e).__name__: [{"reason": str(e), "attribute": None}]}}}
    for fv, body in sorted(dc.items()):
        for nv, msgs in sorted(body.get("non-compliance", {}).items(), key=lambda kv: str(kv[0])):
            for m in msgs:
                if not isinstance(m, dict):
                    rep.append([fv, str(nv), repr(m)[:80], None, None])
                    continue
                att = m.get("attribute")
                rep.append([fv, str(nv), m.get("reason"), m.get("code"),
                            sorted([str(k), str(v)] for k, v in att.items()) if isinstance(att, dict) else None])
    out["report"] = rep
    out["props"] = sorted(k for k in f.properties())
    return out


def read_obs(path, only=None, kwargs=None, external=None):
    """`external`: paths given to cfdm.read(external=...); their descriptors are counted too.
    The cyclic garbage collector is off during the read, so that a dataset that is closed only
    because a reference cycle was collected counts as left open."""
    row = {"exc": None, "msg": None, "fields": None}
    kw = dict(kwargs or {})
    if external is not None:
        kw["external"] = list(external)
    gc.collect()
    gc.disable()
    try:
        try:
            fs = cfdm.read(path, warnings=False, **kw)
        except BaseException as e:  # noqa
            row["exc"] = type(e).__name__
            row["msg"] = str(e)[:300]
            import traceback
            tb = traceback.extract_tb(e.__traceback__)
            row["where"] = [f"{os.path.basename(fr.filename)}:{fr.name}" for fr in tb[-3:]]
            del e, tb
            row["open_fds"] = open_fds(path)
            row["external_fds"] = [open_fds(x) for x in (external or []) if os.path.exists(x)]
            return row
        row["open_after_read"] = open_fds(path)
        row["external_fds"] = [open_fds(x) for x in (external or []) if os.path.exists(x)]
    finally:
        gc.enable()
    try:
        row["fields"] = [field_obs(f, only is None or f.nc_get_variable(None) in only) for f in fs]
    except BaseException as e:  # noqa
        row["exc"] = "OBS:" + type(e).__name__
        row["msg"] = str(e)[:300]
    del fs
    row["open_fds"] = open_fds(path)
    return row


def raw_content(path):
    """What is in the file, seen through netCDF4-python only (variables of sub-groups under
    their absolute path)."""
    nc = netCDF4.Dataset(path)
    try:
        out = {"dims": [], "gattrs": {a: str(nc.getncattr(a)) for a in nc.ncattrs()}, "vars": [],
               "groups": bool(nc.groups)}

        def rec(g, prefix):
            for d, v in g.dimensions.items():
                out["dims"].append([prefix + d, len(v), bool(v.isunlimited())])
            for vn, v in g.variables.items():
                is_char = v.dtype == np.dtype("S1")
                is_str = v.dtype is str
                attrs = {}
                for a in v.ncattrs():
                    val = v.getncattr(a)
                    attrs[a] = val if isinstance(val, str) else None
                out["vars"].append({"name": prefix + vn, "dims": list(v.dimensions), "char": bool(is_char),
                                    "string": bool(is_str), "attrs": attrs,
                                    "all_attrs": list(v.ncattrs())})
            for gn, gg in g.groups.items():
                rec(gg, (prefix or "/") + gn + "/")

        rec(nc, "")
        return out
    finally:
        nc.close()


# ---- variations applied to a written example file (netCDF4-python) -------------
def apply_variant(nc, name, info):
    """Edit the open dataset `nc` in place.  `info["data"]` is the name of the data variable."""
    dv = nc.variables[info["data"]]
    ddims = dv.dimensions
    if name == "extra_measure":
        # a second cell measure spanning the last data dimension only
        v = nc.createVariable("cell_volume", "f8", ddims[-1:])
        v.units = "m3"
        v[...] = np.arange(np.prod(v.shape) or 1, dtype="f8").reshape(v.shape) + 1
        old = dv.getncattr("cell_measures") + " " if "cell_measures" in dv.ncattrs() else ""
        dv.setncattr("cell_measures", old + "volume: cell_volume")
    elif name == "extra_ancillary":
        v = nc.createVariable("quality_flag", "i4", ddims[:1])
        v.long_name = "quality"
        v[...] = np.arange(np.prod(v.shape) or 1, dtype="i4").reshape(v.shape)
        old = dv.getncattr("ancillary_variables") + " " if "ancillary_variables" in dv.ncattrs() else ""
        dv.setncattr("ancillary_variables", old + "quality_flag")
    elif name == "second_field":
        v = nc.createVariable("second_data", "f8", ddims)
        for a in dv.ncattrs():
            if a not in ("_FillValue", "standard_name"):
                v.setncattr(a, dv.getncattr(a))
        v.long_name = "second data variable"
        v[...] = np.asarray(dv[...], dtype="f8") + 1
    elif name == "extended_grid_mapping":
        gm = dv.getncattr("grid_mapping")
        coords = [d for d in ddims if d in nc.variables][-2:]
        dv.setncattr("grid_mapping", gm + ": " + " ".join(coords))
    elif name == "climatology":
        t = nc.variables["time"]
        b = t.getncattr("bounds")
        t.delncattr("bounds")
        t.setncattr("climatology", b)
        dv.setncattr("cell_methods", "time: mean within years time: maximum over years")
    elif name == "char_aux":
        n = len(nc.dimensions[ddims[0]])
        nc.createDimension("strlen4", 4)
        v = nc.createVariable("char_label", "S1", (ddims[0], "strlen4"))
        v.long_name = "char labels"
        v[...] = np.array([list(f"L{i:03d}") for i in range(n)], dtype="S1")
        old = dv.getncattr("coordinates") + " " if "coordinates" in dv.ncattrs() else ""
        dv.setncattr("coordinates", old + "char_label")
    elif name == "interval_methods":
        dv.setncattr("cell_methods", f"{ddims[0]}: mean (interval: 1 hour comment: sampled) "
                                     f"{ddims[-1]}: maximum (a free comment)")
    elif name == "external_measure":
        nc.setncattr("external_variables", "areacella")
        old = dv.getncattr("cell_measures") + " " if "cell_measures" in dv.ncattrs() else ""
        dv.setncattr("cell_measures", old + "area: areacella")
    elif name == "gathered":
        # a second data variable compressed by gathering over the last two data dimensions
        nc.createDimension("landpoint", 4)
        n = len(nc.dimensions[ddims[-2]]) * len(nc.dimensions[ddims[-1]])
        v = nc.createVariable("landpoint", "i4", ("landpoint",))
        v.compress = " ".join(ddims[-2:])
        v[...] = [1, n // 3, n // 2, n - 1]
        d = nc.createVariable("gq", "f8", ddims[:-2] + ("landpoint",))
        d.standard_name = "soil_temperature"
        d.units = "K"
        if "coordinates" in dv.ncattrs():
            d.coordinates = dv.getncattr("coordinates")
        d[...] = np.arange(np.prod(d.shape), dtype="f8").reshape(d.shape)
    elif name == "string_scalar":
        # two data variables sharing a string-valued scalar coordinate variable (a valid file)
        v = nc.createVariable("region", str, ())
        v[0] = "europe"
        v.long_name = "region"
        old = dv.getncattr("coordinates") + " " if "coordinates" in dv.ncattrs() else ""
        dv.setncattr("coordinates", old + "region")
        w = nc.createVariable("second_data", "f8", ddims)
        w.long_name = "second data variable"
        w.coordinates = dv.getncattr("coordinates")
        w[...] = np.asarray(dv[...], dtype="f8") + 1
    else:
        raise ValueError(name)


def make_ugrid(path):
    """A small UGRID file: two triangular faces, four nodes, five edges; a face and an edge data variable."""
    nc = netCDF4.Dataset(path, "w")
    try:
        nc.Conventions = "CF-1.11 UGRID-1.0"
        for d, n in (("nnode", 4), ("nface", 2), ("nedge", 5), ("three", 3), ("two", 2), ("time", 2)):
            nc.createDimension(d, n)
        m = nc.createVariable("mesh", "i4", ())
        m.cf_role = "mesh_topology"
        m.topology_dimension = 2
        m.node_coordinates = "node_x node_y"
        m.face_node_connectivity = "face_nodes"
        m.edge_node_connectivity = "edge_nodes"
        m.face_coordinates = "face_x face_y"
        for n, dim, vals, sn, u in (("node_x", "nnode", [0, 1, 1, 0], "longitude", "degrees_east"),
                                    ("node_y", "nnode", [0, 0, 1, 1], "latitude", "degrees_north"),
                                    ("face_x", "nface", [.7, .3], "longitude", "degrees_east"),
                                    ("face_y", "nface", [.3, .7], "latitude", "degrees_north")):
            v = nc.createVariable(n, "f8", (dim,))
            v[...] = vals
            v.standard_name = sn
            v.units = u
        v = nc.createVariable("face_nodes", "i4", ("nface", "three"))
        v.cf_role = "face_node_connectivity"
        v.start_index = 0
        v[...] = [[0, 1, 2], [0, 2, 3]]
        v = nc.createVariable("edge_nodes", "i4", ("nedge", "two"))
        v.cf_role = "edge_node_connectivity"
        v.start_index = 0
        v[...] = [[0, 1], [1, 2], [2, 0], [2, 3], [3, 0]]
        t = nc.createVariable("time", "f8", ("time",))
        t.units = "days since 2000-01-01"
        t.standard_name = "time"
        t[...] = [0, 1]
        d = nc.createVariable("ta", "f8", ("time", "nface"))
        d.standard_name = "air_temperature"
        d.units = "K"
        d.mesh = "mesh"
        d.location = "face"
        d.coordinates = "face_x face_y"
        d[...] = np.arange(4.).reshape(2, 2)
        d = nc.createVariable("ua", "f8", ("time", "nedge"))
        d.standard_name = "eastward_wind"
        d.units = "m s-1"
        d.mesh = "mesh"
        d.location = "edge"
        d[...] = np.arange(10.).reshape(2, 5)
    finally:
        nc.close()


def make_external(path, spec, parent):
    """An external file: variables spec["vars"] on the last two dimensions of the parent's data variable."""
    src = netCDF4.Dataset(parent)
    try:
        dv = src.variables[spec["data"]]
        dims = [(d, len(src.dimensions[d])) for d in dv.dimensions[-2:]]
    finally:
        src.close()
    if spec.get("baddims"):
        dims = [dims[0], ("zz_ext", 3)]
    nc = netCDF4.Dataset(path, "w")
    try:
        nc.Conventions = "CF-1.11"
        for d, n in dims:
            nc.createDimension(d, n)
        for nm in spec["vars"]:
            v = nc.createVariable(nm, "f8", tuple(d for d, _ in dims))
            v.units = "m2"
            v.standard_name = "cell_area"
            v[...] = np.ones(v.shape)
    finally:
        nc.close()


def add_foreign(nc):
    """Variables whose dimensions are foreign to every other variable."""
    nc.createDimension("zz_fdim", 3)
    nc.createDimension("zz_fdim2", 2)
    v = nc.createVariable("zz_foreign1", "f8", ("zz_fdim",))
    v.long_name = "foreign 1-d"
    v[...] = [1.0, 2.0, 3.0]
    v = nc.createVariable("zz_foreign2", "f8", ("zz_fdim", "zz_fdim2"))
    v.long_name = "foreign 2-d"
    v[...] = np.arange(6.0).reshape(3, 2)


def add_extra(nc, specs):
    """Further variables of a case: [{"name", "dims", "dtype": "f8" | "str" | "S1", "attrs": {...}}];
    dimensions that do not exist are created with size 3."""
    for sp in specs:
        for d in sp["dims"]:
            if d not in nc.dimensions:
                nc.createDimension(d, (sp.get("dim_sizes") or {}).get(d, 3))
        dt = {"f8": "f8", "S1": "S1", "str": str}[sp.get("dtype", "f8")]
        v = nc.createVariable(sp["name"], dt, tuple(sp["dims"]))
        for a, val in (sp.get("attrs") or {}).items():
            v.setncattr(a, val)
        shape = tuple(len(nc.dimensions[d]) for d in sp["dims"])
        n = int(np.prod(shape)) if shape else 1
        if dt is str:
            arr = np.array([f"s{i}" for i in range(n)], dtype=object).reshape(shape)
            if shape:
                v[...] = arr
            else:
                v[0] = "s0"
        elif dt == "S1":
            v[...] = np.array([b"a"] * n, dtype="S1").reshape(shape)
        elif shape:
            v[...] = (np.arange(n, dtype="f8") + 1).reshape(shape)
        else:
            v[...] = 1.0


def make_base(spec, scratch):
    os.makedirs(os.path.join(scratch, "bases"), exist_ok=True)
    path = os.path.join(scratch, "bases", spec["id"] + ".nc")
    if spec.get("ugrid"):
        make_ugrid(path)
        return path, "ta"
    f = cfdm.example_field(spec["example"])
    if spec.get("compress"):
        f = f.compress(spec["compress"])
    if spec.get("groups"):
        # the data variable two groups down, some of its constructs one group down
        f.nc_set_variable_groups(["forecast", "model"])
        for k in ("auxiliarycoordinate0", "cellmeasure0", "domainancillary2"):
            if f.construct(k, default=None) is not None:
                f.construct(k).nc_set_variable_groups(["forecast"])
    if spec.get("domain"):
        cfdm.write(f.domain, path)
        return path, "domain"
    cfdm.write(f, path)
    data_ncvar = f.nc_get_variable()
    if spec.get("groups"):
        data_ncvar = "/forecast/model/" + data_ncvar
    if spec.get("variants"):
        nc = netCDF4.Dataset(path, "a")
        try:
            for v in spec["variants"]:
                apply_variant(nc, v, {"data": data_ncvar})
        finally:
            nc.close()
    return path, data_ncvar


def run_fault_case(case, scratch, wdir):
    row = {"cid": case["cid"]}
    src = os.path.join(scratch, "bases", case["base"] + ".nc")
    # a fresh name for every faulted file: a read that raised may have left it open
    dst = os.path.join(wdir, f"{case['cid']}.nc")
    try:
        shutil.copyfile(src, dst)
        nc = netCDF4.Dataset(dst, "a")
        try:
            if case.get("foreign"):
                add_foreign(nc)
            if case.get("extra_vars"):
                add_extra(nc, case["extra_vars"])
            for var, attr, new in case["edits"]:
                tgt = nc if var is None else nc[var]
                if new is None:
                    if attr in tgt.ncattrs():
                        tgt.delncattr(attr)
                else:
                    tgt.setncattr(attr, new)
        finally:
            nc.close()
        if case.get("want_raw"):
            row["raw"] = raw_content(dst)
        external = None
        if case.get("external") is not None:
            external = []
            for k, sp in enumerate(case["external"]):
                xp = os.path.join(wdir, f"{case['cid']}_x{k}.nc")
                if not sp.get("missing"):
                    make_external(xp, sp, src)
                external.append(xp)
        row["read"] = read_obs(dst, case.get("base_fields"), kwargs=case.get("read_kwargs"), external=external)
        for xp in external or []:
            try:
                os.remove(xp)
            except OSError:
                pass
    except BaseException as e:  # noqa
        row["error"] = f"{type(e).__name__}: {e}"[:400]
    try:
        os.remove(dst)
    except OSError:
        pass
    return row


def main():
    payload = json.load(sys.stdin)
    scratch = payload["scratch"]
    cfdm.log_level("DISABLE")
    if payload["mode"] == "bases":
        for spec in payload["bases"]:
            row = {"id": spec["id"]}
            try:
                path, data_ncvar = make_base(spec, scratch)
                row["data_ncvar"] = data_ncvar
                row["raw"] = raw_content(path)
                row["read"] = read_obs(path, kwargs=spec.get("read_kwargs"))
            except BaseException as e:  # noqa
                row["error"] = f"{type(e).__name__}: {e}"[:400]
            print(json.dumps(row), flush=True)
        return
    if payload["mode"] == "faults":
        wdir = os.path.join(scratch, "faulted")
        os.makedirs(wdir, exist_ok=True)
        for case in payload["cases"]:
            # one forked child per case: the HDF5 library can bring the interpreter down, and a
            # read that raised leaves its dataset open, which must not touch later cases
            sys.stdout.flush()
            pid = os.fork()
            if pid == 0:
                code = 0
                try:
                    print(json.dumps(run_fault_case(case, scratch, wdir)), flush=True)
                except BaseException as e:  # noqa
                    print(json.dumps({"cid": case["cid"], "error": f"{type(e).__name__}: {e}"[:400]}), flush=True)
                    code = 3
                os._exit(code)
            _, status = os.waitpid(pid, 0)
            if os.WIFSIGNALED(status):
                print(json.dumps({"cid": case["cid"], "crash": os.WTERMSIG(status)}), flush=True)
        return
    raise SystemExit("unknown mode")


if __name__ == "__main__":
    main()
