"""Drive cfdm's UGRID reading for C15 (PYTHONPATH=/repo).

stdin: {"scratch": dir, "cases": [mesh spec, ...]};  one JSON line per case on stdout.

A mesh spec (all node / cell numbers zero-based; the encoder adds the start index):
  n_nodes, faces (list of node lists) or None, edges (list of pairs) or None,
  face_face (rows with None for a missing neighbour) or None,
  si: {"face","edge","ff"} start index of each connectivity variable,
  si_attr: False -> omit the start_index attribute (only meaningful for 0),
  tr: {"face","edge","ff"} True -> variable stored (node, cell),
  dim_attr: True -> write face_dimension / edge_dimension although not needed,
  face_edge / edge_face: optional extra connectivity arrays (rows with None),
  face_coords / edge_coords: True -> cell coordinate variables exist,
  dtype: integer type of the connectivity variables, pad: extra all-missing columns,
  coords: [xs, ys] integer-valued node coordinates, locs: data variable locations,
  sub: {location: list of cell positions} -> the topology constructs are also subspaced and normalised,
  raw: optional overrides applied to the encoded (one-based) arrays: malformed stream.
"""
import json
import os
import sys

import netCDF4
import numpy as np

import cfdm

ERR = {IndexError: "IndexErr", ValueError: "ValueErr", TypeError: "TypeErr", KeyError: "KeyErr"}


def errclass(e):
    for k, v in ERR.items():
        if isinstance(e, k):
            return v
    return "OtherErr:" + type(e).__name__


def ragged(rows, width, offset, dtype):
    a = np.ma.masked_all((len(rows), width), dtype=dtype)
    for i, r in enumerate(rows):
        for j, v in enumerate(r):
            if v is not None:
                a[i, j] = v + offset
    return a


def put_conn(nc, name, arr, celldim, otherdim, transposed, role, si, si_attr, dtype, fill):
    dims = (otherdim, celldim) if transposed else (celldim, otherdim)
    kw = {}
    if fill is not None:
        kw["fill_value"] = fill
    v = nc.createVariable(name, dtype, dims, **kw)
    v[...] = arr.T if transposed else arr
    v.cf_role = role
    if si_attr or si:
        v.start_index = np.array(si, dtype=dtype)[()]
    return v


def encode(fn, s):
    nc = netCDF4.Dataset(fn, "w", format="NETCDF4")
    nc.Conventions = "CF-1.11 UGRID-1.0"
    nn = s["n_nodes"]
    nc.createDimension("nNodes", nn)
    m = nc.createVariable("mesh", "i4", ())
    m.cf_role = "mesh_topology"
    m.long_name = "a mesh"
    faces, edges = s.get("faces"), s.get("edges")
    raw = s.get("raw") or {}
    m.topology_dimension = np.int32(raw.get("topdim", 2 if faces else 1))
    if not raw.get("drop_node_coords"):
        m.node_coordinates = "node_x node_y"
    xs, ys = s["coords"]
    x = nc.createVariable("node_x", "f8", ("nNodes",))
    x.standard_name = "longitude"
    x.units = "degrees_east"
    y = nc.createVariable("node_y", "f8", ("nNodes",))
    y.standard_name = "latitude"
    y.units = "degrees_north"
    x[:] = np.array(xs, dtype=float)
    y[:] = np.array(ys, dtype=float)
    dtype = s.get("dtype", "i4")
    fill = s.get("fill")
    pad = s.get("pad", 0)
    si, tr = s["si"], s["tr"]
    si_attr = s.get("si_attr", True)
    if faces:
        w = max([len(f) for f in faces] + [1]) + pad
        nc.createDimension("nFaces", len(faces))
        nc.createDimension("nMaxFaceNodes", w)
        arr = ragged(faces, w, si["face"], dtype)
        for (i, j, v) in raw.get("face", []):
            arr[i, j] = v
        put_conn(nc, "face_nodes", arr, "nFaces", "nMaxFaceNodes", tr["face"], "face_node_connectivity",
                 si["face"], si_attr, dtype, fill)
        if not raw.get("drop_face_var"):
            m.face_node_connectivity = "face_nodes"
        else:
            m.face_node_connectivity = "no_such_variable"
        if raw.get("face_dimension"):
            m.face_dimension = raw["face_dimension"]
        elif tr["face"] or tr.get("ff") or s.get("dim_attr"):
            m.face_dimension = "nFaces"
        ff = s.get("face_face")
        if ff is not None:
            w2 = max([len(r) for r in ff] + [1])
            nc.createDimension("nMaxFaceFaces", w2)
            arr = ragged(ff, w2, si["ff"], dtype)
            ffdim = "nFaces"
            if raw.get("ff_other_dim"):
                nc.createDimension("nOther", len(faces) + 2)
                ffdim = "nOther"
                arr = ragged(ff + [[], []], w2, si["ff"], dtype)
            put_conn(nc, "face_links", arr, ffdim, "nMaxFaceFaces", tr.get("ff", False),
                     "face_face_connectivity", si["ff"], si_attr, dtype, fill)
            m.face_face_connectivity = "face_links"
        fe = s.get("face_edge")
        if fe is not None and edges:
            w3 = max([len(r) for r in fe] + [1])
            nc.createDimension("nMaxFaceEdges", w3)
            arr = ragged(fe, w3, si["face"], dtype)
            put_conn(nc, "face_edges", arr, "nFaces", "nMaxFaceEdges", False, "face_edge_connectivity",
                     si["face"], si_attr, dtype, fill)
            m.face_edge_connectivity = "face_edges"
        if s.get("face_coords"):
            m.face_coordinates = "face_x face_y"
            for nm, std, un in (("face_x", "longitude", "degrees_east"), ("face_y", "latitude", "degrees_north")):
                v = nc.createVariable(nm, "f8", ("nFaces",))
                v.standard_name = std
                v.units = un
                v[:] = np.arange(len(faces), dtype=float) + (500 if nm == "face_x" else 700)
    if edges:
        nc.createDimension("nEdges", len(edges))
        nc.createDimension("Two", 2)
        arr = ragged(edges, 2, si["edge"], dtype)
        for (i, j, v) in raw.get("edge", []):
            arr[i, j] = v
        put_conn(nc, "edge_nodes", arr, "nEdges", "Two", tr["edge"], "edge_node_connectivity",
                 si["edge"], si_attr, dtype, None)
        m.edge_node_connectivity = "edge_nodes"
        if tr["edge"] or s.get("dim_attr"):
            m.edge_dimension = "nEdges"
        ef = s.get("edge_face")
        if ef is not None and faces:
            arr = ragged(ef, 2, si["edge"], dtype)
            put_conn(nc, "edge_faces", arr, "nEdges", "Two", False, "edge_face_connectivity",
                     si["edge"], si_attr, dtype, fill)
            m.edge_face_connectivity = "edge_faces"
        if s.get("edge_coords"):
            m.edge_coordinates = "edge_x" if raw.get("edge_coord_one") else "edge_x edge_y"
            for nm, std, un in (("edge_x", "longitude", "degrees_east"), ("edge_y", "latitude", "degrees_north")):
                v = nc.createVariable(nm, "f8", ("nEdges",))
                v.standard_name = std
                v.units = un
                v[:] = np.arange(len(edges), dtype=float) + (900 if nm == "edge_x" else 1100)
    dims = {"node": "nNodes", "edge": "nEdges", "face": "nFaces"}
    for loc in s.get("locs", ["node", "edge", "face"]):
        if dims[loc] not in nc.dimensions:
            continue
        d = nc.createVariable("data_" + loc, "f8", (dims[loc],))
        d.standard_name = "air_temperature"
        d.units = "K"
        d.mesh = "mesh"
        d.location = raw.get("location_attr", loc)
        d[:] = np.arange(len(nc.dimensions[dims[loc]]), dtype=float)
    if s.get("mesh2"):
        # a second mesh topology variable with its own node coordinates that shares the
        # connectivity variables of the first
        m2 = nc.createVariable("mesh2", "i4", ())
        for k in m.ncattrs():
            m2.setncattr(k, m.getncattr(k))
        m2.long_name = "a second mesh"
        m2.node_coordinates = "node_x2 node_y2"
        for nm, std, un, cs in (("node_x2", "longitude", "degrees_east", xs), ("node_y2", "latitude", "degrees_north", ys)):
            v = nc.createVariable(nm, "f8", ("nNodes",))
            v.standard_name = std
            v.units = un
            v[:] = np.array(cs, dtype=float) + 1000
        for loc in s.get("locs", ["node", "edge", "face"]):
            if dims[loc] not in nc.dimensions:
                continue
            d = nc.createVariable("data2_" + loc, "f8", (dims[loc],))
            d.standard_name = "air_pressure"
            d.units = "Pa"
            d.mesh = "mesh2"
            d.location = loc
            d[:] = np.arange(len(nc.dimensions[dims[loc]]), dtype=float)
    nc.close()


def obs_array(fetch):
    """fetch: a thunk returning a numpy array; -> {"rows": ..., "dtype": ...} or {"err": ...}"""
    try:
        a = fetch()
    except Exception as ex:
        return {"err": errclass(ex), "msg": str(ex)[:160]}
    a = np.ma.asanyarray(a)
    mask = np.ma.getmaskarray(a)

    def val(v, mk):
        if mk:
            return None
        v = float(v)
        return int(v) if v.is_integer() else v

    if a.ndim == 1:
        rows = [val(v, mk) for v, mk in zip(a.data.tolist(), mask.tolist())]
    else:
        rows = [[val(v, mk) for v, mk in zip(r, mr)] for r, mr in zip(a.data.tolist(), mask.tolist())]
    out = {"shape": list(a.shape), "rows": rows, "dtype": a.dtype.kind}
    # overwrite what was returned, data and mask: internal state aliased by the returned
    # array shows up in every later observation
    try:
        if a.size:
            np.ma.getdata(a)[...] = 77
            if isinstance(a, np.ma.MaskedArray) and a.mask is not np.ma.nomask:
                a.mask[...] = False
    except Exception:
        pass
    return out


def norm_obs(x):
    """The normalisations of a topology construct (whole or subspaced)."""
    e = {"array": obs_array(lambda: x.array)}
    e["norm0"] = obs_array(lambda: x.normalise().array)
    e["norm0b"] = obs_array(lambda: x.normalise().normalise().array)
    e["norm1"] = obs_array(lambda: x.normalise(start_index=1, remove_empty_columns=True).array)
    e["norm1b"] = obs_array(lambda: x.normalise(start_index=1, remove_empty_columns=True)
                            .normalise(start_index=1, remove_empty_columns=True).array)
    return e


def sub_obs(x, idx):
    if not idx:
        return None
    try:
        y = x[idx]
    except Exception as ex:
        return {"sub_err": errclass(ex), "msg": str(ex)[:160]}
    return norm_obs(y)


def observe(c, sub=None):
    """c: a field or domain construct -> what the property speaks about."""
    out = {}
    axes = c.domain_axes(todict=True)
    out["axis_sizes"] = sorted(a.get_size() for a in axes.values())
    dt = c.domain_topology(default=None)
    if dt is not None:
        e = {"cell": dt.get_cell(None), "array": obs_array(lambda: dt.array)}
        e["has_start_index"] = dt.has_property("start_index")
        e["rows"] = int(dt.shape[0])
        e["norm0"] = obs_array(lambda: dt.normalise().array)
        e["norm0b"] = obs_array(lambda: dt.normalise().normalise().array)
        e["norm1"] = obs_array(lambda: dt.normalise(start_index=1, remove_empty_columns=True).array)
        e["norm1b"] = obs_array(lambda: dt.normalise(start_index=1, remove_empty_columns=True)
                                .normalise(start_index=1, remove_empty_columns=True).array)
        e["again"] = obs_array(lambda: dt.array)
        e["sub"] = sub_obs(dt, sub)
        out["dt"] = e
    ccs = []
    for k, cc in sorted(c.cell_connectivities(todict=True).items()):
        e = {"connectivity": cc.get_connectivity(None), "array": obs_array(lambda: cc.array), "rows": int(cc.shape[0])}
        e["norm0"] = obs_array(lambda: cc.normalise().array)
        e["norm0b"] = obs_array(lambda: cc.normalise().normalise().array)
        e["norm1"] = obs_array(lambda: cc.normalise(start_index=1).array)
        e["norm1rm"] = obs_array(lambda: cc.normalise(start_index=1, remove_empty_columns=True).array)
        e["sub"] = sub_obs(cc, sub)
        ccs.append(e)
    out["cc"] = ccs
    auxs = []
    for k, a in sorted(c.auxiliary_coordinates(todict=True).items()):
        e = {"name": a.get_property("standard_name", None), "ncvar": a.nc_get_variable(None)}
        if a.has_data():
            e["data"] = obs_array(lambda: a.array)
        if a.has_bounds():
            e["bounds"] = obs_array(lambda: a.bounds.array)
            e["bounds_rows"] = int(a.bounds.shape[0])
        auxs.append(e)
    out["aux"] = auxs
    return out


def brief_obs(c):
    """Arrays only: domain topology, cell connectivities, bounds of the auxiliary coordinates."""
    out = {"axis_sizes": sorted(a.get_size() for a in c.domain_axes(todict=True).values())}
    dt = c.domain_topology(default=None)
    if dt is not None:
        out["dt"] = obs_array(lambda: dt.array)
    out["cc"] = [obs_array(lambda: cc.array) for k, cc in sorted(c.cell_connectivities(todict=True).items())]
    out["bounds"] = {}
    for k, a in sorted(c.auxiliary_coordinates(todict=True).items()):
        if a.has_bounds():
            out["bounds"][a.get_property("standard_name", "?")] = obs_array(lambda: a.bounds.array)
    out["data"] = obs_array(lambda: c.array) if hasattr(c, "array") and c.has_data() else None
    return out


def field_ops(f, idx):
    """A copy (observed after the original has been observed and overwritten) and a
    subspace of the whole field along the cell axis."""
    out = {}
    try:
        out["copy"] = brief_obs(f.copy())
    except Exception as ex:
        out["copy"] = {"err": errclass(ex), "msg": str(ex)[:160]}
    if idx:
        try:
            g = f[idx]
            out["fsub"] = brief_obs(g)
            out["fsub_again"] = brief_obs(g)
        except Exception as ex:
            out["fsub"] = {"err": errclass(ex), "msg": str(ex)[:160]}
    return out


def do_case(s, fn):
    row = {"i": s["i"]}
    try:
        encode(fn, s)
    except Exception as ex:
        row["harness_err"] = "encode: " + type(ex).__name__ + ": " + str(ex)[:300]
        return row
    for mode in ("field", "domain"):
        res = {}
        try:
            cs = cfdm.read(fn, domain=(mode == "domain"))
        except Exception as ex:
            row[mode] = {"read_err": errclass(ex), "msg": str(ex)[:200]}
            continue
        for c in cs:
            if mode == "field":
                name = c.nc_get_variable("?")
                loc = name[5:] if name.startswith("data_") else ("2:" + name[6:] if name.startswith("data2_") else name)
            else:
                dt = c.domain_topology(default=None)
                cell = dt.get_cell(None) if dt is not None else None
                loc = {"point": "node", "edge": "edge", "face": "face"}.get(cell, "none")
            try:
                o = observe(c, (s.get("sub") or {}).get(loc) if mode == "field" else None)
                if mode == "field" and not loc.startswith("2:"):
                    o["ops"] = field_ops(c, (s.get("sub") or {}).get(loc))
            except Exception as ex:
                o = {"observe_err": errclass(ex), "msg": str(ex)[:200]}
            if loc in res:
                loc = loc + "#dup"
            res[loc] = o
        row[mode] = res
    return row


def main():
    p = json.load(sys.stdin)
    scratch = p.get("scratch", "/tmp")
    for n, s in enumerate(p["cases"]):
        fn = os.path.join(scratch, f"c15_{os.getpid()}_{n}.nc")
        row = do_case(s, fn)
        try:
            os.remove(fn)
        except OSError:
            pass
        print(json.dumps(row), flush=True)


main()
