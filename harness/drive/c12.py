"""Drive cfdm's lazy file arrays for C12 (PYTHONPATH=<repo under test>).

stdin: {"mode": "ops" | "read" | "fieldops", "scratch": dir, ...}; JSON lines on stdout.

The file-array classes are wrapped from here (nothing in the repository is
touched): every call of NetCDF4Array / H5netcdfArray .__getitem__, .open and
.close is logged, and /proc/self/fd is inspected after every operation.
"""
import hashlib
import json
import os
import sys

import numpy as np

import cfdm
import netCDF4

ERR = [(IndexError, "IndexErr"), (FileNotFoundError, "OtherErr"), (ValueError, "ValueErr"),
       (TypeError, "TypeErr"), (KeyError, "KeyErr")]


def errclass(e):
    for k, v in ERR:
        if isinstance(e, k):
            return v
    return "OtherErr"


# ------------------------------------------------------------------ instrumentation
LOG = []


def _idx_json(idx):
    if idx is Ellipsis:
        return "..."
    if not isinstance(idx, tuple):
        idx = (idx,)
    out = []
    for i in idx:
        if i is Ellipsis:
            out.append("...")
        elif isinstance(i, slice):
            out.append(["slice"] + [None if x is None else int(x) for x in (i.start, i.stop, i.step)])
        elif isinstance(i, (int, np.integer)):
            out.append(["int", int(i)])
        else:
            a = np.asanyarray(i)
            if a.dtype == bool:
                out.append(["list", [int(x) for x in np.nonzero(a)[0]]])
            else:
                out.append(["list", [int(x) for x in a.ravel().tolist()]])
    return out


class VarProxy:
    """Stands in for the netCDF4 / h5netcdf variable inside cfdm's indexer: forwards
    everything, logs how many elements each read of the file variable returned."""

    def __init__(self, v):
        object.__setattr__(self, "_v", v)

    def __getattr__(self, name):
        return getattr(object.__getattribute__(self, "_v"), name)

    def __getitem__(self, idx):
        r = object.__getattribute__(self, "_v")[idx]
        LOG.append({"e": "raw", "size": int(np.size(r))})
        return r

    def __len__(self):
        return len(object.__getattribute__(self, "_v"))


def instrument():
    try:
        from cfdm.data import netcdfindexer
        og_init = netcdfindexer.netcdf_indexer.__init__

        def init(self, variable, *a, **k):
            if not isinstance(variable, np.ndarray):
                variable = VarProxy(variable)
            og_init(self, variable, *a, **k)

        netcdfindexer.netcdf_indexer.__init__ = init
    except Exception:      # the indexer moved: raw reads are then simply not observed
        pass
    for cls in (cfdm.NetCDF4Array, cfdm.H5netcdfArray):
        def mk(cls):
            og, oo, oc = cls.__getitem__, cls.open, cls.close

            def getitem(self, idx):
                LOG.append({"e": "get", "cls": cls.__name__, "var": self.get_address(None),
                            "file": self.get_filename(None), "shape": list(self.shape), "idx": _idx_json(idx)})
                try:
                    r = og(self, idx)
                except BaseException as ex:
                    LOG.append({"e": "raise", "err": errclass(ex)})
                    raise
                LOG.append({"e": "ret", "shape": list(np.shape(r)), "size": int(np.size(r))})
                return r

            def open_(self, *a, **k):
                r = oo(self, *a, **k)
                LOG.append({"e": "open"})
                return r

            def close(self, dataset):
                r = oc(self, dataset)
                LOG.append({"e": "close"})
                return r

            cls.__getitem__ = getitem
            cls.open = open_
            cls.close = close
        mk(cls)


def open_nc(scratch):
    """Paths of regular files under the scratch directory that this process holds open."""
    out = []
    for fd in os.listdir("/proc/self/fd"):
        try:
            p = os.readlink("/proc/self/fd/" + fd)
        except OSError:
            continue
        if p.startswith(scratch) and not p.endswith(".json"):
            out.append(os.path.basename(p))
    return sorted(out)


def take_log():
    out = list(LOG)
    del LOG[:]
    return out


# ------------------------------------------------------------------ observations
def obs_array(a):
    a = np.ma.asanyarray(a)
    mask = np.ma.getmaskarray(a)
    flat = []
    for v, m in zip(a.data.ravel().tolist(), mask.ravel().tolist()):
        if m:
            flat.append(None)
        elif isinstance(v, (int, bool)) or (isinstance(v, float) and float(v).is_integer() and abs(v) < 2 ** 52):
            flat.append(int(v))
        else:
            flat.append(repr(v))
    return {"shape": list(a.shape), "flat": flat, "dtype": str(a.dtype)}


def fp_array(a):
    a = np.ma.asanyarray(a)
    mask = np.ma.getmaskarray(a)
    if a.dtype.kind in "iufb":
        vals = np.ascontiguousarray(np.where(mask, 0, a.data)).tobytes()
    else:
        # strings: the values themselves, not the padded buffer (whose width is that of the longest string)
        vals = json.dumps(np.where(mask, "", a.data.astype("U")).ravel().tolist()).encode()
    h = hashlib.sha1(vals + np.ascontiguousarray(mask).tobytes()).hexdigest()[:16]
    kind = str(a.dtype) if a.dtype.kind in "iufb" else a.dtype.kind
    return [kind, list(a.shape), int(mask.sum()), h]


def fp_values(a):
    """Shape, number of missing values and a hash of the VALUES (as float64), whatever the data type."""
    a = np.ma.asanyarray(a)
    mask = np.ma.getmaskarray(a)
    vals = np.ascontiguousarray(np.where(mask, 0, a.data).astype("f8")).tobytes()
    return [list(a.shape), int(mask.sum()), hashlib.sha1(vals + np.ascontiguousarray(mask).tobytes()).hexdigest()[:16]]


def fp_props(x):
    out = {}
    for k, v in sorted(x.properties().items()):
        if isinstance(v, np.ndarray):
            v = v.tolist()
        out[k] = repr(v)
    return out


def fp_data_of(x):
    if x is None or not x.has_data():
        return None
    return fp_array(x.data.array)


def fp_construct(c):
    e = {"type": c.construct_type, "ncvar": c.nc_get_variable(None) if hasattr(c, "nc_get_variable") else None}
    if hasattr(c, "properties"):
        e["props"] = fp_props(c)
    if hasattr(c, "has_data"):
        e["data"] = fp_data_of(c)
    if hasattr(c, "has_bounds") and c.has_bounds():
        e["bounds"] = fp_data_of(c.bounds)
        e["bounds_props"] = fp_props(c.bounds)
    if hasattr(c, "get_interior_ring"):
        ir = c.get_interior_ring(None)
        if ir is not None:
            e["ring"] = fp_data_of(ir)
    if hasattr(c, "get_geometry"):
        e["geometry"] = c.get_geometry(None)
    if hasattr(c, "get_climatology"):
        e["clim"] = c.get_climatology(None) if hasattr(c, "get_climatology") else None
    if c.construct_type in ("cell_method", "coordinate_reference", "domain_axis"):
        e["str"] = str(c)
    if c.construct_type == "coordinate_reference":
        e["dump"] = c.dump(display=False)
    return e


def fp_field(f):
    cons = [fp_construct(c) for c in f.constructs.values()]
    cons.sort(key=lambda e: json.dumps(e, sort_keys=True, default=str))
    return {"props": fp_props(f), "ncvar": f.nc_get_variable(None), "data": fp_data_of(f),
            "constructs": cons}


def data_objects(f):
    """Every Data object of a field: (label, netCDF variable name, Data)."""
    out = []
    if f.has_data():
        out.append(("field", f.nc_get_variable(None), f.data))
    for k, c in sorted(f.constructs.filter_by_data(todict=True).items()):
        if c.has_data():
            out.append((c.construct_type, c.nc_get_variable(None), c.data))
        if hasattr(c, "has_bounds") and c.has_bounds() and c.bounds.has_data():
            out.append((c.construct_type + ".bounds", c.bounds.nc_get_variable(None), c.bounds.data))
        if hasattr(c, "get_interior_ring"):
            ir = c.get_interior_ring(None)
            if ir is not None and ir.has_data():
                out.append((c.construct_type + ".ring", ir.nc_get_variable(None), ir.data))
    for k, c in sorted(f.constructs.filter_by_type("auxiliary_coordinate", "dimension_coordinate",
                                                   "domain_ancillary", todict=True).items()):
        if not c.has_data() and c.has_bounds() and c.bounds.has_data():
            out.append((c.construct_type + ".bounds", c.bounds.nc_get_variable(None), c.bounds.data))
    return out


def where_is(d):
    """'mem' | 'disk' | 'compressed-disk' | 'compressed-mem' | 'mixed'."""
    src = d.source(None)
    if src is None:
        return "none"
    name = type(src).__name__
    if name in ("NetCDF4Array", "H5netcdfArray"):
        return "disk:" + name
    comp = d.get_compression_type()
    if comp:
        inner = src
        for _ in range(4):
            nxt = inner.source(None) if hasattr(inner, "source") else None
            if nxt is None:
                break
            inner = nxt
        iname = type(inner).__name__ if inner is not None else "?"
        fns = d.get_filenames()
        return ("compressed-disk:" if fns else "compressed-mem:") + iname
    return "mem:" + name


# ------------------------------------------------------------------ files
FILLS = {"i1": -99, "u1": 250, "u2": 60000, "u4": 60000, "u8": 60000}


def fill_of(dtype):
    return FILLS.get(dtype, -999)


def write_int_file(path, spec):
    """spec: {"vars": [{"name", "shape", "flat", "group": None | "g1/g2", "dtype": "i8",
    "pack": {"unsigned": bool, "scale": [tag, value] | None, "offset": [tag, value] | None} | None}]}:
    variables of any numeric type holding the given STORED values (None = the fill value), with the
    packing attributes."""
    nc = netCDF4.Dataset(path, "w", format="NETCDF4")
    nc.Conventions = "CF-1.11"
    ndim = 0
    for v in spec["vars"]:
        grp = nc
        if v.get("group"):
            for g in v["group"].split("/"):
                grp = grp.groups[g] if g in grp.groups else grp.createGroup(g)
        dims = []
        for s in v["shape"]:
            name = f"d{ndim}"
            ndim += 1
            grp.createDimension(name, s)
            dims.append(name)
        dt = v.get("dtype", "i8")
        fill = fill_of(dt)
        var = grp.createVariable(v["name"], dt, tuple(dims), fill_value=fill)
        var.set_auto_maskandscale(False)
        var.long_name = "variable " + v["name"]
        pack = v.get("pack") or {}
        if pack.get("unsigned"):
            var.setncattr("_Unsigned", "true")
        if pack.get("scale"):
            var.setncattr("scale_factor", np.array(pack["scale"][1], dtype=pack["scale"][0]))
        if pack.get("offset"):
            var.setncattr("add_offset", np.array(pack["offset"][1], dtype=pack["offset"][0]))
        arr = np.array([fill if x is None else x for x in v["flat"]], dtype=dt).reshape(v["shape"])
        var[...] = arr
    nc.close()


def mk_index(idx):
    out = []
    for i in idx:
        k = i[0]
        if k == "int":
            out.append(int(i[1]))
        elif k == "slice":
            out.append(slice(i[1], i[2], i[3]))
        elif k == "list":
            out.append(list(i[1]))
        elif k == "bool":
            out.append(np.array(i[1], dtype=bool))
        elif k == "ellipsis":
            out.append(Ellipsis)
    return tuple(out)


def optkey(o):
    o = o or {}
    return ("m" if o.get("mask", True) else "-") + ("u" if o.get("unpack", True) else "-")


def optkw(o):
    o = o or {}
    return {"mask": bool(o.get("mask", True)), "unpack": bool(o.get("unpack", True))}


def flags_of(d):
    """(mask, unpack) components of the file array(s) under a Data object, or None."""
    src = d.source(None)
    for _ in range(4):
        if src is None or hasattr(src, "get_unpack"):
            break
        src = src.source(None) if hasattr(src, "source") else None
    if src is None or not hasattr(src, "get_unpack"):
        return None
    return [bool(src.get_mask()), bool(src.get_unpack())]


def raw_array(v, key="mu"):
    """The array eager access sees under the read options `key` (the reference worked out for
    props/c12.py by mode "unpack"): the values and their data type."""
    e = (v.get("exp") or {}).get(key)
    flat = e["flat"] if e else v.get("exp_flat", v["flat"])
    dt = np.dtype(e["dtype"] if e else v.get("exp_dtype", "i8"))
    vals = np.array([0 if x is None else x for x in flat], dtype=dt).reshape(v["shape"])
    mask = np.array([x is None for x in flat], dtype=bool).reshape(v["shape"])
    if mask.any():
        return np.ma.array(vals, mask=mask)
    return vals


# ------------------------------------------------------------------ mode: ops
def apply_op(heap, op):
    """One operation on a heap of Data objects; returns the observation."""
    k = op[0]
    if k == "copy":
        heap.append(heap[op[1]].copy())
        return {"none": True}
    if k == "sub":
        e = heap[op[1]][mk_index(op[2])]
        heap.append(e)
        return {"none": True}
    if k == "tomem":
        heap[op[1]].to_memory(inplace=True)
        return {"none": True}
    if k == "arr":
        a = heap[op[1]].array
        o = {"arr": obs_array(a)}
        # overwrite what was returned: were it a view of the object's own array (or of anything a
        # later fetch reuses), later results would show it
        try:
            if np.ma.isMA(a):
                a.mask = False
            a[...] = 77
        except (ValueError, TypeError):
            pass
        return o
    if k == "set":
        v = cfdm.masked if op[3] is None else int(op[3])
        heap[op[1]][mk_index(op[2])] = v
        return {"none": True}
    if k == "first":
        x = heap[op[1]].first_element()
        if x is np.ma.masked:
            return {"arr": {"shape": [], "flat": [None], "dtype": "float64"}}
        if isinstance(x, (float, np.floating)):
            if not float(x).is_integer():
                return {"arr": {"shape": [], "flat": [repr(x)], "dtype": "float64"}}
            return {"arr": {"shape": [], "flat": [int(x)], "dtype": "float64"}}
        return {"arr": {"shape": [], "flat": [int(x)], "dtype": "int64"}}
    if k == "eq":
        # (the fill value of a Data object is not the subject: variables of different stored types
        #  are written with different _FillValues)
        return {"bool": bool(heap[op[1]].equals(heap[op[2]], ignore_fill_value=True))}
    raise RuntimeError("unknown op " + str(op))


def do_ops(p):
    scratch = p["scratch"]
    instrument()
    paths = {}
    files = {int(k): v for k, v in p["files"].items()} if isinstance(p["files"], dict) else dict(enumerate(p["files"]))
    for k, spec in files.items():
        path = os.path.join(scratch, f"c12_{os.getpid()}_{k}.nc")
        write_int_file(path, spec)
        paths[k] = path
    cache = {}
    for c in p["cases"]:
        row = {"i": c["i"]}
        try:
            spec = files[c["file"]]
            ok_ = optkey(c.get("opts"))
            key = (c["file"], c["backend"], ok_)
            if key not in cache:
                fields = cfdm.read(paths[c["file"]], netcdf_backend=c["backend"], **optkw(c.get("opts")))
                cache[key] = {f.nc_get_variable(): f for f in fields}
                row["read_log"] = [e for e in take_log() if e["e"] == "get"]
                row["read_open"] = open_nc(scratch)
            fields = cache[key]
            byname = {("/" + v["group"] + "/" if v.get("group") else "") + v["name"]: v for v in spec["vars"]}
            heap, eager = [], []
            for hcell in c["heap"]:
                if "missing" in hcell:
                    cls = cfdm.H5netcdfArray if c["backend"] == "h5netcdf" else cfdm.NetCDF4Array
                    fa = cls(filename=os.path.join(scratch, "c12_no_such_file.nc"), address="v",
                             dtype=np.dtype("i8"), shape=tuple(hcell["shape"]))
                    heap.append(cfdm.Data(fa, fill_value=-999))
                    eager.append(None)
                else:
                    f = fields[hcell["var"]]
                    heap.append(f.data.copy())
                    v = byname[hcell["var"]]
                    eager.append(cfdm.Data(raw_array(v, ok_), fill_value=fill_of(v.get("dtype", "i8"))))
            row["start"] = [where_is(d) for d in heap]
            row["classes"] = sorted(set(type(d.source()).__name__ for d in heap))
            take_log()
            # Data.dtype while the data are on disk (asking for it must not fetch anything)
            row["start_flags"] = [flags_of(d) for d in heap]
            row["start_dtype"] = [str(d.dtype) for d in heap]
            row["dtype_log"] = [e for e in take_log() if e["e"] == "get"]
            steps = []
            has_missing = any(e is None for e in eager)
            for op in c["ops"]:
                st = {}
                try:
                    st["obs"] = apply_op(heap, op)
                except Exception as ex:
                    st["obs"] = {"err": errclass(ex), "msg": (type(ex).__name__ + ": " + str(ex))[:160]}
                    # while the exception (and its traceback) is alive
                    st["open_in_handler"] = open_nc(scratch)
                st["log"] = take_log()
                st["open"] = open_nc(scratch)
                if not has_missing:
                    try:
                        st["eager"] = apply_op(eager, op)
                    except Exception as ex:
                        st["eager"] = {"err": errclass(ex)}
                    take_log()
                steps.append(st)
            row["steps"] = steps
            row["final"] = [where_is(d) for d in heap]
            row["final_flags"] = [flags_of(d) for d in heap]
        except Exception as ex:
            import traceback
            row["harness_err"] = type(ex).__name__ + ": " + str(ex)[:300] + " | " + traceback.format_exc()[-600:]
        print(json.dumps(row), flush=True)


# ------------------------------------------------------------------ mode: read
def build_file(spec, path):
    """Create the dataset of a read case; returns the field written (or None)."""
    kind = spec["kind"]
    if kind == "example":
        f = cfdm.example_field(spec["n"])
        if spec.get("compress"):
            f.compress(spec["compress"], inplace=True)
        kw = {}
        if spec.get("group"):
            f.nc_set_variable_groups(spec["group"])
            if spec.get("group_all"):
                for c in f.constructs.filter_by_data(todict=True).values():
                    c.nc_set_variable_groups(spec["group"])
        cfdm.write(f, path, fmt="NETCDF4", **kw)
        return f
    if kind == "hand":
        write_hand(spec, path)
        return None
    raise RuntimeError(kind)


def write_hand(spec, path):
    """A generic hand encoder: dims {name: size}, vars [{name, dims, dtype, values, attrs, group}]."""
    nc = netCDF4.Dataset(path, "w", format="NETCDF4")
    for k, v in spec.get("gattrs", {}).items():
        setattr(nc, k, v)
    for name, size in spec["dims"].items():
        nc.createDimension(name, size)
    for v in spec["vars"]:
        grp = nc
        if v.get("group"):
            for g in v["group"].split("/"):
                grp = grp.groups[g] if g in grp.groups else grp.createGroup(g)
        dt = v["dtype"]
        kw = {}
        attrs = dict(v.get("attrs", {}))
        if "_FillValue" in attrs:
            kw["fill_value"] = attrs.pop("_FillValue")
        if dt == "str":
            var = grp.createVariable(v["name"], str, tuple(v["dims"]))
            vals = np.array(v["values"], dtype=object).reshape([spec["dims"][d] for d in v["dims"]])
            for ix in np.ndindex(vals.shape):
                var[ix] = vals[ix]
        elif dt == "char":
            var = grp.createVariable(v["name"], "S1", tuple(v["dims"]))
            strlen = spec["dims"][v["dims"][-1]]
            chars = np.array([[ch.encode() for ch in s.ljust(strlen, "\0")[:strlen]] for s in v["values"]], dtype="S1")
            var[...] = chars.reshape([spec["dims"][d] for d in v["dims"]])
        else:
            var = grp.createVariable(v["name"], dt, tuple(v["dims"]), **kw)
            var.set_auto_maskandscale(False)
            shape = [spec["dims"][d] for d in v["dims"]]
            var[...] = np.array(v["values"], dtype=dt).reshape(shape)
        for k, a in attrs.items():
            if isinstance(a, list):
                a = np.array(a, dtype=dt if dt not in ("str", "char") else None)
            elif isinstance(a, dict):
                a = np.array(a["v"], dtype=a["dtype"])
            var.setncattr(k, a)
    nc.close()


def raw_roles(path):
    """Roles of the netCDF variables, derived from the raw attributes with netCDF4-python."""
    nc = netCDF4.Dataset(path, "r")
    out = {}

    def walk(g, prefix):
        for name, var in g.variables.items():
            out[prefix + name] = {"shape": list(var.shape), "attrs": {a: var.getncattr(a) for a in var.ncattrs()},
                                  "dtype": str(var.dtype), "dims": list(var.dimensions)}
        for gn, gg in g.groups.items():
            walk(gg, prefix + gn + "/")

    walk(nc, "")
    nc.close()
    base = {k.split("/")[-1]: k for k in out}
    role = {k: None for k in out}

    def names(s):
        return [base[t] for t in str(s).replace(":", " ").split() if t in base]

    for k, v in out.items():
        a = v["attrs"]
        if "sample_dimension" in a:
            role[k] = "RCount"
        if "instance_dimension" in a:
            role[k] = "RIndex"
        if "compress" in a:
            role[k] = "RList"
    for k, v in out.items():
        a = v["attrs"]
        for att, r in (("node_count", "RNodeCount"), ("part_node_count", "RPartNodeCount")):
            if att in a:
                for n in names(a[att]):
                    role[n] = r
        for att in ("bounds", "climatology", "node_coordinates", "interior_ring"):
            if att in a:
                for n in names(a[att]):
                    if role[n] is None:
                        role[n] = "RBounds"
                        if att == "node_coordinates" and "part_node_count" not in a:
                            role[n] = "RNodeCoord"
    referenced = set()
    for k, v in out.items():
        a = v["attrs"]
        for att in ("coordinates", "ancillary_variables", "cell_measures", "formula_terms", "grid_mapping",
                    "geometry", "external_variables"):
            if att in a:
                for n in names(a[att]):
                    referenced.add(n)
                    if att == "coordinates" and role[n] is None and len(out[n]["shape"]) == 0:
                        role[n] = "RScalarCoord"
                    if att == "coordinates" and role[n] is None and out[n]["dtype"] == "|S1" \
                            and len(out[n]["shape"]) == 1:
                        role[n] = "RScalarCoord"   # a rank-0 string held as a char array
    for k, v in out.items():
        if role[k] is None:
            dims = v["dims"]
            if len(dims) == 1 and dims[0] == k.split("/")[-1]:
                role[k] = "RCoord"
            elif k in referenced:
                role[k] = "RCoord"
            else:
                role[k] = "RData"
    def attr_desc(a, name):
        if name not in a:
            return None
        x = np.asarray(a[name])
        if x.dtype.kind not in "iuf" or x.ndim > 1 or x.size < 1:
            return "other"
        x = x.ravel()[0]
        return [x.dtype.str[1:], float(x)]

    res = {}
    for k in out:
        a = out[k]["attrs"]
        try:
            tag = np.dtype(out[k]["dtype"]).str[1:]
        except TypeError:
            tag = None
        res[k] = {"shape": out[k]["shape"], "role": role[k], "dtype": out[k]["dtype"], "tag": tag,
                  "pack": {"unsigned": str(a.get("_Unsigned")) in ("true", "True"),
                           "scale": attr_desc(a, "scale_factor"), "offset": attr_desc(a, "add_offset")}}
    return res


def raw_values(path):
    """Every numeric variable read eagerly with netCDF4-python (its own masking and scaling)."""
    nc = netCDF4.Dataset(path, "r")
    out = {}

    def walk(g, prefix):
        for name, var in g.variables.items():
            if var.dtype is str or var.dtype.kind not in "iuf":
                continue
            try:
                a = var[...]
                out[prefix + name] = fp_array(a) + [fp_values(a)]
            except Exception:
                pass
        for gn, gg in g.groups.items():
            walk(gg, prefix + gn + "/")

    walk(nc, "")
    nc.close()
    return out


def eager_reference(path, m, u):
    """Every non-string variable of the dataset, read raw with netCDF4-python (no masking, no scaling) into
    memory and then presented by netcdf_indexer(mask=, unpack=) applied to that whole in-memory array."""
    nc = netCDF4.Dataset(path, "r")
    out = {}

    def walk(g, prefix):
        for name, var in g.variables.items():
            if var.dtype is str or var.dtype.kind not in "iuf":
                continue
            try:
                var.set_auto_maskandscale(False)
                raw = np.array(var[...])
                attrs = {a: var.getncattr(a) for a in var.ncattrs()}
                with np.errstate(all="ignore"):
                    ref = cfdm.netcdf_indexer(raw, mask=m, unpack=u, attributes=attrs)[...]
                out[prefix + name] = fp_array(ref)
            except Exception:
                pass
        for gn, gg in g.groups.items():
            walk(gg, prefix + gn + "/")

    walk(nc, "")
    nc.close()
    return out


def first_axis_index(f):
    if not f.ndim:
        return None
    n = f.shape[0]
    return (slice(0, max(1, n // 2)),) + (slice(None),) * (f.ndim - 1)


def options_sweep(path, scratch, combos=((False, True), (True, False), (False, False)),
                  backends=(None, "netCDF4", "h5netcdf")):
    """cfdm.read(mask=, unpack=) with the three non-default combinations, every backend: what copies,
    subspaces and in-memory copies show against the uncopied arrays, against a field brought into memory
    from a fresh read, and against the eager reference under the same options."""
    res = {}
    for m, u in combos:
        key = optkey({"mask": m, "unpack": u})
        ref = eager_reference(path, m, u)
        res[key] = {}
        for be in backends:
            e = {"bad": [], "dtypes": [], "n": 0}
            try:
                fields = sorted(cfdm.read(path, netcdf_backend=be, mask=m, unpack=u),
                                key=lambda f: str(f.nc_get_variable(None)))
                fresh = sorted(cfdm.read(path, netcdf_backend=be, mask=m, unpack=u),
                               key=lambda f: str(f.nc_get_variable(None)))
                take_log()
                fps = []
                for f, f2 in zip(fields, fresh):
                    fv = f.nc_get_variable(None)
                    # copies made BEFORE anything of the field has been fetched
                    g = f.copy()
                    idx = first_axis_index(f)
                    h = f[idx] if idx is not None else None
                    for (label, ncvar, d), (_, _, dg) in zip(data_objects(f), data_objects(g)):
                        e["n"] += 1
                        fl = flags_of(d)
                        dc = d.copy()
                        flc = flags_of(dc)
                        dt0 = d.dtype
                        if dt0.kind in "iuf":
                            e["dtypes"].append([ncvar, str(dt0)])
                        a_copy = fp_array(dc.array)
                        a_fcopy = fp_array(dg.array)
                        a_orig = fp_array(d.array)
                        if fl is not None and fl != [m, u]:
                            e["bad"].append(["flags-after-read", fv, label, ncvar, fl])
                        if flc is not None and flc != [m, u]:
                            e["bad"].append(["flags-of-copy", fv, label, ncvar, flc])
                        if flags_of(dg) is not None and flags_of(dg) != [m, u]:
                            e["bad"].append(["flags-of-field-copy", fv, label, ncvar, flags_of(dg)])
                        if a_copy != a_orig or a_fcopy != a_orig:
                            e["bad"].append(["copy-differs", fv, label, ncvar, a_orig, a_copy, a_fcopy])
                        if dt0.kind in "iuf" and str(dt0) != a_orig[0]:
                            e["bad"].append(["declared-dtype", fv, label, ncvar, str(dt0), a_orig[0]])
                        if ncvar in ref and not d.get_compression_type() and list(d.shape) == ref[ncvar][1] \
                                and a_orig != ref[ncvar]:
                            e["bad"].append(["eager-reference-differs", fv, label, ncvar, a_orig, ref[ncvar]])
                    try:
                        if not (f.equals(g) and g.equals(f)):
                            e["bad"].append(["copy-not-equal", fv])
                        # the same subspace of a field brought into memory from a fresh read (nothing copied
                        # before its data were fetched)
                        em = realise_field(f2)
                        if h is not None:
                            if fp_field(h) != fp_field(em[idx]):
                                e["bad"].append(["subspace-differs", fv, str(idx)])
                            if not (h.equals(em[idx]) and em[idx].equals(h)):
                                e["bad"].append(["subspace-not-equal", fv, str(idx)])
                        if not (f.equals(em) and em.equals(f)):
                            e["bad"].append(["memory-copy-not-equal", fv])
                    except Exception as ex:
                        e["bad"].append(["raised", fv, type(ex).__name__ + ": " + str(ex)[:150]])
                    fps.append(fp_field(f))
                e["fp"] = hashlib.sha1(json.dumps(sorted(fps, key=lambda x: json.dumps(x, sort_keys=True, default=str)),
                                                  sort_keys=True, default=str).encode()).hexdigest()
                e["open"] = open_nc(scratch)
                take_log()
            except Exception as ex:
                e["err"] = type(ex).__name__ + ": " + str(ex)[:200]
            res[key][str(be)] = e
    return res


def do_read(p):
    scratch = p["scratch"]
    instrument()
    for c in p["cases"]:
        row = {"i": c["i"]}
        try:
            path = os.path.join(scratch, f"c12r_{os.getpid()}_{c['i']}.nc")
            written = build_file(c["spec"], path)
            row["roles"] = raw_roles(path)
            rawv = raw_values(path)
            take_log()
            reads = {}
            per = {}
            for be in (None, "netCDF4", "h5netcdf"):
                name = str(be)
                e = {}
                try:
                    fields = cfdm.read(path, netcdf_backend=be)
                except Exception as ex:
                    e["err"] = errclass(ex)
                    e["msg"] = (type(ex).__name__ + ": " + str(ex))[:200]
                    e["open_after_read"] = open_nc(scratch)
                    take_log()
                    per[name] = e
                    continue
                log = take_log()
                e["open_after_read"] = open_nc(scratch)
                e["fetched"] = [[g["var"], g["shape"]] for g in log if g["e"] == "get"]
                e["unclosed"] = sum(1 for g in log if g["e"] == "open") - sum(1 for g in log if g["e"] == "close")
                e["nfields"] = len(fields)
                where = []
                for f in fields:
                    for label, ncvar, d in data_objects(f):
                        where.append([f.nc_get_variable(None), label, ncvar, where_is(d), list(d.shape)])
                e["where"] = where
                # Data.dtype while nothing has been fetched yet
                before = []
                take_log()
                for f in fields:
                    for label, ncvar, d in data_objects(f):
                        dt = d.dtype
                        nf = sum(1 for g in take_log() if g["e"] == "get")
                        before.append([f.nc_get_variable(None), label, ncvar, str(dt), dt.kind, nf])
                e["dtype_before"] = before
                reads[name] = fields
                per[name] = e
            # --- data access: fingerprints (this realises everything), files closed afterwards
            for name, fields in reads.items():
                fps = sorted((fp_field(f) for f in fields), key=lambda x: json.dumps(x, sort_keys=True, default=str))
                log = take_log()
                per[name]["fp"] = hashlib.sha1(json.dumps(fps, sort_keys=True, default=str).encode()).hexdigest()
                per[name]["fp_detail"] = fps
                per[name]["open_after_access"] = open_nc(scratch)
                per[name]["unclosed_access"] = sum(1 for g in log if g["e"] == "open") - \
                    sum(1 for g in log if g["e"] == "close")
                # still lazy after having been inspected?
                per[name]["where_after_access"] = sorted(set(
                    where_is(d).split(":")[0] for f in fields for _, _, d in data_objects(f)))
                # independent eager values
                bad = []
                for f in fields:
                    for label, ncvar, d in data_objects(f):
                        if ncvar in rawv and not d.get_compression_type() and list(d.shape) == rawv[ncvar][1]:
                            a = d.array
                            got = fp_array(a) + [fp_values(a)]
                            exp = rawv[ncvar]
                            # (netCDF4-python leaves the stored type when the scale is one and the offset zero, and has
                            #  its own idea of the unpacked type: for packed datasets the values are compared)
                            if c["spec"].get("packed"):
                                if got[4] != exp[4]:
                                    bad.append([ncvar, got, exp])
                            elif got[:4] != exp[:4]:
                                bad.append([ncvar, got, exp])
                per[name]["raw_mismatch"] = bad
                take_log()
            # --- bringing data into memory: data types and equality, for every construct
            for name, fields in reads.items():
                rows_ = []
                ceq = []
                for f in fields:
                    try:
                        g = realise_field(f.copy())
                        for (label, ncvar, d), (_, _, d2) in zip(data_objects(f), data_objects(g)):
                            a = d.array
                            rows_.append([f.nc_get_variable(None), label, ncvar, str(a.dtype), a.dtype.kind, str(d2.dtype),
                                          where_is(d2).split(":")[0], bool(d.equals(d2)), bool(d2.equals(d)),
                                          fp_array(a) == fp_array(d2.array)])
                        ceq.append([f.nc_get_variable(None), "field", bool(f.equals(g)), bool(g.equals(f))])
                        for key, c in sorted(f.constructs.filter_by_data(todict=True).items()):
                            c2 = g.constructs[key]
                            ceq.append([f.nc_get_variable(None), c.construct_type + ":" + str(c.nc_get_variable(None)),
                                        bool(c.equals(c2)), bool(c2.equals(c))])
                    except Exception as ex:
                        ceq.append([f.nc_get_variable(None), "raised", type(ex).__name__ + ": " + str(ex)[:150], False])
                per[name]["dtype_after"] = rows_
                per[name]["memory_equals"] = ceq
                per[name]["open_after_memory"] = open_nc(scratch)
                take_log()
            # --- equality across backends, both ways
            eq = {}
            names = sorted(reads)
            for a in names:
                for b in names:
                    if a == b or len(reads[a]) != len(reads[b]):
                        continue
                    fa = sorted(reads[a], key=lambda f: str(f.nc_get_variable(None)))
                    fb = sorted(reads[b], key=lambda f: str(f.nc_get_variable(None)))
                    try:
                        eq[a + "|" + b] = all(x.equals(y) for x, y in zip(fa, fb))
                    except Exception as ex:
                        eq[a + "|" + b] = "raised " + type(ex).__name__ + ": " + str(ex)[:100]
            row["equals"] = eq
            if written is not None and reads.get("None"):
                try:
                    row["equals_written"] = bool(reads["None"][0].equals(written)) if len(reads["None"]) == 1 else None
                except Exception as ex:
                    row["equals_written"] = "raised " + type(ex).__name__
            row["open_end"] = open_nc(scratch)
            for name in per:
                per[name].pop("fp_detail_full", None)
            # keep detail only when fingerprints differ
            fpset = set(per[n].get("fp") for n in per if "fp" in per[n])
            if len(fpset) <= 1:
                for n in per:
                    per[n].pop("fp_detail", None)
            row["per"] = per
            take_log()
        except Exception as ex:
            import traceback
            row["harness_err"] = type(ex).__name__ + ": " + str(ex)[:300] + " | " + traceback.format_exc()[-800:]
        print(json.dumps(row, default=str), flush=True)


# ------------------------------------------------------------------ mode: fieldops
def realise_field(f):
    for _, _, d in data_objects(f):
        d.to_memory(inplace=True)
    return f


def do_fieldops(p):
    """Histories over whole fields: lazy heap against an eager twin heap."""
    scratch = p["scratch"]
    instrument()
    built = {}
    for c in p["cases"]:
        row = {"i": c["i"]}
        try:
            key = json.dumps(c["spec"], sort_keys=True)
            if key not in built:
                path = os.path.join(scratch, f"c12f_{os.getpid()}_{len(built)}.nc")
                build_file(c["spec"], path)
                built[key] = path
            path = built[key]
            kw = optkw(c.get("opts"))
            f = cfdm.read(path, netcdf_backend=c["backend"], **kw)[0]
            g = realise_field(cfdm.read(path, netcdf_backend=c.get("backend2", c["backend"]), **kw)[0])
            take_log()
            lazy, eager = [f], [g]
            steps = []
            for op in c["ops"]:
                st = {"op": op[0]}
                res = []
                for heap in (lazy, eager):
                    try:
                        k = op[0]
                        if k == "copy":
                            heap.append(heap[op[1] % len(heap)].copy())
                            r = "none"
                        elif k == "sub":
                            x = heap[op[1] % len(heap)]
                            idx = mk_index(op[2])[:x.ndim]
                            idx = tuple(i if not isinstance(i, list) else [j % n for j in i]
                                        for i, n in zip(idx, x.shape))
                            heap.append(x[idx])
                            r = "none"
                        elif k == "tomem":
                            realise_field(heap[op[1] % len(heap)])
                            r = "none"
                        elif k == "tomem1":
                            objs = data_objects(heap[op[1] % len(heap)])
                            objs[op[2] % len(objs)][2].to_memory(inplace=True)
                            r = "none"
                        elif k == "arr":
                            r = hashlib.sha1(json.dumps(fp_field(heap[op[1] % len(heap)]), sort_keys=True,
                                                        default=str).encode()).hexdigest()
                        elif k == "arr1":
                            objs = data_objects(heap[op[1] % len(heap)])
                            r = fp_array(objs[op[2] % len(objs)][2].array)
                        elif k == "str":
                            r = str(heap[op[1] % len(heap)]) + repr(heap[op[1] % len(heap)].data)
                        elif k == "eq":
                            r = bool(heap[op[1] % len(heap)].equals(heap[op[2] % len(heap)]))
                        else:
                            raise RuntimeError(k)
                    except Exception as ex:
                        r = "raised:" + errclass(ex) + ":" + type(ex).__name__
                    res.append(r)
                    log = take_log()
                    if heap is lazy:
                        st["open"] = open_nc(scratch)
                        st["unclosed"] = sum(1 for e in log if e["e"] == "open") - \
                            sum(1 for e in log if e["e"] == "close")
                        st["nfetch"] = sum(1 for e in log if e["e"] == "get")
                st["lazy"], st["eager"] = res
                steps.append(st)
            # equality between the lazy and the eager heaps, both ways
            cross = []
            for x, y in zip(lazy, eager):
                try:
                    e = [bool(x.equals(y)), bool(y.equals(x))]
                    if e != [True, True]:
                        # do the values, masks and kinds of data type differ at all?
                        e.append("same-fingerprint" if fp_field(x) == fp_field(y) else "different-fingerprint")
                    cross.append(e)
                except Exception as ex:
                    cross.append("raised:" + type(ex).__name__)
            row["cross"] = cross
            row["steps"] = steps
            row["open_end"] = open_nc(scratch)
            take_log()
        except Exception as ex:
            import traceback
            row["harness_err"] = type(ex).__name__ + ": " + str(ex)[:300] + " | " + traceback.format_exc()[-800:]
        print(json.dumps(row, default=str), flush=True)


# ------------------------------------------------------------------ mode: unpack
def do_unpack(p):
    """The eager reference for the variables of the histories, under each combination of the read
    options: cfdm's own netcdf_indexer(mask=, unpack=) applied to the WHOLE array in memory (a numpy array
    holding the stored values, fill values included, and an attribute dictionary: no file, no backend, no
    laziness, no subspace, no copy).  Which data type and values unpacking should give is C07's subject;
    C12's is that lazy access through the file arrays gives this."""
    for k, v in enumerate(p["vars"]):
        row = {"i": k, "opt": {}}
        try:
            dt = np.dtype(v.get("dtype", "i8"))
            fill = fill_of(v.get("dtype", "i8"))
            a = np.array([fill if x is None else x for x in v["flat"]], dtype=dt).reshape(v["shape"])
            pack = v.get("pack") or {}
            attrs = {"_FillValue": np.array(fill, dtype=dt)[()]}
            if pack.get("unsigned"):
                attrs["_Unsigned"] = "true"
            if pack.get("scale"):
                attrs["scale_factor"] = np.array(pack["scale"][1], dtype=pack["scale"][0])[()]
            if pack.get("offset"):
                attrs["add_offset"] = np.array(pack["offset"][1], dtype=pack["offset"][0])[()]
            for m in (True, False):
                for u in (True, False):
                    with np.errstate(all="ignore"):
                        out = cfdm.netcdf_indexer(a.copy(), mask=m, unpack=u, attributes=dict(attrs))[...]
                    out = np.ma.asanyarray(out)
                    mk = np.ma.getmaskarray(out).ravel().tolist()
                    vals = out.data.ravel().tolist()
                    row["opt"][optkey({"mask": m, "unpack": u})] = {
                        "dtype": out.dtype.str[1:], "shape": list(out.shape),
                        "flat": [None if q else (x if isinstance(x, int) else (int(x) if float(x).is_integer() else repr(x)))
                                 for x, q in zip(vals, mk)]}
        except Exception as ex:
            row["err"] = type(ex).__name__ + ": " + str(ex)[:200]
        print(json.dumps(row), flush=True)


def do_sweep(p):
    """Dataset cases under non-default read options (one worker per dataset and set of combinations)."""
    scratch = p["scratch"]
    instrument()
    for c in p["cases"]:
        row = {"i": c["i"]}
        try:
            path = os.path.join(scratch, f"c12s_{os.getpid()}_{c['i']}.nc")
            build_file(c["spec"], path)
            row["roles"] = raw_roles(path)
            take_log()
            row["options"] = options_sweep(path, scratch, [tuple(x) for x in c["combos"]],
                                           tuple(c.get("backends", (None, "netCDF4", "h5netcdf"))))
            row["open_end"] = open_nc(scratch)
        except Exception as ex:
            import traceback
            row["harness_err"] = type(ex).__name__ + ": " + str(ex)[:300] + " | " + traceback.format_exc()[-800:]
        print(json.dumps(row, default=str), flush=True)


def main():
    p = json.load(sys.stdin)
    cfdm.log_level("DISABLE")
    {"ops": do_ops, "read": do_read, "fieldops": do_fieldops, "unpack": do_unpack, "sweep": do_sweep}[p["mode"]](p)


main()
