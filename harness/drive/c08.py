"""Drive the real cfdm writer for C08 (runs with PYTHONPATH=<repo>).

stdin: {"mode": "files", "dir": scratch, "cases": [case, ...]}
       {"mode": "names", "cases": [[op, ...], ...]}
stdout: one JSON line per case.

mode "files": build the fields of a case through the public API, cfdm.write
them to a fresh file and describe that file with netCDF4-python only (no cfdm
reader): global attributes, dimensions, variables (dims, dtype, attributes,
chunking(), filters(), endian()).  The inputs are described through the
public getters (properties, nc_global_attributes, shapes, dtypes, ...).

mode "names": sequences of requests to the writer's name allocator
(NetCDFWrite._netcdf_name with the write_vars state named in the property's
anchors), followed by the registration step its callers perform.
"""
import json
import os
import sys
import traceback

import numpy as np
import netCDF4

import cfdm
from cfdm.read_write.netcdf import NetCDFWrite


# --------------------------------------------------------------------------
# values
# --------------------------------------------------------------------------
def to_value(v):
    """JSON value -> python/numpy value"""
    if isinstance(v, dict):
        return np.array(v["arr"], dtype=v["dtype"])
    return v


def tag(dt):
    dt = np.dtype(dt)
    if dt.kind in "SU":
        return "S" if dt.kind == "S" else "U"
    if dt.kind == "O":
        return "O"
    return f"{dt.kind}{dt.itemsize}"


def canon_value(v):
    """python/numpy attribute value -> canonical JSON"""
    if isinstance(v, (bytes, np.bytes_)):
        v = v.decode("latin-1")
    if isinstance(v, str):
        return ["s", v]
    a = np.asarray(v)
    if a.dtype.kind in "SU":
        return ["sa", [str(x) for x in a.ravel().tolist()]]
    if a.dtype.kind == "O":
        return ["o", [str(x) for x in a.ravel().tolist()]]
    vals = a.ravel().tolist()
    out = []
    for x in vals:
        if isinstance(x, float) and (x != x):
            out.append("nan")
        elif isinstance(x, float) and x in (float("inf"), float("-inf")):
            out.append(str(x))
        else:
            out.append(x)
    return ["a", tag(a.dtype), out]


# --------------------------------------------------------------------------
# building fields
# --------------------------------------------------------------------------
def synth_field(spec):
    """A small field built from scratch.

    spec: {"shape": [..], "dtype": "f8", "dims": [{"ncdim":..,"coord":bool,
           "bounds":bool,"ncvar":..,"stdname":..}], "aux": null|{"kind":"str"|"num",
           "axis":0, "ncvar":.., "stdname":..}, "masked": bool, "fill": null|number}
    """
    f = cfdm.Field()
    shape = spec["shape"]
    keys = []
    for n, d in zip(shape, spec["dims"]):
        da = cfdm.DomainAxis(n)
        if d.get("ncdim"):
            da.nc_set_dimension(d["ncdim"])
        keys.append(f.set_construct(da))
    dt = np.dtype(spec.get("dtype", "f8"))
    size = int(np.prod(shape)) if shape else 1
    if dt.kind == "b":
        arr = (np.arange(size) % 2 == 0).reshape(shape)
    elif dt.kind in "SU":
        arr = np.array([f"s{i % 7}" * (1 + i % 3) for i in range(size)], dtype=dt).reshape(shape)
    else:
        arr = (np.arange(size) % 100).astype(dt).reshape(shape)
    if spec.get("masked") and size > 1 and dt.kind not in "SUb":
        arr = np.ma.array(arr)
        arr[(0,) * len(shape)] = np.ma.masked
    f.set_data(cfdm.Data(arr), axes=keys)
    for i, (n, d, k) in enumerate(zip(shape, spec["dims"], keys)):
        if d.get("coord"):
            c = cfdm.DimensionCoordinate()
            if d.get("stdname"):
                c.set_property("standard_name", d["stdname"])
            if d.get("ncvar"):
                c.nc_set_variable(d["ncvar"])
            c.set_property("units", "m")
            # (offset by the position so that two coordinates of one field are never identical)
            c.set_data(cfdm.Data(np.arange(n, dtype=d.get("cdtype", "f8")) * 2 + 1 + 100 * i))
            if d.get("bounds"):
                b = cfdm.Bounds()
                bb = np.empty((n, 2), dtype=d.get("cdtype", "f8"))
                bb[:, 0] = np.arange(n) * 2 + 100 * i
                bb[:, 1] = np.arange(n) * 2 + 2 + 100 * i
                b.set_data(cfdm.Data(bb))
                if d.get("bncvar"):
                    b.nc_set_variable(d["bncvar"])
                c.set_bounds(b)
            f.set_construct(c, axes=[k])
    aux = spec.get("aux")
    if aux and shape:
        ax = aux["axis"] % len(shape)
        n = shape[ax]
        a = cfdm.AuxiliaryCoordinate()
        if aux["kind"] == "str":
            vals = np.array([("name" + "x" * (j % 4) + str(j)) for j in range(n)])
            a.set_data(cfdm.Data(vals))
            a.set_property("long_name", aux.get("stdname") or "station name")
        else:
            a.set_data(cfdm.Data(np.arange(n, dtype="f4") + 0.5 + aux.get("offset", 0)))
            a.set_property("units", "K")
            if aux.get("stdname"):
                a.set_property("standard_name", aux["stdname"])
            if aux.get("bounds"):
                # the same bounds values whatever the offset: coordinates that differ can
                # still have equal bounds
                b = cfdm.Bounds(data=cfdm.Data(np.arange(2 * n, dtype="f4").reshape(n, 2)))
                a.set_bounds(b)
        if aux.get("ncvar"):
            a.nc_set_variable(aux["ncvar"])
        f.set_construct(a, axes=[keys[ax]])
    if spec.get("fill") is not None:
        f.set_property("_FillValue", spec["fill"])
    if spec.get("missing") is not None:
        f.set_property("missing_value", spec["missing"])
    return f


def masked_nested(nested, dtype):
    """nested lists (cells x parts x nodes, or cells x nodes) with None for missing -> masked array"""
    def walk(x):
        if isinstance(x, list):
            return [walk(y) for y in x]
        return 0 if x is None else x

    def mask(x):
        if isinstance(x, list):
            return [mask(y) for y in x]
        return x is None
    return np.ma.array(np.array(walk(nested), dtype=dtype), mask=np.array(mask(nested)))


GEOM_STD = ["longitude", "latitude", "altitude"]
GEOM_UNITS = ["degrees_east", "degrees_north", "m"]
GEOM_AXIS = ["X", "Y", "Z"]


def geom_field(spec):
    """A hand-made field with geometry cells.

    spec: {"p": name prefix, "gtype": "polygon"|"line"|"point",
           "bounds": [per coordinate: cells x parts x nodes nested lists, None = missing],
           "repr": [bool per coordinate: has representative values],
           "ring": cells x parts nested list or None, "gm": bool (grid mapping over the geometry
           coordinates), "time": bool (a second, time axis), "extra_aux": bool (a string-valued
           auxiliary coordinate that is no geometry), "props": [bool per coordinate: keep the
           properties (standard_name, units)], "geomvar": name of the geometry container or None}
    """
    p = spec["p"]
    ncells = len(spec["bounds"][0])
    f = cfdm.Field(properties={"standard_name": "precipitation_amount", "units": "kg m-2"})
    f.nc_set_variable("pr" + p)
    ax = f.set_construct(cfdm.DomainAxis(ncells))
    f.domain_axis(ax).nc_set_dimension("inst" + p)
    axes = [ax]
    shape = [ncells]
    if spec.get("time"):
        t = f.set_construct(cfdm.DomainAxis(3))
        axes.append(t)
        shape.append(3)
        tc = cfdm.DimensionCoordinate(properties={"standard_name": "time", "units": "days since 2000-01-01"},
                                      data=cfdm.Data(np.arange(3.0)))
        tc.nc_set_variable("time" + p)
        f.set_construct(tc, axes=[t])
    f.set_data(cfdm.Data(np.arange(float(np.prod(shape))).reshape(shape)), axes=axes)
    keys = []
    for k, nested in enumerate(spec["bounds"]):
        a = cfdm.AuxiliaryCoordinate()
        if spec.get("props", [True] * 3)[k]:
            a.set_properties({"standard_name": GEOM_STD[k], "units": GEOM_UNITS[k]})
        if spec["repr"][k]:
            a.set_data(cfdm.Data(np.arange(ncells, dtype="f8") + 100 * (k + 1) + spec.get("offset", 0)))
        a.nc_set_variable(["lon", "lat", "alt"][k] + p)
        b = cfdm.Bounds(properties={"axis": GEOM_AXIS[k]})
        b.set_data(cfdm.Data(masked_nested(nested, "f8")))
        b.nc_set_variable(["x", "y", "z"][k] + p)
        a.set_bounds(b)
        a.set_geometry(spec["gtype"])
        if spec.get("ring") is not None:
            ir = cfdm.InteriorRing()
            ir.set_data(cfdm.Data(masked_nested(spec["ring"], "i4")))
            a.set_interior_ring(ir)
        keys.append(f.set_construct(a, axes=[ax]))
    if spec.get("extra_aux"):
        a = cfdm.AuxiliaryCoordinate(properties={"long_name": "cell name"},
                                     data=cfdm.Data(np.array([f"c{j}" for j in range(ncells)])))
        a.nc_set_variable("cellname" + p)
        f.set_construct(a, axes=[ax])
    if spec.get("gm"):
        cr = cfdm.CoordinateReference(
            coordinates=keys[:2],
            coordinate_conversion=cfdm.CoordinateConversion(parameters={"grid_mapping_name": "latitude_longitude"}),
            datum=cfdm.Datum(parameters={"earth_radius": 6371007.0}))
        cr.nc_set_variable("datum" + p)
        f.set_construct(cr)
    if spec.get("geomvar"):
        f.nc_set_geometry_variable(spec["geomvar"])
    return f


LISTS = {0: [0, 2], 1: [1, 3], 2: [1, 2, 3], 3: [0, 2]}
COUNTS = {0: [2, 1, 3], 1: [1, 3, 2], 2: [2, 1], 3: [1, 2], 4: [3, 1, 2]}


def cmp_field(spec):
    """A hand-made field whose data are stored compressed.

    spec: {"p": prefix, "kind": "gath"|"cont"|"idx", "t": table entry, "sizes": [..] (gath only),
           "pos": position of the compressed axes (gath only), "n": number of compressed axes,
           "names": bool (set netCDF names on the list/count/index variable and sample dimension)}
    """
    p = spec["p"]
    kind = spec["kind"]
    if kind == "gath":
        sizes = tuple(spec["sizes"])
        pos, n = spec["pos"], spec["n"]
        lst = [x for x in LISTS[spec["t"]] if x < int(np.prod(sizes[pos:pos + n]))]
        cshape = sizes[:pos] + (len(lst),) + sizes[pos + n:]
        comp = np.arange(int(np.prod(cshape)), dtype=float).reshape(cshape)
        L = cfdm.List(data=cfdm.Data(np.array(lst)))
        if spec.get("names"):
            L.nc_set_variable("list" + p)
        arr = cfdm.GatheredArray(compressed_array=cfdm.Data(comp), shape=sizes,
                                 compressed_dimensions={pos: tuple(range(pos, pos + n))}, list_variable=L)
    else:
        counts = COUNTS[spec["t"]]
        sizes = (len(counts), max(counts))
        comp = np.arange(sum(counts), dtype=float)
        if kind == "cont":
            C = cfdm.Count(data=cfdm.Data(np.array(counts)))
            if spec.get("names"):
                C.nc_set_variable("count" + p)
                C.nc_set_sample_dimension("obs" + p)
            arr = cfdm.RaggedContiguousArray(compressed_array=cfdm.Data(comp), shape=sizes, count_variable=C)
        else:
            idx = np.repeat(np.arange(len(counts)), counts)
            if spec.get("shuffle"):
                idx = idx[::-1].copy()
            ix = cfdm.Index(data=cfdm.Data(idx))
            if spec.get("names"):
                ix.nc_set_variable("index" + p)
                ix.nc_set_sample_dimension("obs" + p)
            arr = cfdm.RaggedIndexedArray(compressed_array=cfdm.Data(comp), shape=sizes, index_variable=ix)
    f = cfdm.Field(properties={"long_name": "compressed " + p, "units": "K"})
    f.nc_set_variable("t" + p)
    axes = []
    for j, n_ in enumerate(sizes):
        da = cfdm.DomainAxis(n_)
        if spec.get("dimnames"):
            da.nc_set_dimension(spec["dimnames"][j])
        axes.append(f.set_construct(da))
    f.set_data(cfdm.Data(arr), axes=axes)
    # a coordinate on the first axis so that fields can share (or not) their dimensions
    c = cfdm.DimensionCoordinate(properties={"long_name": "first axis"},
                                 data=cfdm.Data(np.arange(sizes[0], dtype="f8") + spec.get("coff", 0)))
    if kind == "gath":
        f.set_construct(c, axes=[axes[0]])
    else:
        a = cfdm.AuxiliaryCoordinate(properties={"long_name": "station"},
                                     data=cfdm.Data(np.arange(sizes[0], dtype="f8") + spec.get("coff", 0)))
        f.set_construct(a, axes=[axes[0]])
        f.set_property("featureType", "timeSeries")
    return f


def cm_field(spec):
    """A 2-d field with a cell measure that is internal or external.

    spec: {"p": prefix, "name": netCDF name of the measure, "external": bool, "shape": [ny, nx], "off": number}
    """
    ny, nx = spec["shape"]
    f = cfdm.Field(properties={"standard_name": "air_temperature", "units": "K"})
    f.nc_set_variable("ta" + spec["p"])
    ay = f.set_construct(cfdm.DomainAxis(ny))
    ax = f.set_construct(cfdm.DomainAxis(nx))
    f.set_data(cfdm.Data(np.arange(float(ny * nx)).reshape(ny, nx)), axes=[ay, ax])
    for k, (a, n) in enumerate(((ay, ny), (ax, nx))):
        c = cfdm.DimensionCoordinate(properties={"standard_name": ["latitude", "longitude"][k],
                                                 "units": ["degrees_north", "degrees_east"][k]},
                                     data=cfdm.Data(np.arange(float(n)) + spec.get("off", 0)))
        f.set_construct(c, axes=[a])
    m = cfdm.CellMeasure(measure="area", properties={"units": "m2"})
    m.nc_set_variable(spec["name"])
    if spec["external"]:
        m.nc_set_external(True)
    else:
        m.set_data(cfdm.Data(np.ones((ny, nx)) + spec.get("off", 0)))
    f.set_construct(m, axes=[ay, ax])
    return f


def build_field(fs):
    src = fs["src"]
    if src[0] == "example":
        f = cfdm.example_field(int(src[1]))
    elif src[0] == "domain":
        f = cfdm.example_field(int(src[1])).domain
    elif src[0] == "geom":
        f = geom_field(src[1])
    elif src[0] == "cmp":
        f = cmp_field(src[1])
    elif src[0] == "cm":
        f = cm_field(src[1])
    elif src[0] == "dsg":
        f = cfdm.example_field(int(src[1])).compress(src[2])
    else:
        f = synth_field(src[1])
    ed = fs.get("geom_edit")
    if ed:
        # drop the representative values of some geometry coordinates / the grid mapping
        for c in f.auxiliary_coordinates(todict=True).values():
            if c.get_geometry(None) and c.get_property("standard_name", None) in ed.get("drop_repr", []):
                c.del_data(None)
        if ed.get("drop_gm"):
            for k in list(f.coordinate_references(todict=True)):
                f.del_construct(k)
        if ed.get("shift"):
            for c in f.auxiliary_coordinates(todict=True).values():
                if c.has_bounds() and c.get_geometry(None):
                    c.bounds.set_data(cfdm.Data(c.bounds.data.array + ed["shift"]), inplace=True)
    nv = fs.get("ncvar")
    if nv == "del":
        f.nc_del_variable(None)
    elif nv is not None:
        f.nc_set_variable(nv)
    for p in fs.get("del_props", []):
        f.del_property(p, None)
    for k, v in fs.get("props", {}).items():
        f.set_property(k, to_value(v))
    if fs.get("clear_global"):
        f.nc_clear_global_attributes()
    for k, v in fs.get("nc_global", []):
        f.nc_set_global_attribute(k, None if v is None else to_value(v))
    is_field = isinstance(f, cfdm.Field)
    if is_field:
        axes = list(f.get_data_axes(default=()))
        for i in fs.get("unlimited", []):
            if axes:
                f.domain_axis(axes[i % len(axes)]).nc_set_unlimited(True)
        ch = fs.get("chunks")
        if ch is not None and f.has_data():
            if isinstance(ch, list):
                nd = f.data.ndim
                ch = (ch + [None] * nd)[:nd]
            f.data.nc_set_hdf5_chunksizes(ch)
        if fs.get("cast") and f.has_data():
            a = f.data.array
            f.set_data(cfdm.Data(np.ma.asarray(a).astype(fs["cast"])), axes=axes, copy=False)
    for ident, name in fs.get("rename", []):
        c = f.construct(ident, default=None)
        if c is not None:
            c.nc_set_variable(name)
    return f


def describe_input(f):
    d = {"type": type(f).__name__}
    d["props"] = {k: canon_value(v) for k, v in f.properties().items()}
    d["nc_global"] = {k: (None if v is None else canon_value(v))
                      for k, v in f.nc_global_attributes().items()}
    d["ncvar"] = f.nc_get_variable(None)
    d["stdname"] = f.get_property("standard_name", None)
    if isinstance(f, cfdm.Field) and f.has_data():
        data = f.data
        d["shape"] = list(data.shape)
        d["dtype"] = tag(data.dtype)
        ch = data.nc_hdf5_chunksizes()
        d["chunks"] = list(ch) if isinstance(ch, tuple) else ch
        axes = f.get_data_axes()
        d["unlimited"] = [bool(f.domain_axis(a).nc_is_unlimited()) for a in axes]
        d["compression"] = data.get_compression_type()
    else:
        d["shape"] = None
    # construct names the writer will start from (public getters only)
    cons = []
    for key, c in f.constructs.filter_by_type(
            "dimension_coordinate", "auxiliary_coordinate", "cell_measure",
            "field_ancillary", "domain_ancillary", todict=True).items():
        e = {"key": key, "type": c.construct_type,
             "ncvar": c.nc_get_variable(None),
             "stdname": c.get_property("standard_name", None),
             "has_data": bool(c.has_data()),
             "dtype": tag(c.data.dtype) if c.has_data() else None,
             "shape": list(c.data.shape) if c.has_data() else None,
             "has_bounds": bool(getattr(c, "has_bounds", lambda: False)())}
        if e["type"] == "dimension_coordinate":
            # the netCDF dimension name set on its domain axis (the writer's first choice
            # for a dimension coordinate that has no netCDF variable name of its own)
            try:
                ax = f.get_data_axes(key)[0]
                e["ncdim"] = f.domain_axis(ax).nc_get_dimension(None)
            except Exception:
                e["ncdim"] = None
        if e["type"] == "cell_measure":
            e["external"] = bool(c.nc_get_external())
        cons.append(e)
    d["constructs"] = cons
    # geometry cells: how the nodes are divided, which coordinates have representative values
    geom = []
    for key, c in f.auxiliary_coordinates(todict=True).items():
        gt = c.get_geometry(None)
        if gt is None or not c.has_bounds() or not c.bounds.has_data():
            continue
        arr = np.ma.asarray(c.bounds.data.array)
        counts = np.ma.count(arr, axis=-1)
        ring = None
        ir = c.get_interior_ring(None)
        if ir is not None and ir.has_data():
            ring = [int(x) for x in np.ma.compressed(ir.data.array).tolist()]
        geom.append({"key": key, "type": gt, "repr": bool(c.has_data()), "props": bool(c.properties()),
                     "ncvar": c.nc_get_variable(None), "node_ncvar": c.bounds.nc_get_variable(None),
                     "counts": np.atleast_2d(counts).tolist() if counts.ndim else [[int(counts)]],
                     "bounds_ndim": int(arr.ndim), "ring": ring})
    d["geom"] = geom
    d["aux"] = [{"key": k, "ncvar": c.nc_get_variable(None), "has_data": bool(c.has_data()),
                 "props": bool(c.properties()), "geometry": c.get_geometry(None),
                 "has_bounds": bool(c.has_bounds())}
                for k, c in f.auxiliary_coordinates(todict=True).items()]
    gms = []
    for k, cr in f.coordinate_references(todict=True).items():
        if cr.coordinate_conversion.get_parameter("grid_mapping_name", None) is not None:
            gms.append({"key": k, "ncvar": cr.nc_get_variable(None), "coords": sorted(cr.coordinates())})
    d["grid_mappings"] = gms
    d["geomvar"] = f.nc_get_geometry_variable(None) if hasattr(f, "nc_get_geometry_variable") else None
    # compression by convention
    cmpd = None
    if isinstance(f, cfdm.Field) and f.has_data() and f.data.get_compression_type():
        data = f.data
        cmpd = {"type": data.get_compression_type()}
        for nm, getter in (("list", "get_list"), ("count", "get_count"), ("index", "get_index")):
            v = getattr(data, getter)(None)
            if v is not None and v.has_data():
                cmpd[nm] = [int(x) for x in np.ma.compressed(v.data.array).tolist()]
        try:
            cmpd["compressed_axes"] = [int(x) for x in data.get_compressed_axes()]
        except Exception:
            cmpd["compressed_axes"] = []
    d["cmp"] = cmpd
    d["axes"] = {k: [int(a.get_size(0)), a.nc_get_dimension(None), bool(a.nc_is_unlimited())]
                 for k, a in f.domain_axes(todict=True).items()}
    return d


# --------------------------------------------------------------------------
# raw view of a file
# --------------------------------------------------------------------------
def describe_file(path):
    nc = netCDF4.Dataset(path, "r")
    try:
        nc.set_auto_maskandscale(False)
        out = {"format": nc.data_model, "groups": sorted(nc.groups)}
        out["gattrs"] = {a: canon_value(nc.getncattr(a)) for a in nc.ncattrs()}
        out["gattr_order"] = list(nc.ncattrs())
        out["dims"] = {n: [len(d), bool(d.isunlimited())] for n, d in nc.dimensions.items()}
        vs = {}
        for n, v in nc.variables.items():
            e = {"dims": list(v.dimensions), "shape": [int(x) for x in v.shape]}
            e["dtype"] = "vlen-str" if v.dtype is str else ("S1" if v.dtype.kind == "S" else tag(v.dtype))
            e["attrs"] = {a: canon_value(v.getncattr(a)) for a in v.ncattrs()}
            try:
                ch = v.chunking()
                e["chunking"] = ch if isinstance(ch, str) else [int(x) for x in ch]
            except Exception as ex:  # netCDF3
                e["chunking"] = "n/a:" + type(ex).__name__
            try:
                fl = v.filters()
                e["filters"] = None if fl is None else {k: (int(x) if not isinstance(x, bool) else x)
                                                       for k, x in fl.items()
                                                       if k in ("zlib", "shuffle", "complevel", "fletcher32")}
            except Exception:
                e["filters"] = None
            try:
                e["endian"] = v.endian()
            except Exception:
                e["endian"] = None
            vs[n] = e
        structural = set()
        for n, e in vs.items():
            at = e["attrs"]
            if any(a in at for a in ("compress", "sample_dimension", "instance_dimension")):
                structural.add(n)
            for a in ("node_count", "part_node_count", "interior_ring"):
                if a in at and at[a][0] == "s":
                    structural.add(at[a][1])
        for n in structural:
            if n in vs and vs[n]["dtype"][0] in "iu":
                v = nc.variables[n]
                if v.size <= 20000:
                    v.set_auto_maskandscale(True)
                    arr = np.ma.asarray(v[...])
                    e = vs[n]
                    e["data"] = [None if x is None else int(x) for x in arr.ravel().tolist()]
        out["vars"] = vs
        return out
    finally:
        nc.close()


def conv_opts(o):
    kw = {}
    for k in ("fmt", "string", "compress", "shuffle", "fletcher32", "endian",
              "coordinates", "hdf5_chunks", "global_attributes", "variable_attributes",
              "file_descriptors", "Conventions", "least_significant_digit"):
        if k in o and o[k] is not None:
            kw[k] = o[k]
    if "file_descriptors" in kw:
        kw["file_descriptors"] = {k: to_value(v) for k, v in kw["file_descriptors"].items()}
    if o.get("datatype"):
        kw["datatype"] = {np.dtype(a): np.dtype(b) for a, b in o["datatype"]}
    return kw


def do_files(payload):
    d = payload["dir"]
    os.makedirs(d, exist_ok=True)
    for case in payload["cases"]:
        row = {"id": case["id"], "exc": None, "inputs": None, "file": None}
        path = os.path.join(d, f"c{case['id']}.nc")
        try:
            fields = [build_field(fs) for fs in case["fields"]]
            row["inputs"] = [describe_input(f) for f in fields]
        except Exception as e:
            row["exc"] = ["BUILD", type(e).__name__, str(e)[:300]]
            print(json.dumps(row), flush=True)
            continue
        try:
            cfdm.write(fields, path, **conv_opts(case["opts"]))
        except Exception as e:
            row["exc"] = ["WRITE", type(e).__name__, str(e)[:300],
                          traceback.format_exc().splitlines()[-3].strip()[:160]]
        if row["exc"] is None:
            try:
                row["file"] = describe_file(path)
            except Exception as e:
                row["exc"] = ["INSPECT", type(e).__name__, str(e)[:300]]
        try:
            os.remove(path)
        except OSError:
            pass
        print(json.dumps(row), flush=True)


# --------------------------------------------------------------------------
# the name allocator
# --------------------------------------------------------------------------
def do_names(payload):
    for ops in payload["cases"]:
        dry = bool(ops) and ops[0] == ["dry"]
        if dry:
            ops = ops[1:]
        w = NetCDFWrite(cfdm.CFDMImplementation())
        # the state of a real pass of a mode-"w" write, or of the dry run of a mode-"a" write
        w.write_vars = {"ncvar_names": set(), "ncdim_to_size": {}, "dimensions_with_role": {},
                        "dry_run": dry, "post_dry_run": False, "mode": "a" if dry else "w"}
        g = w.write_vars
        out = []
        for op in ops:
            try:
                if op[0] == "name":          # a variable name
                    r = w._netcdf_name(op[1])
                elif op[0] == "dim":         # a dimension created by _write_dimension
                    r = w._netcdf_name(op[1])
                    g["ncdim_to_size"][r] = op[2]
                else:                        # a dimension with a role (bounds, strlen, node, part)
                    r = w._netcdf_name(op[1], dimsize=op[2], role=op[3], **({"named": True} if len(op) > 4 and op[4] else {}))
                    if r not in g["ncdim_to_size"]:
                        g["ncdim_to_size"][r] = op[2]
                out.append(r)
            except Exception as e:
                out.append("!" + type(e).__name__)
                break
        print(json.dumps({"names": out,
                          "vars": sorted(g["ncvar_names"]),
                          "dims": sorted([k, v] for k, v in g["ncdim_to_size"].items())}), flush=True)


def main():
    import logging
    logging.getLogger().handlers[:] = [logging.NullHandler()]
    cfdm.log_level("DISABLE")
    p = json.load(sys.stdin)
    if p["mode"] == "files":
        do_files(p)
    elif p["mode"] == "names":
        do_names(p)


main()
