"""Drive cfdm.write([several fields]) / cfdm.read for C09 (PYTHONPATH=/repo).

stdin : {"scratch": dir, "cases": [{"fields": [skeleton, ...], "orders": [[i, j, ...], ...]}, ...]}
stdout: one JSON line per case.

A skeleton describes a field abstractly (see harness/props/c09.py); every
construct carries a *token* that determines its properties and data, so that
two constructs are equal for cfdm exactly when kind, token, bounds token and
shape agree.  The worker builds real constructs through the public API only,
writes every ordering to a fresh file and reports

  file : for every written field, the netCDF dimension and variable *names*
         that hold its axes / constructs (raw netCDF4-python view),
  read : for every original, how many read-back fields equal it (both ways),
         whether the match has the fingerprint of the single-file round trip,
         and the token view of its coordinate references,
  refs : which metadata variables are referenced by which data variables.
"""
import json
import os
import sys
import traceback

import netCDF4
import numpy as np

import cfdm

VSN = "atmosphere_hybrid_height_coordinate"
GMNAMES = ["mercator", "polar_stereographic", "lambert_conformal_conic"]
NCNAMES = ["x", "y", "lat", "lon", "v", "v_1", "a_b", "coord"]


# --------------------------------------------------------------------------
# token -> content
# --------------------------------------------------------------------------
def props_of(tok):
    base, var = divmod(int(tok), 4)
    p = {"long_name": f"t{base}", "units": "m"}
    if base == 5:
        p["standard_name"] = VSN
    if var == 2:
        p["comment"] = "v2"
    if var == 3:
        p["units"] = "km"
    return p


def values_of(tok, shape):
    base, var = divmod(int(tok), 4)
    n = int(np.prod(shape)) if shape else 1
    a = base * 100.0 + np.arange(n, dtype=float)
    if var == 1:
        a[-1] += 0.5
    return a.reshape(shape)


def bounds_of(btok, shape):
    base, var = divmod(int(btok), 2)
    n = int(np.prod(shape)) if shape else 1
    a = base * 100.0 + np.arange(n, dtype=float).reshape(tuple(shape) + (1,)) + np.array([-0.5, 0.5])
    if var == 1:
        a.flat[-1] += 0.25
    return a


def decode_tok(c):
    """token of a read-back construct (None if it is not one of ours)"""
    try:
        ln = c.get_property("long_name", None)
        if ln is None or not ln.startswith("t"):
            return None
        base = int(ln[1:])
        var = 0
        if c.get_property("comment", None) == "v2":
            var = 2
        elif c.get_property("units", None) == "km":
            var = 3
        elif c.has_data() and float(c.data.array.flat[-1]) % 1 == 0.5:
            var = 1
        return base * 4 + var
    except Exception:
        return None


def decode_btok(c):
    try:
        if not c.has_bounds() or not c.bounds.has_data():
            return None
        a = c.bounds.data.array
        base = int(round((float(a.flat[0]) + 0.5) / 100.0))
        var = 1 if (float(a.flat[-1]) * 4) % 2 == 1 and (float(a.flat[-1]) % 1) == 0.75 else 0
        return base * 2 + var
    except Exception:
        return None


def set_nc(c, nc):
    if nc is not None:
        c.nc_set_variable(NCNAMES[nc % len(NCNAMES)])


def mk(cls, item, shape):
    c = cls(properties=props_of(item["t"]), data=cfdm.Data(values_of(item["t"], shape)))
    if item.get("b") is not None:
        c.set_bounds(cfdm.Bounds(data=cfdm.Data(bounds_of(item["b"], shape))))
    set_nc(c, item.get("nc"))
    return c


def datum_of(d):
    if d is None:
        return cfdm.Datum()
    return cfdm.Datum(parameters={"earth_radius": 6371000.0 + d})


LISTS = {0: [0, 2], 1: [1, 3], 2: [1, 2, 3], 3: [0, 1, 3]}
COUNTS = {0: [2, 1, 3], 1: [1, 3, 2], 2: [2, 1], 3: [1, 2]}
ICOUNTS = {0: [2, 1, 3, 1], 1: [1, 3, 2, 3]}             # elements per profile (4 profiles)
IINDEX = {0: [0, 1, 0, 1], 1: [0, 0, 1, 1], 2: [1, 0, 0, 1]}    # station of each profile: shape (2, 2, 3)


def compressed_data(sk):
    """the data of a field stored compressed (gathered / contiguous ragged / indexed ragged)"""
    c = sk["cmp"]
    sizes = tuple(sk["sizes"])
    if c["kind"] == "gath":
        lst = LISTS[c["t"]]
        p, n = c["p"], c["n"]
        cshape = sizes[:p] + (len(lst),) + sizes[p + n:]
        comp = sk["id"] * 1000.0 + np.arange(int(np.prod(cshape)), dtype=float).reshape(cshape)
        L = cfdm.List(data=cfdm.Data(np.array(lst)))
        arr = cfdm.GatheredArray(compressed_array=cfdm.Data(comp), shape=sizes,
                                 compressed_dimensions={p: tuple(range(p, p + n))}, list_variable=L)
    elif c["kind"] == "idxcont":
        counts, index = ICOUNTS[c["t"]], IINDEX[c["i"]]
        comp = sk["id"] * 1000.0 + np.arange(sum(counts), dtype=float)
        arr = cfdm.RaggedIndexedContiguousArray(
            compressed_array=cfdm.Data(comp), shape=sizes,
            count_variable=cfdm.Count(data=cfdm.Data(np.array(counts))),
            index_variable=cfdm.Index(data=cfdm.Data(np.array(index))))
    else:
        counts = COUNTS[c["t"]]
        comp = sk["id"] * 1000.0 + np.arange(sum(counts), dtype=float)
        if c["kind"] == "cont":
            C = cfdm.Count(data=cfdm.Data(np.array(counts)))
            arr = cfdm.RaggedContiguousArray(compressed_array=cfdm.Data(comp), shape=sizes, count_variable=C)
        else:
            I = cfdm.Index(data=cfdm.Data(np.repeat(np.arange(len(counts)), counts)))
            arr = cfdm.RaggedIndexedArray(compressed_array=cfdm.Data(comp), shape=sizes, index_variable=I)
    return cfdm.Data(arr)


def build(sk):
    if sk.get("ex") is not None:
        # one of cfdm's own example fields, tagged so that it can be found again
        f = cfdm.example_field(int(sk["ex"]))
        f.set_property("fid", int(sk["id"]))
        if sk.get("exvar"):
            # a variant of a geometry example field: same node counts / part node counts, other node
            # coordinates and / or other instance-level coordinates
            f.set_property("long_name", f"g{sk['id']}")
            for c in f.auxiliary_coordinates(todict=True).values():
                if "nodes" in sk["exvar"] and c.has_bounds():
                    c.bounds.set_data(cfdm.Data(c.bounds.data.array + 1.0), inplace=True)
                if "ring" in sk["exvar"]:
                    # same nodes, same counts, other interior rings
                    ir = c.get_interior_ring(None)
                    if ir is not None:
                        ir.set_data(cfdm.Data(1 - ir.data.array), inplace=True)
                if "inst" in sk["exvar"] and c.has_data():
                    # every instance-level coordinate differs, so that the variant needs an instance
                    # dimension of its own
                    if c.data.dtype.kind in "fi":
                        c.set_data(cfdm.Data(c.data.array + 1), inplace=True)
                    else:
                        c.set_data(cfdm.Data(np.array([str(x) + "z" for x in c.data.array.ravel()]).reshape(
                            c.data.shape)), inplace=True)
        return f
    f = cfdm.Field(properties={"long_name": f"f{sk['id']}", "units": "K", "fid": int(sk["id"])})
    if sk.get("gattr") is not None:
        # a property that this field asks to be written as a netCDF global attribute, with a
        # forced value: honoured only when every field of the file asks for the same value
        f.set_property("project", f"p{sk['gattr']}")
        f.nc_set_global_attribute("project", f"p{sk['gattr']}")
    if sk.get("nc") is not None:
        f.nc_set_variable(NCNAMES[sk["nc"] % len(NCNAMES)])
    sizes = sk["sizes"]
    axes = []
    for i, n in enumerate(sizes):
        da = cfdm.DomainAxis(n)
        dn = (sk.get("dimnc") or [None] * len(sizes))[i]
        if dn is not None:
            da.nc_set_dimension(NCNAMES[dn % len(NCNAMES)])
        axes.append(f.set_construct(da))
    if sk.get("cmp") is not None:
        f.set_data(compressed_data(sk), axes=axes)
        if sk["cmp"]["kind"] != "gath":
            f.set_property("featureType", "timeSeriesProfile" if sk["cmp"]["kind"] == "idxcont" else "timeSeries")
    else:
        f.set_data(cfdm.Data(sk["id"] * 1000.0 + np.arange(int(np.prod(sizes)), dtype=float).reshape(sizes)),
                   axes=axes)
    dimkeys = {}
    for i, it in enumerate(sk["dim"]):
        if it is not None:
            dimkeys[i] = f.set_construct(mk(cfdm.DimensionCoordinate, it, (sizes[i],)), axes=[axes[i]])
    for it in sk.get("scalar", []):
        a = f.set_construct(cfdm.DomainAxis(1))
        f.set_construct(mk(cfdm.DimensionCoordinate, it, (1,)), axes=[a])
    auxkeys = []
    for it in sk["aux"]:
        shp = tuple(sizes[a] for a in it["ax"])
        auxkeys.append(f.set_construct(mk(cfdm.AuxiliaryCoordinate, it, shp), axes=[axes[a] for a in it["ax"]]))
    anckeys = []
    for it in sk["anc"]:
        shp = tuple(sizes[a] for a in it["ax"])
        anckeys.append(f.set_construct(mk(cfdm.DomainAncillary, it, shp), axes=[axes[a] for a in it["ax"]]))
    for it in sk.get("gcons", []):
        # an auxiliary coordinate whose own data are compressed by gathering over axes p .. p+n-1
        gax = list(range(it["p"], it["p"] + it["n"]))
        shp = tuple(sizes[a] for a in gax)
        lst = LISTS[it["lt"]]
        comp = (it["t"] // 4) * 100.0 + np.arange(len(lst), dtype=float)
        arr = cfdm.GatheredArray(compressed_array=cfdm.Data(comp), shape=shp,
                                 compressed_dimensions={0: tuple(range(len(gax)))},
                                 list_variable=cfdm.List(data=cfdm.Data(np.array(lst))))
        c = cfdm.AuxiliaryCoordinate(properties=props_of(it["t"]), data=cfdm.Data(arr))
        f.set_construct(c, axes=[axes[a] for a in gax])
    for it in sk["meas"]:
        shp = tuple(sizes[a] for a in it["ax"])
        c = mk(cfdm.CellMeasure, it, shp)
        c.set_measure("area")
        if sk.get("extm"):
            # an external cell measure: named in external_variables, no variable in this file
            c.nc_set_external(True)
        f.set_construct(c, axes=[axes[a] for a in it["ax"]])
    for it in sk["fanc"]:
        shp = tuple(sizes[a] for a in it["ax"])
        f.set_construct(mk(cfdm.FieldAncillary, it, shp), axes=[axes[a] for a in it["ax"]])
    ft = sk.get("ft")
    if ft is not None:
        cc = cfdm.CoordinateConversion(
            parameters={"standard_name": VSN},
            domain_ancillaries={f"k{j}": anckeys[a] for j, a in enumerate(ft["terms"])})
        f.set_construct(cfdm.CoordinateReference(coordinates=[dimkeys[ft["z"]]], coordinate_conversion=cc,
                                                 datum=datum_of(ft["d"])))
    for gm in sk.get("gm", []):
        co = [dimkeys[x[1]] if x[0] == "dim" else auxkeys[x[1]] for x in gm["co"]]
        cc = cfdm.CoordinateConversion(parameters={
            "grid_mapping_name": GMNAMES[gm["cc"] % 3], "standard_parallel": float(gm["cc"])})
        cr = cfdm.CoordinateReference(coordinates=co, coordinate_conversion=cc, datum=datum_of(gm["d"]))
        if gm.get("nc") is not None:
            cr.nc_set_variable(NCNAMES[gm["nc"] % len(NCNAMES)])
        f.set_construct(cr)
    for cmx in sk.get("cm", []):
        f.set_construct(cfdm.CellMethod(axes=[axes[cmx[0]]], method=cmx[1]))
    if sk.get("dom"):
        d = f.domain.copy()
        d.set_property("long_name", f"f{sk['id']}")
        d.set_property("fid", int(sk["id"]))
        return d
    return f


# --------------------------------------------------------------------------
# fingerprint independent of cfdm's equals(): values, properties, structure
# --------------------------------------------------------------------------
def arr(d):
    raw = d.array
    a = np.ma.asanyarray(raw)
    out = [list(a.shape), str(a.dtype.kind),
           [None if m else (float(v) if a.dtype.kind in "fiub" else str(v))
            for v, m in zip(np.ma.getdata(a).ravel().tolist(), np.ma.getmaskarray(a).ravel().tolist())]]
    # the recorded array is now overwritten in place: if it aliased the construct's own
    # storage, every later write / comparison of that construct shows it
    try:
        if isinstance(raw, np.ndarray) and raw.flags.writeable and raw.dtype.kind in "fiu":
            np.ma.getdata(raw)[...] = -12345
    except Exception:
        pass
    return out


def pr(c):
    out = {}
    for k, v in c.properties().items():
        if isinstance(v, np.generic):
            v = v.item()
        if isinstance(v, np.ndarray):
            v = v.tolist()
        out[k] = v
    return out


def cfp(f, key, c):
    """fingerprint of one metadata construct (no keys, no netCDF names)"""
    out = {"type": c.construct_type, "props": pr(c)}
    if c.has_data():
        out["data"] = arr(c.data)
    if hasattr(c, "has_bounds") and c.has_bounds():
        out["bprops"] = pr(c.bounds)
        if c.bounds.has_data():
            out["bounds"] = arr(c.bounds.data)
    if hasattr(c, "get_measure"):
        out["measure"] = c.get_measure(None)
    return out


def fingerprint(f):
    isfield = f.construct_type == "field"
    axes = f.domain_axes(todict=True)
    order = list(f.get_data_axes()) if isfield else []
    # axes not spanned by data (all axes of a domain) have no order of their own: their construct keys depend
    # on the order of dimensions in the file.  Order them canonically, by size and by what lives on them alone
    oned = {}
    for key, c in f.constructs.filter_by_type(
            "dimension_coordinate", "auxiliary_coordinate", "domain_ancillary", "cell_measure",
            todict=True).items():
        ax = f.constructs.data_axes().get(key, ())
        if len(ax) == 1:
            oned.setdefault(ax[0], []).append(json.dumps(cfp(f, key, c), sort_keys=True, default=str))
    rest = [a for a in axes if a not in order]
    rest.sort(key=lambda a: (axes[a].get_size(), sorted(oned.get(a, [])), a))
    order += rest
    pos = {a: i for i, a in enumerate(order)}
    fprops = pr(f)
    fprops.pop("Conventions", None)  # added by every write
    out = {"kind": f.construct_type, "props": fprops, "axes": [axes[a].get_size() for a in order]}
    if isfield and f.has_data():
        out["data"] = arr(f.data)
    cons = {}
    items = []
    for key, c in f.constructs.filter_by_type(
            "dimension_coordinate", "auxiliary_coordinate", "domain_ancillary", "cell_measure",
            "field_ancillary", todict=True).items():
        d = cfp(f, key, c)
        d["axes"] = [pos[a] for a in f.constructs.data_axes().get(key, ())]
        cons[key] = json.dumps(d, sort_keys=True)
        items.append(cons[key])
    out["constructs"] = sorted(items)
    refs = []
    for key, r in f.coordinate_references(todict=True).items():
        refs.append(json.dumps({
            "coords": sorted(cons.get(k, "?" + k) for k in r.coordinates()),
            "cc": {k: (v.item() if isinstance(v, np.generic) else v)
                   for k, v in r.coordinate_conversion.parameters().items()},
            "terms": {t: cons.get(k, None) for t, k in r.coordinate_conversion.domain_ancillaries().items()},
            "datum": {k: (float(v) if isinstance(v, (np.generic, int, float)) else v)
                      for k, v in r.datum.parameters().items()},
        }, sort_keys=True, default=str))
    out["refs"] = sorted(refs)
    if isfield:
        cms = []
        for key, cm in f.cell_methods(todict=True).items():
            cms.append([[pos.get(a, a) for a in cm.get_axes(())], cm.get_method(None),
                        sorted((k, str(v)) for k, v in cm.qualifiers().items())])
        out["cell_methods"] = cms
    return json.dumps(out, sort_keys=True, default=str)


def safe_fp(h):
    """fingerprint of a read-back construct; junk constructs (e.g. the variables of a domain read as
    fields) must not stop the comparison"""
    try:
        return fingerprint(h)
    except Exception as e:  # noqa
        return "unprintable:" + type(e).__name__


def token_view(h):
    """coordinate references and construct multiset of a read-back field in tokens"""
    cons = {}
    multiset = []
    kinds = {"dimension_coordinate": 0, "auxiliary_coordinate": 2, "domain_ancillary": 3,
             "cell_measure": 4, "field_ancillary": 5}
    for key, c in h.constructs.filter_by_type(*kinds, todict=True).items():
        t = decode_tok(c)
        cons[key] = -1 if t is None else t
        b = decode_btok(c) if hasattr(c, "has_bounds") else None
        multiset.append([kinds[c.construct_type], cons[key], -1 if b is None else b,
                         [int(x) for x in (c.data.shape if c.has_data() else ())]])
    vcr, gms = [], []
    for key, r in h.coordinate_references(todict=True).items():
        p = r.coordinate_conversion.parameters()
        dp = r.datum.parameters()
        d = -1
        if "earth_radius" in dp:
            d = int(round(float(dp["earth_radius"]) - 6371000.0))
        elif dp:
            d = -2
        co = sorted(cons.get(k, -1) for k in r.coordinates())
        if "grid_mapping_name" in p:
            cc = int(round(float(p.get("standard_parallel", -1))))
            if p.get("grid_mapping_name") == "latitude_longitude":
                cc = -3
            gms.append([cc, d, co])
        else:
            terms = sorted(cons.get(k, -1) for k in r.coordinate_conversion.domain_ancillaries().values()
                           if k is not None)
            vcr.append([d, co, terms])
    return {"cons": sorted(multiset), "vcr": sorted(vcr), "gms": sorted(gms)}


# --------------------------------------------------------------------------
# raw view of the written file
# --------------------------------------------------------------------------
REF_ATTRS = ("coordinates", "cell_measures", "ancillary_variables", "grid_mapping", "formula_terms",
             "bounds", "climatology", "nodes", "geometry")


def names_in(attr, value):
    toks = str(value).split()
    if attr in ("cell_measures", "formula_terms"):
        return [t for t in toks if not t.endswith(":")]
    if attr == "grid_mapping":
        return [t.rstrip(":") for t in toks]
    return toks


def raw_view(path, sks):
    nc = netCDF4.Dataset(path, "r")
    try:
        variables = nc.variables
        atts = {n: {a: v.getncattr(a) for a in v.ncattrs()} for n, v in variables.items()}
        dims = {n: list(v.dimensions) for n, v in variables.items()}
        byfid = {}
        for n, a in atts.items():
            if "fid" in a:
                byfid.setdefault(int(a["fid"]), []).append(n)

        def ltok(n):
            ln = atts[n].get("long_name")
            if not isinstance(ln, str) or not ln.startswith("t"):
                return None
            base = int(ln[1:])
            var = 0
            if atts[n].get("comment") == "v2":
                var = 2
            elif atts[n].get("units") == "km":
                var = 3
            elif variables[n].size and float(np.ma.getdata(variables[n][...]).flat[-1]) % 1 == 0.5:
                var = 1
            return base * 4 + var

        out = []
        for sk in sks:
            names = byfid.get(sk["id"], [])
            if len(names) != 1:
                out.append({"err": f"{len(names)} data variables carry fid {sk['id']}"})
                continue
            dv = names[0]
            a = atts[dv]
            if sk.get("dom"):
                ddims = str(a.get("dimensions", "")).split()
            else:
                ddims = dims[dv]
            o = {"dv": dv, "dims": ddims, "dim": [], "scalar": [], "aux": [], "anc": [], "meas": [],
                 "fanc": [], "gm": [], "ft": None, "raw_gm": str(a.get("grid_mapping", ""))}
            coords = str(a.get("coordinates", "")).split()
            # a domain variable's dimensions are unordered: recover the axis order by the coordinate variables
            if sk.get("dom"):
                o["dims"] = ddims = order_domain_dims(
                    sk, ddims, dims, ltok,
                    lambda n, i, it: variables[n].size == sk["sizes"][i]
                    and (("bounds" in atts[n]) == (it.get("b") is not None)),
                    lambda d, i: d in nc.dimensions and nc.dimensions[d].size == sk["sizes"][i])

            def find(cands, it, want_dims):
                for n in cands:
                    if n in variables and ltok(n) == it["t"] and dims[n] == want_dims \
                            and (("bounds" in atts[n]) == (it.get("b") is not None)):
                        return n
                return None

            def bnd(n):
                if n is None:
                    return None
                return atts[n].get("bounds")
            nspan = len(sk["sizes"])
            for i, it in enumerate(sk["dim"]):
                if it is None:
                    continue
                n = ddims[i] if i < len(ddims) and ddims[i] in variables else None
                o["dim"].append([n, bnd(n)])
            for it in sk.get("scalar", []):
                n = find(coords, it, [])
                o["scalar"].append([n, bnd(n)])
            for it in sk["aux"]:
                want = [ddims[x] if x < len(ddims) else "?" for x in it["ax"]]
                n = find(coords, it, want)
                o["aux"].append([n, bnd(n)])
            ft = sk.get("ft")
            terms = {}
            if ft is not None:
                zvar = ddims[ft["z"]] if ft["z"] < len(ddims) else None
                fts = str(atts.get(zvar, {}).get("formula_terms", "")) if zvar in atts else ""
                toks = fts.split()
                terms = {toks[k].rstrip(":"): toks[k + 1] for k in range(0, len(toks) - 1, 2)}
                o["ft"] = fts
            anc_of_term = {}
            if ft is not None:
                for j, ai in enumerate(ft["terms"]):
                    anc_of_term[ai] = terms.get(f"k{j}")
            for ai, it in enumerate(sk["anc"]):
                n = anc_of_term.get(ai)
                o["anc"].append([n, bnd(n)])
            mnames = names_in("cell_measures", a.get("cell_measures", ""))
            for it in sk["meas"]:
                want = [ddims[x] if x < len(ddims) else "?" for x in it["ax"]]
                o["meas"].append([find(mnames, it, want), None])
            fnames = str(a.get("ancillary_variables", "")).split()
            for it in sk["fanc"]:
                want = [ddims[x] if x < len(ddims) else "?" for x in it["ax"]]
                o["fanc"].append([find(fnames, it, want), None])
            gnames = [n for n in names_in("grid_mapping", a.get("grid_mapping", "")) if n in variables
                      and "grid_mapping_name" in atts[n]]
            used = set()
            for gm in sk.get("gm", []):
                got = None
                for n in gnames:
                    if n in used:
                        continue
                    if int(round(float(atts[n].get("standard_parallel", -1)))) == gm["cc"]:
                        got = n
                        used.add(n)
                        break
                o["gm"].append(got)
            o["gm_extra"] = sorted(n for n in gnames if n not in used)
            out.append(o)
        # which metadata variables are referenced by which data variables
        datavars = {n for ns in byfid.values() for n in ns}
        refs = {}
        for fid, ns in byfid.items():
            for dv in ns:
                todo = [dv]
                seen = set()
                while todo:
                    n = todo.pop()
                    if n in seen or n not in atts:
                        continue
                    seen.add(n)
                    for d in (dims[n] if n != dv or True else []):
                        if d in variables:
                            todo.append(d)
                    if "dimensions" in atts[n] and n == dv:
                        todo += [d for d in str(atts[n]["dimensions"]).split() if d in variables]
                    for k in REF_ATTRS:
                        if k in atts[n]:
                            todo += [x for x in names_in(k, atts[n][k]) if x in variables]
                for n in seen:
                    if n not in datavars:
                        refs.setdefault(n, []).append(fid)
        return out, {n: sorted(v) for n, v in refs.items()}, len(variables)
    finally:
        nc.close()


def raw_cview(path, sks):
    """compressed fields: per field the compression variable its data variable uses, the dimensions that
    variable refers to (compress / its own dimension / instance_dimension), and the dimensions the field's
    own coordinate variables live on"""
    nc = netCDF4.Dataset(path, "r")
    try:
        variables = nc.variables
        atts = {n: {a: v.getncattr(a) for a in v.ncattrs()} for n, v in variables.items()}
        dims = {n: list(v.dimensions) for n, v in variables.items()}

        def ltok(n):
            ln = atts[n].get("long_name")
            if not isinstance(ln, str) or not ln.startswith("t"):
                return None
            base = int(ln[1:])
            var = 0
            if atts[n].get("comment") == "v2":
                var = 2
            elif atts[n].get("units") == "km":
                var = 3
            elif variables[n].size and float(np.ma.getdata(variables[n][...]).flat[-1]) % 1 == 0.5:
                var = 1
            return base * 4 + var
        out = []
        for sk in sks:
            dvs = [n for n, a in atts.items() if "fid" in a and int(a["fid"]) == sk["id"]]
            if len(dvs) != 1:
                out.append({"err": f"{len(dvs)} data variables carry fid {sk['id']}"})
                continue
            dv = dvs[0]
            c = sk["cmp"]
            o = {"dv": dv, "ddims": dims[dv]}
            if c["kind"] == "gath":
                cv = [d for d in dims[dv] if d in variables and "compress" in atts[d]]
                o["cvar"] = cv[0] if len(cv) == 1 else None
                o["meaning"] = str(atts[cv[0]]["compress"]).split() if len(cv) == 1 else None
                own = []
                for a in range(c["p"], c["p"] + c["n"]):
                    it = sk["dim"][a]
                    cands = [n for n in variables if dims[n] == [n] and ltok(n) == it["t"]
                             and variables[n].size == sk["sizes"][a]
                             and (("bounds" in atts[n]) == (it.get("b") is not None))]
                    own.append(cands[0] if len(cands) == 1 else None)
                o["own"] = own
            else:
                key = "sample_dimension" if c["kind"] == "cont" else "instance_dimension"
                if c["kind"] == "cont":
                    cv = [n for n in variables if atts[n].get(key) == dims[dv][0]]
                    o["meaning"] = dims[cv[0]] if len(cv) == 1 else None
                else:
                    cv = [n for n in variables if key in atts[n] and dims[n] == dims[dv]]
                    o["meaning"] = [str(atts[cv[0]][key])] if len(cv) == 1 else None
                o["cvar"] = cv[0] if len(cv) == 1 else None
                coords = str(atts[dv].get("coordinates", "")).split()
                own = None
                for it in sk["aux"]:
                    cands = [n for n in coords if n in variables and ltok(n) == it["t"] and len(dims[n]) == 1]
                    if len(cands) == 1:
                        own = dims[cands[0]][0]
                        break
                o["own"] = [own]
            out.append(o)
        return out
    finally:
        nc.close()


def raw_gview(path, sks):
    """fields with gathered data and / or gathered auxiliary coordinates: per gathered item (data first) the
    list variable it is written on, that variable's values and compress attribute, and the dimensions of the
    field's own coordinate variables of the gathered axes"""
    nc = netCDF4.Dataset(path, "r")
    try:
        variables = nc.variables
        atts = {n: {a: v.getncattr(a) for a in v.ncattrs()} for n, v in variables.items()}
        dims = {n: list(v.dimensions) for n, v in variables.items()}

        def ltok0(n):
            ln = atts[n].get("long_name")
            if not isinstance(ln, str) or not ln.startswith("t"):
                return None
            return int(ln[1:]) * 4 + (2 if atts[n].get("comment") == "v2" else 3 if atts[n].get("units") == "km" else 0)

        def own_dims(sk, p, n):
            own = []
            for a in range(p, p + n):
                it = sk["dim"][a]
                if it is None:
                    own.append(None)
                    continue
                cands = [v for v in variables if dims[v] == [v] and variables[v].size == sk["sizes"][a]
                         and ltok0(v) is not None and ltok0(v) // 4 == it["t"] // 4
                         and (ltok0(v) % 4 == it["t"] % 4 or it["t"] % 4 == 1)
                         and (("bounds" in atts[v]) == (it.get("b") is not None))]
                if it["t"] % 4 in (0, 1):
                    cands = [v for v in cands
                             if (float(np.ma.getdata(variables[v][...]).flat[-1]) % 1 == 0.5) == (it["t"] % 4 == 1)]
                own.append(cands[0] if len(cands) == 1 else None)
            return own

        def item(var, sk, lt, p, n):
            lv = [d for d in dims.get(var, []) if d in variables and "compress" in atts[d]]
            o = {"var": var, "dims": dims.get(var), "list": lv[0] if len(lv) == 1 else None, "own": own_dims(sk, p, n)}
            if o["list"] is not None:
                o["meaning"] = str(atts[o["list"]]["compress"]).split()
                o["values"] = [int(x) for x in np.ma.getdata(variables[o["list"]][...]).ravel().tolist()]
            return o
        out = []
        for sk in sks:
            dvs = [n for n, a in atts.items() if "fid" in a and int(a["fid"]) == sk["id"]]
            if len(dvs) != 1:
                out.append({"err": f"{len(dvs)} data variables carry fid {sk['id']}"})
                continue
            dv = dvs[0]
            items = []
            c = sk.get("cmp")
            if c is not None:
                items.append(item(dv, sk, c["t"], c["p"], c["n"]))
            coords = str(atts[dv].get("coordinates", "")).split()
            for it in sk.get("gcons", []):
                cands = [n for n in coords if n in variables and ltok0(n) == it["t"]]
                items.append(item(cands[0], sk, it["lt"], it["p"], it["n"]) if len(cands) == 1
                             else {"var": None, "list": None, "own": []})
            out.append({"dv": dv, "items": items})
        return out
    finally:
        nc.close()


def order_domain_dims(sk, ddims, dims, ltok, fits=lambda n, i, it: True, dfits=lambda d, i: True):
    """axis order of a domain variable, recovered through its coordinate variables"""
    out = []
    left = list(ddims)
    for i, it in enumerate(sk["dim"]):
        got = None
        if it is not None:
            for d in left:
                if d in dims and dims[d] == [d] and ltok(d) == it["t"] and fits(d, i, it):
                    got = d
                    break
        if got is None and left:
            for d in left:
                if d not in dims and dfits(d, i):
                    got = d
                    break
        if got is None and left:
            cands = [d for d in left if dfits(d, i)]
            got = (cands or left)[0]
        if got is not None:
            left.remove(got)
        out.append(got if got is not None else "?")
    return out


# --------------------------------------------------------------------------
def read_all(path, want_domains):
    fields = list(cfdm.read(path))
    doms = list(cfdm.read(path, domain=True)) if want_domains else []
    return fields, doms


def run_case(case, scratch, ci):
    row = {"i": ci}
    sks = case["fields"]
    try:
        objs = [build(sk) for sk in sks]
    except Exception as e:
        row["build_err"] = type(e).__name__ + ": " + str(e)[:300]
        return row
    anydom = any(sk.get("dom") for sk in sks)
    # single-file round trips
    singles = []
    for k, (sk, o) in enumerate(zip(sks, objs)):
        p = os.path.join(scratch, f"c{ci}_s{k}.nc")
        s = {"fp0": None}
        try:
            s["fp_orig"] = fingerprint(o)
            cfdm.write(o, p)
            fs, ds = read_all(p, bool(sk.get("dom")))
            got = ds if sk.get("dom") else fs
            s["n"] = len(got)
            s["equal"] = [bool(h.equals(o)) and bool(o.equals(h)) for h in got]
            s["fps"] = [fingerprint(h) for h in got]
            s["faithful"] = (len(got) == 1 and s["equal"] == [True] and s["fps"][0] == s["fp_orig"])
            if sk.get("ex") is None and sk.get("cmp") is None and not sk.get("gfam"):
                _, _, s["nvars"] = raw_view(p, [sk])
            s["view"] = [token_view(h) for h in got][:1]
        except Exception as e:
            s["exc"] = type(e).__name__ + ": " + str(e)[:300]
            s["faithful"] = False
        singles.append(s)
        try:
            os.remove(p)
        except OSError:
            pass
    row["single"] = [{"faithful": s["faithful"], "n": s.get("n"), "exc": s.get("exc"),
                      "nvars": s.get("nvars"), "view": s.get("view")} for s in singles]
    row["orders"] = []
    for oi, order in enumerate(case["orders"]):
        p = os.path.join(scratch, f"c{ci}_o{oi}.nc")
        r = {"order": order}
        try:
            cfdm.write([objs[k] for k in order], p)
        except Exception as e:
            r["write_exc"] = type(e).__name__ + ": " + str(e)[:300]
            row["orders"].append(r)
            continue
        if any(sk.get("gfam") for sk in sks):
            try:
                r["gfile"] = raw_gview(p, [sks[k] for k in order])
            except Exception as e:
                r["raw_exc"] = type(e).__name__ + ": " + str(e)[:300] + traceback.format_exc()[-400:]
        elif all(sk.get("cmp") is not None and not sk.get("nomodel") for sk in sks):
            try:
                r["cfile"] = raw_cview(p, [sks[k] for k in order])
            except Exception as e:
                r["raw_exc"] = type(e).__name__ + ": " + str(e)[:300] + traceback.format_exc()[-400:]
        elif all(sk.get("ex") is None and sk.get("cmp") is None and not sk.get("nomodel") for sk in sks):
            try:
                fview, refs, nvars = raw_view(p, [sks[k] for k in order])
                r["file"] = fview
                r["refs"] = refs
                r["nvars"] = nvars
            except Exception as e:
                r["raw_exc"] = type(e).__name__ + ": " + str(e)[:300] + traceback.format_exc()[-400:]
        try:
            fs, ds = read_all(p, anydom)
            r["nread"] = [len(fs), len(ds)]
            per = []
            fps_f = [safe_fp(h) for h in fs]
            fps_d = [safe_fp(h) for h in ds]
            for k in order:
                o, sk, s = objs[k], sks[k], singles[k]
                pool, fps = (ds, fps_d) if sk.get("dom") else (fs, fps_f)
                eq = [j for j, h in enumerate(pool) if bool(h.equals(o)) and bool(o.equals(h))]
                same_fp_orig = [j for j, x in enumerate(fps) if x == s.get("fp_orig")]
                single_fp = s["fps"][0] if s.get("fps") and len(s["fps"]) == 1 else None
                same_fp_single = [j for j, x in enumerate(fps) if single_fp is not None and x == single_fp]
                # the read-back construct that came from this original's data variable
                mine = [j for j, h in enumerate(pool) if h.get_property("fid", None) == sk["id"]]
                per.append({"k": k, "n_equal": len(eq), "n_fp_orig": len(same_fp_orig),
                            "n_fp_single": len(same_fp_single), "n_mine": len(mine),
                            "view": token_view(pool[mine[0]]) if len(mine) == 1 else None})
            r["per"] = per
        except Exception as e:
            r["read_exc"] = type(e).__name__ + ": " + str(e)[:300]
        row["orders"].append(r)
        try:
            os.remove(p)
        except OSError:
            pass
    return row


def main():
    import logging
    logging.disable(logging.CRITICAL)
    p = json.load(sys.stdin)
    scratch = p["scratch"]
    os.makedirs(scratch, exist_ok=True)
    base = p.get("base", 0)
    for ci, case in enumerate(p["cases"]):
        try:
            row = run_case(case, scratch, base + ci)
        except Exception as e:  # harness problem, reported as such
            row = {"i": base + ci, "harness_err": type(e).__name__ + ": " + str(e)[:300] + traceback.format_exc()[-600:]}
        row["i"] = ci
        print(json.dumps(row), flush=True)


main()
