"""Drive the real cfdm compression-by-convention code for C06 (PYTHONPATH=<repo>).

stdin : {"scratch": dir, "cases": [case, ...]}
stdout: one JSON line per case, {"i": n, ...observations...}

Array cases  {"k": "contig"|"indexed"|"ic"|"gathered", "shape", "dtype", "cshape",
              "cdata" (flat, None = masked), "count", "index", "list", "cdim", "cdims",
              "idx" (None or per-axis index), "expect" (None or {"shape","flat"}),
              "assign" (None or [flat position, value]), "write": bool}
Field cases  {"k": "compress", "method", "shape", "dtype", "data", "aux", "other",
              "aux2", "bounds": bool, "write": bool}
Only observable behaviour is recorded (arrays, compression type, variables,
equality answers, file contents, exception class).
"""
import json
import os
import sys

import numpy as np

import cfdm

import netCDF4


def errclass(e):
    if isinstance(e, IndexError):
        return "IndexErr"
    if isinstance(e, ValueError):
        return "ValueErr"
    if isinstance(e, TypeError):
        return "TypeErr"
    if isinstance(e, KeyError):
        return "KeyErr"
    return "OtherErr:" + type(e).__name__


def np_dtype(tag):
    return np.dtype(tag)


def to_masked(flat, shape, dtype):
    dt = np_dtype(dtype)
    mask = [v is None for v in flat]
    if dt.kind in "US":
        fill = ""
    else:
        fill = 0
    vals = [fill if v is None else v for v in flat]
    a = np.array(vals, dtype=dt).reshape(shape)
    if any(mask):
        return np.ma.array(a, mask=np.array(mask, dtype=bool).reshape(shape))
    return a


def to_always_masked(flat, shape, dtype):
    a = to_masked(flat, shape, dtype)
    return np.ma.array(a)


def item(v):
    if isinstance(v, (np.floating, float)):
        return float(v)
    if isinstance(v, (np.integer, int)):
        return int(v)
    if isinstance(v, (np.bool_, bool)):
        return int(v)
    if isinstance(v, bytes):
        return v.decode()
    return str(v)


def dump(a):
    """(shape, dtype, flat list with None for missing)."""
    a = np.ma.array(a)
    data = np.ma.getdata(a).reshape(-1)
    mask = np.ma.getmaskarray(a).reshape(-1)
    return {"shape": [int(n) for n in a.shape], "dtype": str(a.dtype),
            "flat": [None if m else item(v) for v, m in zip(data.tolist(), mask.tolist())]}


def scribble(a):
    """Overwrite, in place, an array that the implementation returned: if it is a
    view of internal state, the next read shows the damage."""
    try:
        data = np.ma.getdata(a)
        if data.dtype.kind in "US":
            data[...] = "zz"
        elif data.dtype.kind == "b":
            data[...] = ~data
        else:
            data[...] = 77
        m = getattr(a, "_mask", np.ma.nomask)
        if m is not np.ma.nomask and getattr(m, "shape", ()) == data.shape:
            m[...] = ~m
    except Exception:  # read-only arrays cannot alias anything writable
        pass


ALIAS = []


def dump_s(fn, name):
    """dump(fn()), then scribble over the returned array and read again; a
    difference is recorded under `name` in ALIAS."""
    a = fn()
    rec = dump(a)
    scribble(a)
    rec2 = dump(fn())
    if rec2 != rec:
        ALIAS.append({"what": name, "first": rec, "second": rec2})
    return rec


def guarded(fn):
    try:
        return {"ok": fn()}
    except Exception as e:  # noqa
        return {"err": errclass(e), "msg": str(e)[:200]}


def conv_index(idx):
    out = []
    for ix in idx:
        if ix[0] == "s":
            out.append(slice(ix[1], ix[2], ix[3]))
        elif ix[0] == "i":
            out.append(int(ix[1]))
        else:
            out.append([int(x) for x in ix[1]])
    return tuple(out)


def cdata_of(c):
    """compressed values of an array case: a flat list, or {"arange": n} for 1 .. n"""
    if isinstance(c["cdata"], dict):
        n = int(c["cdata"]["arange"])
        return np.arange(1, n + 1).astype(np_dtype(c["dtype"])).reshape(c["cshape"])
    return to_masked(c["cdata"], c["cshape"], c["dtype"])


def var_array(c, name):
    """the count / index / list values in the integer type of the case"""
    return np.array(c[name], dtype=np.dtype(c.get("vdtype", "i4")))


def build_array(c):
    cdata = cfdm.Data(cdata_of(c))
    shape = tuple(c["shape"])
    k = c["k"]
    if k == "contig":
        return cfdm.RaggedContiguousArray(
            compressed_array=cdata, shape=shape,
            count_variable=cfdm.Count(data=cfdm.Data(var_array(c, "count"))))
    if k == "indexed":
        return cfdm.RaggedIndexedArray(
            compressed_array=cdata, shape=shape,
            index_variable=cfdm.Index(data=cfdm.Data(var_array(c, "index"))))
    if k == "ic":
        return cfdm.RaggedIndexedContiguousArray(
            compressed_array=cdata, shape=shape,
            count_variable=cfdm.Count(data=cfdm.Data(var_array(c, "count"))),
            index_variable=cfdm.Index(data=cfdm.Data(var_array(c, "index"))))
    if k == "gathered":
        return cfdm.GatheredArray(
            compressed_array=cdata, shape=shape,
            compressed_dimensions={int(c["cdim"]): tuple(c["cdims"])},
            list_variable=cfdm.List(data=cfdm.Data(var_array(c, "list"))))
    raise RuntimeError("bad kind")


def write_raw(c, path):
    """The compressed array as a CF-netCDF file made with netCDF4-python only (no cfdm):
    sample data on the sample dimension, count / index / list variable in the integer
    type of the case."""
    k = c["k"]
    shape = c["shape"]
    vdt = c.get("vdtype", "i4")
    data = cdata_of(c)
    nc = netCDF4.Dataset(path, "w", format="NETCDF4")
    try:
        nc.Conventions = "CF-1.11"
        dt = np_dtype(c["dtype"])
        fill = {"i": -99, "u": int(np.iinfo(dt).max) if dt.kind == "u" else None, "f": -9999.0}.get(dt.kind)
        if k == "gathered":
            nl, ncd = len(c["ldims"]), len(c["dims"])
            names = []
            for i, n in enumerate(shape):
                names.append(f"d{i}")
                if not (nl <= i < nl + ncd):
                    nc.createDimension(f"d{i}", n)
            for i in range(nl, nl + ncd):
                nc.createDimension(f"d{i}", shape[i])
            nc.createDimension("gl", len(c["list"]))
            lv = nc.createVariable("gl", vdt, ("gl",))
            lv.compress = " ".join(names[nl:nl + ncd])
            if len(c["list"]):
                lv[:] = var_array(c, "list")
            ddims = tuple(names[:nl]) + ("gl",) + tuple(names[nl + ncd:])
        else:
            nc.featureType = "timeSeriesProfile" if k == "ic" else "timeSeries"
            nc.createDimension("inst", shape[0])
            tnames = []
            for i, n in enumerate(shape[(3 if k == "ic" else 2):]):
                nc.createDimension(f"t{i}", n)
                tnames.append(f"t{i}")
            nc.createDimension("obs", c["cshape"][0])
            if k == "contig":
                cv = nc.createVariable("row_size", vdt, ("inst",))
                cv.sample_dimension = "obs"
                cv[:] = var_array(c, "count")
            elif k == "indexed":
                iv = nc.createVariable("parent", vdt, ("obs",))
                iv.instance_dimension = "inst"
                if len(c["index"]):
                    iv[:] = var_array(c, "index")
            else:
                nc.createDimension("profile", len(c["count"]))
                cv = nc.createVariable("row_size", vdt, ("profile",))
                cv.sample_dimension = "obs"
                iv = nc.createVariable("parent", vdt, ("profile",))
                iv.instance_dimension = "inst"
                if len(c["count"]):
                    cv[:] = var_array(c, "count")
                    iv[:] = var_array(c, "index")
            ddims = ("obs",) + tuple(tnames)
        v = nc.createVariable("tas", dt, ddims, fill_value=fill)
        v.standard_name = "air_temperature"
        if data.size:
            v[...] = data
    finally:
        nc.close()


def read_raw(c, path, row):
    """cfdm.read of the independently written file, with both backends: everything the user
    sees of the field's data"""
    out = {}
    for be in ("netCDF4", "h5netcdf"):
        def r():
            hs = cfdm.read(path, netcdf_backend=be)
            hs = [h for h in hs if h.nc_get_variable(None) == "tas"]
            if len(hs) != 1:
                return {"n": len(hs)}
            d = hs[0].data
            ent = {"n": 1, "ctype": d.get_compression_type(), "array": dump_s(lambda: d.array, f"array of data read with {be}"),
                   "vdtypes": {nm: str(getattr(d, "get_" + nm)().dtype) for nm in ("count", "index", "list")
                               if getattr(d, "get_" + nm)(None) is not None}}
            if c.get("idx") is not None and list(d.shape) == list(c["shape"]):
                ent["sub"] = guarded(lambda: dump(d[conv_index(c["idx"])].array))
            if c.get("expect") is not None and list(d.shape) == list(c["shape"]):
                ex = c["expect"]
                e = cfdm.Data(to_always_masked(ex["flat"], ex["shape"], c["dtype"]))
                ent["eq"] = guarded(lambda: [bool(d.equals(e, ignore_fill_value=True)), bool(e.equals(d, ignore_fill_value=True))])
                if ex.get("perturbed") is not None:
                    p = cfdm.Data(to_always_masked(ex["perturbed"], ex["shape"], c["dtype"]))
                    ent["eq_p"] = guarded(lambda: [bool(d.equals(p, ignore_fill_value=True)), bool(p.equals(d, ignore_fill_value=True))])
            ent["ctype_after"] = d.get_compression_type()
            u = d.uncompress()
            ent["uncompress"] = {"ctype_u": u.get_compression_type(), "a": dump(u.array), "ctype_d": d.get_compression_type()}
            if c.get("assign") is not None and list(d.shape) == list(c["shape"]):
                pos, value = c["assign"]

                def asg():
                    e = d.copy()
                    mi = np.unravel_index(pos, d.shape)
                    e[tuple(int(x) for x in mi)] = cfdm.masked if value is None else value
                    return {"ctype_e": e.get_compression_type(), "a": dump(e.array),
                            "ctype_d": d.get_compression_type(), "d": dump(d.array)}
                ent["assign"] = guarded(asg)
            return ent
        out[be] = guarded(r)
    row["rawread"] = out


def anc_arrays(d):
    out = {}
    for name in ("count", "index", "list"):
        try:
            v = getattr(d, "get_" + name)(None)
        except Exception:
            v = None
        if v is not None:
            rec = dump_s(lambda: v.data.array, name + " variable")
            out[name] = [None if x is None else int(x) for x in rec["flat"]]
    return out


def raw_file(path):
    """Everything in a flat netCDF file, with netCDF4-python, no masking/scaling."""
    out = {"dims": {}, "vars": {}, "gattrs": {}}
    nc = netCDF4.Dataset(path, "r")
    try:
        nc.set_auto_maskandscale(False)
        for name, dim in nc.dimensions.items():
            out["dims"][name] = int(dim.size)
        for a in nc.ncattrs():
            out["gattrs"][a] = item(nc.getncattr(a)) if not isinstance(nc.getncattr(a), np.ndarray) else [item(x) for x in nc.getncattr(a)]
        for name, var in nc.variables.items():
            attrs = {}
            for a in var.ncattrs():
                v = var.getncattr(a)
                attrs[a] = [item(x) for x in v.reshape(-1)] if isinstance(v, np.ndarray) else item(v)
            arr = var[...]
            if var.dtype is str or getattr(var.dtype, "kind", "") in "SU":
                if getattr(var.dtype, "kind", "") == "S" and arr.ndim >= 1 and var.dtype.itemsize == 1:
                    arr = netCDF4.chartostring(arr)
                flat = [item(x) for x in np.array(arr).reshape(-1).tolist()]
            else:
                flat = [item(x) for x in np.array(arr).reshape(-1).tolist()]
            mflat = None
            if getattr(var.dtype, "kind", "") in "iuf":
                # the same values as netCDF4-python masks them (_FillValue,
                # missing_value, default fill value)
                var.set_auto_mask(True)
                mflat = dump(var[...])["flat"]
                var.set_auto_mask(False)
            out["vars"][name] = {"dims": list(var.dimensions), "attrs": attrs,
                                 "dtype": str(var.dtype), "shape": [int(n) for n in var.shape],
                                 "flat": flat, "mflat": mflat}
    finally:
        nc.close()
    return out


def write_and_read(f, path, row, idx=None, shape=None):
    def w():
        cfdm.write(f, path)
        return True
    row["write"] = guarded(w)
    if "ok" not in row["write"]:
        return
    row["raw"] = guarded(lambda: raw_file(path))

    def r():
        hs = cfdm.read(path)
        out = {"n": len(hs)}
        if len(hs) == 1:
            h = hs[0]
            out["ctype"] = h.data.get_compression_type()
            out["array"] = dump(h.data.array)
            out["ncvar"] = h.nc_get_variable(None)
            if idx is not None and list(h.data.shape) == list(shape):
                out["sub"] = guarded(lambda: dump(h.data[conv_index(idx)].array))
                out["sub_field"] = guarded(lambda: dump(h[conv_index(idx)].data.array))
                out["ctype_after"] = h.data.get_compression_type()
        return out
    row["reread"] = guarded(r)
    row["reread_all"] = guarded(lambda: reread_all(path))
    try:
        os.remove(path)
    except OSError:
        pass


def field_from_data(data, ftype):
    f = cfdm.Field(properties={"standard_name": "air_temperature", "featureType": ftype})
    f.nc_set_variable("tas")
    axes = []
    for i, n in enumerate(data.shape):
        ax = cfdm.DomainAxis(int(n))
        ax.nc_set_dimension(f"dim{i}")
        axes.append(f.set_construct(ax))
    f.set_data(data, axes=axes)
    return f


def do_array(c, row, scratch):
    def build():
        a = build_array(c)
        return a
    try:
        a = build_array(c)
        d = cfdm.Data(a)
    except Exception as e:  # noqa
        row["build"] = {"err": errclass(e), "msg": str(e)[:200]}
        return
    row["ctype0"] = d.get_compression_type()
    row["shape"] = [int(n) for n in d.shape]
    row["dtype"] = str(d.dtype)
    row["array"] = guarded(lambda: dump_s(lambda: d.array, "Data.array"))
    if c.get("idx") is not None:
        idx = conv_index(c["idx"])

        def sub():
            s = d[idx]
            rec = dump_s(lambda: s.array, "subspace array")
            # the subspace must not share anything with its parent either
            scribble(s.array)
            return {"a": rec, "ctype": s.get_compression_type(),
                    "parent_after": dump(d.array), "again": dump(d[idx].array)}
        row["sub"] = guarded(sub)
    # state after the reads
    row["ctype1"] = d.get_compression_type()
    row["carr1"] = guarded(lambda: dump_s(lambda: d.compressed_array, "Data.compressed_array"))
    row["anc1"] = anc_arrays(d)
    row["caxes"] = guarded(lambda: [int(x) for x in d.get_compressed_axes()])
    if c.get("expect") is not None and "ok" in row["array"]:
        ex = c["expect"]
        e = cfdm.Data(to_always_masked(ex["flat"], ex["shape"], c["dtype"]))
        eq = {}
        eq["d_e"] = guarded(lambda: bool(d.equals(e)))
        eq["e_d"] = guarded(lambda: bool(e.equals(d)))
        if ex.get("perturbed") is not None:
            p = cfdm.Data(to_always_masked(ex["perturbed"], ex["shape"], c["dtype"]))
            eq["d_p"] = guarded(lambda: bool(d.equals(p)))
            eq["p_d"] = guarded(lambda: bool(p.equals(d)))
        row["equals"] = eq
        row["ctype2"] = d.get_compression_type()
    if "ok" in row["array"]:
        def unc():
            u = d.uncompress()
            rec = dump_s(lambda: u.array, "uncompress().array")
            return {"ctype_u": u.get_compression_type(), "a": rec,
                    "ctype_d": d.get_compression_type(), "d_after": dump(d.array)}
        row["uncompress"] = guarded(unc)
    if c.get("assign") is not None and "ok" in row["array"]:
        pos, value = c["assign"]

        def asg():
            e = d.copy()
            mi = np.unravel_index(pos, d.shape)
            e[tuple(int(x) for x in mi)] = cfdm.masked if value is None else value
            return {"ctype_e": e.get_compression_type(), "a": dump(e.array),
                    "ctype_d": d.get_compression_type(), "d": dump(d.array),
                    "carr_d": dump(d.compressed_array)}
        row["assign"] = guarded(asg)
    if c.get("write") and "ok" in row["array"]:
        ftype = "timeSeriesProfile" if c["k"] == "ic" else "timeSeries"
        try:
            f = field_from_data(cfdm.Data(build_array(c)), ftype)
            if c["k"] == "gathered":
                f.del_property("featureType")
        except Exception as e:  # noqa
            row["write"] = {"err": errclass(e), "msg": "field: " + str(e)[:200]}
            return
        write_and_read(f, os.path.join(scratch, f"a{os.getpid()}_{row['i']}.nc"), row, c.get("idx"), c["shape"])
    if c.get("rawfile"):
        path = os.path.join(scratch, f"r{os.getpid()}_{row['i']}.nc")

        def wr():
            write_raw(c, path)
            return True
        row["rawwrite"] = guarded(wr)
        if "ok" in row["rawwrite"]:
            read_raw(c, path, row)
        try:
            os.remove(path)
        except OSError:
            pass


def equals_all(x, y):
    out = {}
    for name, ic in (("default", None), ("ignore", True), ("strict", False)):
        kw = {} if ic is None else {"ignore_compression": ic}
        out[name] = [guarded(lambda: bool(x.equals(y, **kw))), guarded(lambda: bool(y.equals(x, **kw)))]
    return out


def do_pair(c, row, scratch):
    """two compressed arrays: what equals answers at the level of Data, of a construct and of a field"""
    da = cfdm.Data(build_array(c["a"]))
    db = cfdm.Data(build_array(c["b"]))
    row["ctypes"] = [da.get_compression_type(), db.get_compression_type()]
    row["arrays"] = [dump(da.array), dump(db.array)]
    row["carrs"] = [dump(da.compressed_array), dump(db.compressed_array)]
    row["data"] = equals_all(da, db)
    cons = []
    for d in (da, db):
        x = cfdm.FieldAncillary(properties={"long_name": "anc"}, data=d.copy())
        cons.append(x)
    row["construct"] = equals_all(cons[0], cons[1])
    fs = []
    for d, cc in ((da, c["a"]), (db, c["b"])):
        f = field_from_data(d.copy(), "timeSeriesProfile" if cc["k"] == "ic" else "timeSeries")
        aux = cfdm.AuxiliaryCoordinate(properties={"long_name": "aux"}, data=d.copy())
        f.set_construct(aux, axes=list(f.get_data_axes()))
        fs.append(f)
    row["field"] = equals_all(fs[0], fs[1])
    # the same data in the field, the pair only in the metadata construct
    g = fs[0].copy()
    g.auxiliary_coordinate("long_name=aux").set_data(db.copy(), copy=False)
    row["field_aux_only"] = equals_all(fs[0], g)
    row["ctypes_after"] = [da.get_compression_type(), db.get_compression_type()]


def build_field(c, suffix=""):
    """The uncompressed field of a compress case (netCDF names carry `suffix`)."""
    shape = tuple(c["shape"])
    method = c["method"]
    ftype = "timeSeriesProfile" if method == "indexed_contiguous" else "timeSeries"
    arr = to_always_masked(c["data"], shape, c["dtype"])
    f = field_from_data(cfdm.Data(arr), ftype)
    if suffix:
        f.nc_set_variable("tas" + suffix)
        f.set_property("long_name", "field" + suffix)
        for i, ax in enumerate(f.get_data_axes()):
            f.domain_axis(ax).nc_set_dimension(f"dim{i}{suffix}")
    axes = list(f.get_data_axes())
    keys = {}
    if c.get("aux") is not None:
        a = cfdm.AuxiliaryCoordinate(properties={"long_name": "aux0" + suffix},
                                     data=cfdm.Data(to_always_masked(c["aux"], shape, c.get("aux_dtype", "f8"))))
        a.nc_set_variable("aux0" + suffix)
        if c.get("bounds"):
            b = np.ma.array(np.ma.stack([a.data.array, a.data.array + 1], axis=-1))
            a.set_bounds(cfdm.Bounds(data=cfdm.Data(b)))
        keys["aux"] = f.set_construct(a, axes=axes)
    if c.get("other") is not None:
        o = cfdm.FieldAncillary(properties={"long_name": "anc0" + suffix},
                                data=cfdm.Data(to_always_masked(c["other"], shape, c["dtype"])))
        o.nc_set_variable("anc0" + suffix)
        keys["other"] = f.set_construct(o, axes=axes)
    if c.get("aux2") is not None:
        # spans only the leading axes (one value per feature / per profile)
        a2shape = shape[:-1]
        a2 = cfdm.AuxiliaryCoordinate(properties={"long_name": "aux2" + suffix},
                                      data=cfdm.Data(to_always_masked(c["aux2"], a2shape, "f8")))
        a2.nc_set_variable("aux2" + suffix)
        keys["aux2"] = f.set_construct(a2, axes=axes[:-1])
    return f, keys


def reread_all(path):
    """every field of the file: compression type, array, arrays of the named constructs"""
    out = {}
    for h in cfdm.read(path):
        ent = {"ctype": h.data.get_compression_type(), "array": dump(h.data.array), "cons": {}}
        for cc in h.constructs.filter_by_data(todict=True).values():
            nm = cc.nc_get_variable(None)
            if nm is not None:
                ent["cons"][nm] = dump(cc.data.array)
        out[h.nc_get_variable(None)] = ent
    return out


def do_compress(c, row, scratch):
    method = c["method"]
    f, keys = build_field(c)
    f0 = f.copy()
    try:
        g = f.compress(method)
    except Exception as e:  # noqa
        row["compress"] = {"err": errclass(e), "msg": str(e)[:200]}
        return
    row["compress"] = {"ok": True}
    row["ctype"] = g.data.get_compression_type()
    row["anc"] = anc_arrays(g.data)
    row["carr"] = guarded(lambda: dump_s(lambda: g.data.compressed_array, "compressed_array of the compressed field"))
    row["array"] = guarded(lambda: dump_s(lambda: g.data.array, "array of the compressed field"))
    if c.get("idx") is not None:
        idx = conv_index(c["idx"])
        row["sub"] = {"data": guarded(lambda: dump_s(lambda: g.data[idx].array, "subspace of the compressed field's data")),
                      "field": guarded(lambda: dump(g[idx].data.array)),
                      "cons": {name: guarded(lambda: dump(g[idx].construct(key).data.array)) for name, key in keys.items()
                               if name != "aux2"},
                      "ctype_after": g.data.get_compression_type()}
    row["f_unchanged"] = guarded(lambda: bool(f.equals(f0)) and f.data.get_compression_type() == "")
    row["g_eq_f"] = guarded(lambda: bool(g.equals(f0)))
    row["f_eq_g"] = guarded(lambda: bool(f0.equals(g)))
    cons = {}
    for name, key in keys.items():
        cc = g.construct(key)
        ent = {"ctype": cc.data.get_compression_type(),
               "array": guarded(lambda: dump_s(lambda: cc.data.array, f"array of compressed construct {name}"))}
        if cc.data.get_compression_type():
            ent["carr"] = guarded(lambda: dump_s(lambda: cc.data.compressed_array, f"compressed_array of construct {name}"))
        if name == "aux" and c.get("bounds"):
            ent["bounds"] = guarded(lambda: dump_s(lambda: cc.bounds.data.array, "bounds array"))
            ent["bounds_ctype"] = cc.bounds.data.get_compression_type()
            ent["bounds0"] = dump(f0.construct(key).bounds.data.array)
        cons[name] = ent
    row["cons"] = cons

    def unc():
        u = g.uncompress()
        rec = dump_s(lambda: u.data.array, "array of the uncompressed field")
        return {"ctype_u": u.data.get_compression_type(), "a": rec,
                "u_eq_f": bool(u.equals(f0)), "ctype_g": g.data.get_compression_type(),
                "g_after": dump(g.data.array)}
    row["uncompress"] = guarded(unc)
    # after all the reads and the scribbling the compressed field is as it was
    row["g_eq_f_end"] = guarded(lambda: bool(g.equals(f0)))
    row["ctype_end"] = g.data.get_compression_type()
    if c.get("write"):
        write_and_read(g, os.path.join(scratch, f"c{os.getpid()}_{row['i']}.nc"), row, c.get("idx"), c["shape"])
    post = c.get("post")
    if post is not None:
        # a longer history: compress, then assign to the data of the field or of
        # one construct spanning the same axes, then write
        kind, pos, value = post
        v = cfdm.masked if value is None else value
        mi = tuple(int(x) for x in np.unravel_index(pos, tuple(c["shape"])))
        g2 = g.copy()
        pr = {}
        if kind == "data":
            g2.data[mi] = v
        else:
            g2.construct(keys[kind]).data[mi] = v
        pr["ctype_field"] = g2.data.get_compression_type()
        pr["array"] = guarded(lambda: dump(g2.data.array))
        pr["cons"] = {name: {"ctype": g2.construct(key).data.get_compression_type(),
                             "array": guarded(lambda: dump(g2.construct(key).data.array))}
                      for name, key in keys.items()}
        # the field it was copied from is untouched
        pr["orig_ctype"] = g.data.get_compression_type()
        pr["orig_eq"] = guarded(lambda: bool(g.equals(f0)))
        path = os.path.join(scratch, f"p{os.getpid()}_{row['i']}.nc")

        def w():
            cfdm.write(g2, path)
            return True
        pr["write"] = guarded(w)
        if "ok" in pr["write"]:
            pr["raw"] = guarded(lambda: raw_file(path))
            pr["reread"] = guarded(lambda: reread_all(path))
        try:
            os.remove(path)
        except OSError:
            pass
        row["post"] = pr


def do_multi(c, row, scratch):
    """several compressed fields written to ONE file"""
    gs = []
    for n, m in enumerate(c["members"]):
        f, keys = build_field(m, suffix=f"_{n}")
        gs.append(f.compress(m["method"]))
    row["ctypes"] = [g.data.get_compression_type() for g in gs]
    row["arrays"] = [dump(g.data.array) for g in gs]
    path = os.path.join(scratch, f"m{os.getpid()}_{row['i']}.nc")

    def w():
        cfdm.write(gs, path)
        return True
    row["write"] = guarded(w)
    if "ok" in row["write"]:
        row["raw"] = guarded(lambda: raw_file(path))
        row["reread"] = guarded(lambda: reread_all(path))
    try:
        os.remove(path)
    except OSError:
        pass


def main():
    import logging
    logging.getLogger().handlers[:] = [logging.NullHandler()]
    cfdm.log_level("DISABLE")
    p = json.load(sys.stdin)
    scratch = p["scratch"]
    for i, c in enumerate(p["cases"]):
        row = {"i": i}
        try:
            del ALIAS[:]
            if c["k"] == "compress":
                do_compress(c, row, scratch)
            elif c["k"] == "multi":
                do_multi(c, row, scratch)
            elif c["k"] == "pair":
                do_pair(c, row, scratch)
            else:
                do_array(c, row, scratch)
        except Exception as e:  # noqa
            row["driver_error"] = type(e).__name__ + ": " + str(e)[:300]
        row["alias"] = list(ALIAS)
        print(json.dumps(row), flush=True)


main()
