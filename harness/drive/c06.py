"""Drive the real cfdm compression-by-convention code for C06 (PYTHONPATH=<repo>).

stdin : {"scratch": dir, "cases": [case, ...]}
stdout: one JSON line per case, {"i": n, ...observations...}

Array cases  {"k": "contig"|"indexed"|"ic"|"gathered", "shape", "dtype", "cshape",
              "cdata" (flat, None = masked), "count", "index", "list", "cdim", "cdims",
              "idx" (None or per-axis index), "expect" (None or {"shape","flat"}),
              "assign" (None or [flat position, value]), "write": bool}
Field cases  {"k": "compress", "method", "shape", "dtype", "data", "aux", "other",
              "aux2", "bounds": bool, "write": bool}
Only observable behaviour is recorded (arrays, compression type, variables,
equality answers, file contents, exception class).
"""
import json
import os
import sys

import numpy as np

import cfdm

import netCDF4


def errclass(e):
    if isinstance(e, IndexError):
        return "IndexErr"
    if isinstance(e, ValueError):
        return "ValueErr"
    if isinstance(e, TypeError):
        return "TypeErr"
    if isinstance(e, KeyError):
        return "KeyErr"
    return "OtherErr:" + type(e).__name__


def np_dtype(tag):
    return np.dtype(tag)


def to_masked(flat, shape, dtype):
    dt = np_dtype(dtype)
    mask = [v is None for v in flat]
    if dt.kind in "US":
        fill = ""
    else:
        fill = 0
    vals = [fill if v is None else v for v in flat]
    a = np.array(vals, dtype=dt).reshape(shape)
    if any(mask):
        return np.ma.array(a, mask=np.array(mask, dtype=bool).reshape(shape))
    return a


def to_always_masked(flat, shape, dtype):
    a = to_masked(flat, shape, dtype)
    return np.ma.array(a)


def item(v):
    if isinstance(v, (np.floating, float)):
        return float(v)
    if isinstance(v, (np.integer, int)):
        return int(v)
    if isinstance(v, (np.bool_, bool)):
        return int(v)
    if isinstance(v, bytes):
        return v.decode()
    return str(v)


def dump(a):
    """(shape, dtype, flat list with None for missing)."""
    a = np.ma.array(a)
    data = np.ma.getdata(a).reshape(-1)
    mask = np.ma.getmaskarray(a).reshape(-1)
    return {"shape": [int(n) for n in a.shape], "dtype": str(a.dtype),
            "flat": [None if m else item(v) for v, m in zip(data.tolist(), mask.tolist())]}


def guarded(fn):
    try:
        return {"ok": fn()}
    except Exception as e:  # noqa
        return {"err": errclass(e), "msg": str(e)[:200]}


def conv_index(idx):
    out = []
    for ix in idx:
        if ix[0] == "s":
            out.append(slice(ix[1], ix[2], ix[3]))
        elif ix[0] == "i":
            out.append(int(ix[1]))
        else:
            out.append([int(x) for x in ix[1]])
    return tuple(out)


def build_array(c):
    cdata = cfdm.Data(to_masked(c["cdata"], c["cshape"], c["dtype"]))
    shape = tuple(c["shape"])
    k = c["k"]
    if k == "contig":
        return cfdm.RaggedContiguousArray(
            compressed_array=cdata, shape=shape,
            count_variable=cfdm.Count(data=cfdm.Data(np.array(c["count"], dtype="i4"))))
    if k == "indexed":
        return cfdm.RaggedIndexedArray(
            compressed_array=cdata, shape=shape,
            index_variable=cfdm.Index(data=cfdm.Data(np.array(c["index"], dtype="i4"))))
    if k == "ic":
        return cfdm.RaggedIndexedContiguousArray(
            compressed_array=cdata, shape=shape,
            count_variable=cfdm.Count(data=cfdm.Data(np.array(c["count"], dtype="i4"))),
            index_variable=cfdm.Index(data=cfdm.Data(np.array(c["index"], dtype="i4"))))
    if k == "gathered":
        return cfdm.GatheredArray(
            compressed_array=cdata, shape=shape,
            compressed_dimensions={int(c["cdim"]): tuple(c["cdims"])},
            list_variable=cfdm.List(data=cfdm.Data(np.array(c["list"], dtype="i4"))))
    raise RuntimeError("bad kind")


def anc_arrays(d):
    out = {}
    for name in ("count", "index", "list"):
        try:
            v = getattr(d, "get_" + name)(None)
        except Exception:
            v = None
        if v is not None:
            out[name] = [int(x) for x in np.array(v.data.array).reshape(-1).tolist()]
    return out


def raw_file(path):
    """Everything in a flat netCDF file, with netCDF4-python, no masking/scaling."""
    out = {"dims": {}, "vars": {}, "gattrs": {}}
    nc = netCDF4.Dataset(path, "r")
    try:
        nc.set_auto_maskandscale(False)
        for name, dim in nc.dimensions.items():
            out["dims"][name] = int(dim.size)
        for a in nc.ncattrs():
            out["gattrs"][a] = item(nc.getncattr(a)) if not isinstance(nc.getncattr(a), np.ndarray) else [item(x) for x in nc.getncattr(a)]
        for name, var in nc.variables.items():
            attrs = {}
            for a in var.ncattrs():
                v = var.getncattr(a)
                attrs[a] = [item(x) for x in v.reshape(-1)] if isinstance(v, np.ndarray) else item(v)
            arr = var[...]
            if var.dtype is str or getattr(var.dtype, "kind", "") in "SU":
                if getattr(var.dtype, "kind", "") == "S" and arr.ndim >= 1 and var.dtype.itemsize == 1:
                    arr = netCDF4.chartostring(arr)
                flat = [item(x) for x in np.array(arr).reshape(-1).tolist()]
            else:
                flat = [item(x) for x in np.array(arr).reshape(-1).tolist()]
            mflat = None
            if getattr(var.dtype, "kind", "") in "iuf":
                # the same values as netCDF4-python masks them (_FillValue,
                # missing_value, default fill value)
                var.set_auto_mask(True)
                mflat = dump(var[...])["flat"]
                var.set_auto_mask(False)
            out["vars"][name] = {"dims": list(var.dimensions), "attrs": attrs,
                                 "dtype": str(var.dtype), "shape": [int(n) for n in var.shape],
                                 "flat": flat, "mflat": mflat}
    finally:
        nc.close()
    return out


def write_and_read(f, path, row):
    def w():
        cfdm.write(f, path)
        return True
    row["write"] = guarded(w)
    if "ok" not in row["write"]:
        return
    row["raw"] = guarded(lambda: raw_file(path))

    def r():
        hs = cfdm.read(path)
        out = {"n": len(hs)}
        if len(hs) == 1:
            h = hs[0]
            out["ctype"] = h.data.get_compression_type()
            out["array"] = dump(h.data.array)
            out["ncvar"] = h.nc_get_variable(None)
        return out
    row["reread"] = guarded(r)
    try:
        os.remove(path)
    except OSError:
        pass


def field_from_data(data, ftype):
    f = cfdm.Field(properties={"standard_name": "air_temperature", "featureType": ftype})
    f.nc_set_variable("tas")
    axes = []
    for i, n in enumerate(data.shape):
        ax = cfdm.DomainAxis(int(n))
        ax.nc_set_dimension(f"dim{i}")
        axes.append(f.set_construct(ax))
    f.set_data(data, axes=axes)
    return f


def do_array(c, row, scratch):
    def build():
        a = build_array(c)
        return a
    try:
        a = build_array(c)
        d = cfdm.Data(a)
    except Exception as e:  # noqa
        row["build"] = {"err": errclass(e), "msg": str(e)[:200]}
        return
    row["ctype0"] = d.get_compression_type()
    row["shape"] = [int(n) for n in d.shape]
    row["dtype"] = str(d.dtype)
    row["array"] = guarded(lambda: dump(d.array))
    if c.get("idx") is not None:
        idx = conv_index(c["idx"])

        def sub():
            s = d[idx]
            return {"a": dump(s.array), "ctype": s.get_compression_type()}
        row["sub"] = guarded(sub)
    # state after the reads
    row["ctype1"] = d.get_compression_type()
    row["carr1"] = guarded(lambda: dump(d.compressed_array))
    row["anc1"] = anc_arrays(d)
    row["caxes"] = guarded(lambda: [int(x) for x in d.get_compressed_axes()])
    if c.get("expect") is not None and "ok" in row["array"]:
        ex = c["expect"]
        e = cfdm.Data(to_always_masked(ex["flat"], ex["shape"], c["dtype"]))
        eq = {}
        eq["d_e"] = guarded(lambda: bool(d.equals(e)))
        eq["e_d"] = guarded(lambda: bool(e.equals(d)))
        if ex.get("perturbed") is not None:
            p = cfdm.Data(to_always_masked(ex["perturbed"], ex["shape"], c["dtype"]))
            eq["d_p"] = guarded(lambda: bool(d.equals(p)))
            eq["p_d"] = guarded(lambda: bool(p.equals(d)))
        row["equals"] = eq
        row["ctype2"] = d.get_compression_type()
    if "ok" in row["array"]:
        def unc():
            u = d.uncompress()
            return {"ctype_u": u.get_compression_type(), "a": dump(u.array),
                    "ctype_d": d.get_compression_type()}
        row["uncompress"] = guarded(unc)
    if c.get("assign") is not None and "ok" in row["array"]:
        pos, value = c["assign"]

        def asg():
            e = d.copy()
            mi = np.unravel_index(pos, d.shape)
            e[tuple(int(x) for x in mi)] = cfdm.masked if value is None else value
            return {"ctype_e": e.get_compression_type(), "a": dump(e.array),
                    "ctype_d": d.get_compression_type(), "d": dump(d.array),
                    "carr_d": dump(d.compressed_array)}
        row["assign"] = guarded(asg)
    if c.get("write") and "ok" in row["array"]:
        ftype = "timeSeriesProfile" if c["k"] == "ic" else "timeSeries"
        try:
            f = field_from_data(cfdm.Data(build_array(c)), ftype)
            if c["k"] == "gathered":
                f.del_property("featureType")
        except Exception as e:  # noqa
            row["write"] = {"err": errclass(e), "msg": "field: " + str(e)[:200]}
            return
        write_and_read(f, os.path.join(scratch, f"a{os.getpid()}_{row['i']}.nc"), row)


def do_compress(c, row, scratch):
    shape = tuple(c["shape"])
    method = c["method"]
    ftype = "timeSeriesProfile" if method == "indexed_contiguous" else "timeSeries"
    arr = to_always_masked(c["data"], shape, c["dtype"])
    f = field_from_data(cfdm.Data(arr), ftype)
    axes = list(f.get_data_axes())
    keys = {}
    if c.get("aux") is not None:
        a = cfdm.AuxiliaryCoordinate(properties={"long_name": "aux0"},
                                     data=cfdm.Data(to_always_masked(c["aux"], shape, c.get("aux_dtype", "f8"))))
        a.nc_set_variable("aux0")
        if c.get("bounds"):
            b = np.ma.array(np.ma.stack([a.data.array, a.data.array + 1], axis=-1))
            a.set_bounds(cfdm.Bounds(data=cfdm.Data(b)))
        keys["aux"] = f.set_construct(a, axes=axes)
    if c.get("other") is not None:
        o = cfdm.FieldAncillary(properties={"long_name": "anc0"},
                                data=cfdm.Data(to_always_masked(c["other"], shape, c["dtype"])))
        o.nc_set_variable("anc0")
        keys["other"] = f.set_construct(o, axes=axes)
    if c.get("aux2") is not None:
        # spans only the leading axes (one value per feature / per profile)
        a2shape = shape[:-1]
        a2 = cfdm.AuxiliaryCoordinate(properties={"long_name": "aux2"},
                                      data=cfdm.Data(to_always_masked(c["aux2"], a2shape, "f8")))
        a2.nc_set_variable("aux2")
        keys["aux2"] = f.set_construct(a2, axes=axes[:-1])
    f0 = f.copy()
    try:
        g = f.compress(method)
    except Exception as e:  # noqa
        row["compress"] = {"err": errclass(e), "msg": str(e)[:200]}
        return
    row["compress"] = {"ok": True}
    row["ctype"] = g.data.get_compression_type()
    row["anc"] = anc_arrays(g.data)
    row["carr"] = guarded(lambda: dump(g.data.compressed_array))
    row["array"] = guarded(lambda: dump(g.data.array))
    row["f_unchanged"] = guarded(lambda: bool(f.equals(f0)) and f.data.get_compression_type() == "")
    row["g_eq_f"] = guarded(lambda: bool(g.equals(f0)))
    row["f_eq_g"] = guarded(lambda: bool(f0.equals(g)))
    cons = {}
    for name, key in keys.items():
        cc = g.construct(key)
        ent = {"ctype": cc.data.get_compression_type(), "array": guarded(lambda: dump(cc.data.array))}
        if cc.data.get_compression_type():
            ent["carr"] = guarded(lambda: dump(cc.data.compressed_array))
        if name == "aux" and c.get("bounds"):
            ent["bounds"] = guarded(lambda: dump(cc.bounds.data.array))
            ent["bounds_ctype"] = cc.bounds.data.get_compression_type()
            ent["bounds0"] = dump(f0.construct(key).bounds.data.array)
        cons[name] = ent
    row["cons"] = cons

    def unc():
        u = g.uncompress()
        return {"ctype_u": u.data.get_compression_type(), "a": dump(u.data.array),
                "u_eq_f": bool(u.equals(f0)), "ctype_g": g.data.get_compression_type()}
    row["uncompress"] = guarded(unc)
    if c.get("write"):
        write_and_read(g, os.path.join(scratch, f"c{os.getpid()}_{row['i']}.nc"), row)


def main():
    import logging
    logging.getLogger().handlers[:] = [logging.NullHandler()]
    cfdm.log_level("DISABLE")
    p = json.load(sys.stdin)
    scratch = p["scratch"]
    for i, c in enumerate(p["cases"]):
        row = {"i": i}
        try:
            if c["k"] == "compress":
                do_compress(c, row, scratch)
            else:
                do_array(c, row, scratch)
        except Exception as e:  # noqa
            row["driver_error"] = type(e).__name__ + ": " + str(e)[:300]
        print(json.dumps(row), flush=True)


main()
