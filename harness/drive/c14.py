"""Drive the real cfdm geometry code for C14 (runs with PYTHONPATH=<repo>).

stdin : {"dir": scratch, "tag": str, "cases": [case, ...]}
stdout: one JSON line per case (same order), {"i": n, ...}

case kinds
  {"kind": "R", ...}  a geometry container hand-encoded with netCDF4-python from
                      raw variables, read by cfdm.read, optionally written again
                      by cfdm.write and inspected with netCDF4-python
  {"kind": "W", ...}  a field built through the public API from padded cell
                      arrays, written by cfdm.write, inspected with
                      netCDF4-python, and read back by cfdm.read

Only netCDF4-python is used to create / inspect files here; decoding of the raw
variables into cells is done by the caller (harness/props/c14.py).
"""
import json
import logging
import os
import sys

import netCDF4
import numpy as np

import cfdm

VARN = ["x", "y", "z"]
AXIS = ["X", "Y", "Z"]
STDN = ["longitude", "latitude", "altitude"]
UNITS = ["degrees_east", "degrees_north", "m"]
REPN = ["lon", "lat", "alt"]


def exc_class(e):
    n = type(e).__name__
    return n if n in ("ValueError", "IndexError", "TypeError", "KeyError", "RuntimeError") else "Other:" + n


# ---------------------------------------------------------------------------
# hand encoding (netCDF4-python only)
# ---------------------------------------------------------------------------
def encode_file(path, c):
    """Write the raw variables of case c as a CF-1.8 geometry dataset."""
    ds = netCDF4.Dataset(path, "w", format="NETCDF4")
    try:
        ds.Conventions = "CF-1.8"
        nnodes = c["nnodes"]
        nc = c.get("nc")
        pnc = c.get("pnc")
        ring = c.get("ring")
        ds.createDimension("node", nnodes)
        if nc is not None:
            ds.createDimension("instance", len(nc))
            inst = "instance"
        else:
            inst = "node"
        if c.get("time"):
            ds.createDimension("time", 2)
            t = ds.createVariable("time", "f8", ("time",))
            t.standard_name = "time"
            t.units = "days since 2000-01-01"
            t[...] = [0.5, 1.5]
        if pnc is not None:
            ds.createDimension("part", len(pnc))
        if ring is not None and pnc is None:
            ds.createDimension("part", len(ring))
        gc = ds.createVariable("geometry_container", "i4", ())
        gt = c.get("gtype")
        if gt is not None:
            gc.geometry_type = gt
        names = VARN[:c["nvars"]]
        gc.node_coordinates = " ".join(names)
        if nc is not None:
            v = ds.createVariable("node_count", "i4", ("instance",))
            v[...] = np.array(nc, dtype="i4")
            gc.node_count = "node_count"
        if pnc is not None:
            v = ds.createVariable("part_node_count", "i4", ("part",))
            v[...] = np.array(pnc, dtype="i4")
            gc.part_node_count = "part_node_count"
        if ring is not None:
            v = ds.createVariable("interior_ring", "i4", ("part",))
            v[...] = np.array(ring, dtype="i4")
            gc.interior_ring = "interior_ring"
        for k, n in enumerate(names):
            v = ds.createVariable(n, "f8", ("node",))
            v.standard_name = STDN[k]
            v.units = UNITS[k]
            v.axis = AXIS[k]
            v[...] = np.array(c["data"][k], dtype="f8")
        ncells = len(nc) if nc is not None else nnodes
        reps = []
        if c.get("coords"):
            # representative coordinates for the first nrep node variables
            for k in range(min(c["coords"], len(names))):
                v = ds.createVariable(REPN[k], "f8", (inst,))
                v.standard_name = STDN[k]
                v.units = UNITS[k]
                v.nodes = names[k]
                v[...] = np.arange(ncells, dtype="f8") + 100 * (k + 1)
                reps.append(REPN[k])
            gc.coordinates = " ".join(reps)
        dims = (inst, "time") if c.get("time") else (inst,)
        pr = ds.createVariable("pr", "f8", dims)
        pr.standard_name = "precipitation_amount"
        pr.units = "kg m-2"
        pr.geometry = "geometry_container"
        if reps:
            pr.coordinates = " ".join(reps)
        pr[...] = np.arange(ncells * (2 if c.get("time") else 1), dtype="f8").reshape(
            (ncells, 2) if c.get("time") else (ncells,))
    finally:
        ds.close()


def tolist(a):
    """numpy (masked) array -> nested list with None for missing; integers where exact."""
    a = np.ma.asarray(a)
    flat = []
    m = np.ma.getmaskarray(a).ravel()
    d = np.ma.getdata(a).ravel()
    for x, mm in zip(d.tolist(), m.tolist()):
        if mm:
            flat.append(None)
        elif isinstance(x, float):
            flat.append(int(x) if x == int(x) else x)
        else:
            flat.append(int(x))
    return {"shape": list(a.shape), "flat": flat}


def observe_field(f):
    """What a user sees of the geometry cells of field f."""
    out = {"coords": [], "nfields": 1}
    out["field_shape"] = list(f.shape)
    for key, c in sorted(f.auxiliary_coordinates(todict=True).items()):
        b = c.get_bounds(None)
        if b is None:
            continue
        o = {"key": key}
        o["bncvar"] = b.nc_get_variable(None)
        o["ncvar"] = c.nc_get_variable(None)
        o["geometry"] = c.get_geometry(None)
        try:
            o["shape"] = list(c.shape)
            o["ndim"] = int(c.ndim)
            o["size"] = int(c.size)
        except Exception as e:  # noqa
            o["shape"] = "EXC:" + exc_class(e)
        o["has_data"] = bool(c.has_data())
        if c.has_data():
            o["data"] = tolist(c.data.array)
        try:
            o["bounds"] = tolist(b.data.array)
        except Exception as e:  # noqa
            o["bounds"] = "EXC:" + exc_class(e)
        ir = c.get_interior_ring(None)
        if ir is None:
            o["ring"] = None
        else:
            try:
                o["ring"] = tolist(ir.data.array)
            except Exception as e:  # noqa
                o["ring"] = "EXC:" + exc_class(e)
        o["has_nc"] = bool(c.has_node_count())
        o["has_pnc"] = bool(c.has_part_node_count())
        # the axis the cells lie on, and its size
        axes = f.get_data_axes(key, default=None)
        if axes is not None:
            o["axis_sizes"] = [int(f.domain_axes(todict=True)[a].get_size()) for a in axes]
        out["coords"].append(o)
    out["coords"].sort(key=lambda o: str(o["bncvar"]))
    return out


def raw_file(path):
    """Raw view of a geometry dataset with netCDF4-python (no cfdm)."""
    ds = netCDF4.Dataset(path, "r")
    ds.set_auto_maskandscale(False)
    try:
        out = {"containers": []}
        seen = set()
        for vn, v in ds.variables.items():
            if "geometry" not in v.ncattrs():
                continue
            gname = v.getncattr("geometry")
            if gname in seen:
                continue
            seen.add(gname)
            if gname not in ds.variables:
                out["containers"].append({"name": gname, "missing": True})
                continue
            gc = ds.variables[gname]
            at = {a: gc.getncattr(a) for a in gc.ncattrs()}
            o = {"name": gname, "datavar": vn, "datavar_dims": list(v.dimensions),
                 "dim_sizes": {d: len(ds.dimensions[d]) for d in ds.dimensions},
                 "gtype": at.get("geometry_type"), "attrs": {k: str(x) for k, x in at.items()}}

            def arr(name):
                if name is None:
                    return None
                if name not in ds.variables:
                    return {"missing": name}
                w = ds.variables[name]
                return {"name": name, "dims": list(w.dimensions), "dtype": str(w.dtype),
                        "values": [int(x) if float(x) == int(x) else float(x) for x in np.asarray(w[...]).ravel().tolist()],
                        "attrs": {a: str(w.getncattr(a)) for a in w.ncattrs()}}

            o["nc"] = arr(at.get("node_count"))
            o["pnc"] = arr(at.get("part_node_count"))
            o["ring"] = arr(at.get("interior_ring"))
            o["nodes"] = [arr(n) for n in str(at.get("node_coordinates", "")).split()]
            reps = []
            for n in str(at.get("coordinates", "")).split():
                if n in ds.variables:
                    w = ds.variables[n]
                    reps.append({"name": n, "dims": list(w.dimensions),
                                 "nodes": w.getncattr("nodes") if "nodes" in w.ncattrs() else None})
            o["reps"] = reps
            out["containers"].append(o)
        return out
    finally:
        ds.close()


def do_R(c, d, tag, i):
    row = {}
    path = os.path.join(d, f"{tag}_{i}_r.nc")
    encode_file(path, c)
    try:
        fs = cfdm.read(path)
    except Exception as e:  # noqa
        row["read_exc"] = exc_class(e) + ":" + str(e)[:200]
        return row
    row["nfields"] = len(fs)
    pr = [f for f in fs if f.nc_get_variable(None) == "pr"]
    if len(pr) != 1:
        row["read_exc"] = "no-pr-field"
        return row
    f = pr[0]
    row["obs"] = observe_field(f)
    row["obs"]["nfields"] = len(fs)
    if c.get("rewrite"):
        path2 = os.path.join(d, f"{tag}_{i}_w.nc")
        try:
            cfdm.write(f, path2)
            row["raw"] = raw_file(path2)
        except Exception as e:  # noqa
            row["write_exc"] = exc_class(e) + ":" + str(e)[:200]
    return row


def masked(nested, dtype):
    a = np.array([[[0 if x is None else x for x in p] for p in cell] for cell in nested], dtype=dtype) \
        if nested and isinstance(nested[0][0], list) else \
        np.array([[0 if x is None else x for x in cell] for cell in nested], dtype=dtype)
    m = np.array([[[x is None for x in p] for p in cell] for cell in nested]) \
        if nested and isinstance(nested[0][0], list) else \
        np.array([[x is None for x in cell] for cell in nested])
    return np.ma.array(a, mask=m)


def build_field(c):
    ncells = len(c["bounds"][0])
    f = cfdm.Field(properties={"standard_name": "precipitation_amount", "units": "kg m-2"})
    f.nc_set_variable("pr")
    ax = f.set_construct(cfdm.DomainAxis(ncells))
    f.set_data(cfdm.Data(np.arange(ncells, dtype="f8")), axes=[ax])
    for k, nested in enumerate(c["bounds"]):
        a = cfdm.AuxiliaryCoordinate(properties={"standard_name": STDN[k], "units": UNITS[k]})
        if c.get("coords") and k < c["coords"]:
            a.set_data(cfdm.Data(np.arange(ncells, dtype="f8") + 100 * (k + 1)))
            a.nc_set_variable(REPN[k])
        b = cfdm.Bounds(properties={"axis": AXIS[k]})
        b.set_data(cfdm.Data(masked(nested, "f8")))
        b.nc_set_variable(VARN[k])
        a.set_bounds(b)
        a.set_geometry(c["gtype"])
        if c.get("ring") is not None:
            ir = cfdm.InteriorRing()
            ir.set_data(cfdm.Data(masked(c["ring"], "i4")))
            a.set_interior_ring(ir)
        f.set_construct(a, axes=[ax])
    return f


def do_W(c, d, tag, i):
    row = {}
    try:
        f = build_field(c)
    except Exception as e:  # noqa
        row["build_exc"] = exc_class(e) + ":" + str(e)[:200]
        return row
    row["obs0"] = observe_field(f)
    path = os.path.join(d, f"{tag}_{i}_w.nc")
    try:
        cfdm.write(f, path)
    except Exception as e:  # noqa
        row["write_exc"] = exc_class(e) + ":" + str(e)[:200]
        return row
    row["raw"] = raw_file(path)
    try:
        fs = cfdm.read(path)
        pr = [g for g in fs if g.nc_get_variable(None) == "pr"]
        row["nfields"] = len(fs)
        if len(pr) == 1:
            row["obs"] = observe_field(pr[0])
            row["obs"]["nfields"] = len(fs)
            try:
                row["equals"] = bool(pr[0].equals(f))
            except Exception as e:  # noqa
                row["equals"] = "EXC:" + exc_class(e)
        else:
            row["read_exc"] = "no-pr-field"
    except Exception as e:  # noqa
        row["read_exc"] = exc_class(e) + ":" + str(e)[:200]
    return row


def main():
    logging.getLogger().handlers[:] = [logging.NullHandler()]
    cfdm.log_level("DISABLE")
    p = json.load(sys.stdin)
    d = p["dir"]
    tag = p.get("tag", "w")
    for i, c in enumerate(p["cases"]):
        try:
            row = do_R(c, d, tag, i) if c["kind"] == "R" else do_W(c, d, tag, i)
        except Exception as e:  # noqa
            row = {"driver_exc": exc_class(e) + ":" + str(e)[:300]}
        row["i"] = i
        print(json.dumps(row), flush=True)
        for suffix in ("r", "w"):
            try:
                os.remove(os.path.join(d, f"{tag}_{i}_{suffix}.nc"))
            except OSError:
                pass


main()
