"""Drive the real cfdm geometry code for C14 (runs with PYTHONPATH=<repo>).

stdin : {"dir": scratch, "tag": str, "cases": [case, ...]}
stdout: one JSON line per case (same order), {"i": n, ...}

case kinds
  {"kind": "R", ...}  a geometry container hand-encoded with netCDF4-python from
                      raw variables, read by cfdm.read, optionally written again
                      by cfdm.write and inspected with netCDF4-python
  {"kind": "W", ...}  a field built through the public API from padded cell
                      arrays, written by cfdm.write, inspected with
                      netCDF4-python, and read back by cfdm.read

Only netCDF4-python is used to create / inspect files here; decoding of the raw
variables into cells is done by the caller (harness/props/c14.py).
"""
import json
import logging
import os
import sys

import netCDF4
import numpy as np

import cfdm

VARN = ["x", "y", "z"]
AXIS = ["X", "Y", "Z"]
STDN = ["longitude", "latitude", "altitude"]
UNITS = ["degrees_east", "degrees_north", "m"]
REPN = ["lon", "lat", "alt"]


def exc_class(e):
    n = type(e).__name__
    return n if n in ("ValueError", "IndexError", "TypeError", "KeyError", "RuntimeError") else "Other:" + n


# ---------------------------------------------------------------------------
# hand encoding (netCDF4-python only)
# ---------------------------------------------------------------------------
def encode_file(path, c):
    """Write the raw variables of case c as a CF-1.8 geometry dataset."""
    ds = netCDF4.Dataset(path, "w", format=c.get("fmt", "NETCDF4"))
    try:
        ds.Conventions = "CF-1.9" if c.get("domain") else "CF-1.8"
        nnodes = c["nnodes"]
        nc = c.get("nc")
        pnc = c.get("pnc")
        ring = c.get("ring")
        ds.createDimension("node", nnodes)
        if nc is not None:
            ds.createDimension("instance", len(nc))
            inst = "instance"
        else:
            inst = "node"
        if c.get("time"):
            ds.createDimension("time", 2)
            t = ds.createVariable("time", "f8", ("time",))
            t.standard_name = "time"
            t.units = "days since 2000-01-01"
            t[...] = [0.5, 1.5]
        if pnc is not None:
            ds.createDimension("part", len(pnc))
        if ring is not None and pnc is None:
            ds.createDimension("part", len(ring))
        gc = ds.createVariable("geometry_container", "i4", ())
        gt = c.get("gtype")
        if gt is not None:
            gc.geometry_type = gt
        names = VARN[:c["nvars"]]
        gc.node_coordinates = " ".join(names)
        if nc is not None:
            v = ds.createVariable("node_count", "i4", ("instance",))
            v[...] = np.array(nc, dtype="i4")
            gc.node_count = "node_count"
        if pnc is not None:
            v = ds.createVariable("part_node_count", "i4", ("part",))
            v[...] = np.array(pnc, dtype="i4")
            gc.part_node_count = "part_node_count"
        if ring is not None:
            rdim = "part"
            if c.get("ring_dim") == "foreign":
                # not CF: the ring variable on a dimension of its own
                ds.createDimension("ring_part", len(ring))
                rdim = "ring_part"
            v = ds.createVariable("interior_ring", "i4", (rdim,))
            v[...] = np.array(ring, dtype="i4")
            gc.interior_ring = "interior_ring"
        for k, n in enumerate(names):
            v = ds.createVariable(n, "f8", ("node",))
            v.standard_name = STDN[k]
            v.units = UNITS[k]
            v.axis = AXIS[k]
            v[...] = np.array(c["data"][k], dtype="f8")
        ncells = len(nc) if nc is not None else nnodes
        reps = []
        if c.get("coords"):
            # representative coordinates for the first nrep node variables
            for k in range(min(c["coords"], len(names))):
                v = ds.createVariable(REPN[k], "f8", (inst,))
                v.standard_name = STDN[k]
                v.units = UNITS[k]
                v.nodes = names[k]
                v[...] = np.arange(ncells, dtype="f8") + 100 * (k + 1)
                reps.append(REPN[k])
            gc.coordinates = " ".join(reps)
        dims = (inst, "time") if c.get("time") else (inst,)
        pr = ds.createVariable("pr", "f8", dims)
        pr.standard_name = "precipitation_amount"
        pr.units = "kg m-2"
        pr.geometry = "geometry_container"
        if reps:
            pr.coordinates = " ".join(reps)
        pr[...] = np.arange(ncells * (2 if c.get("time") else 1), dtype="f8").reshape(
            (ncells, 2) if c.get("time") else (ncells,))
        if c.get("domain"):
            # a CF-1.9 domain variable naming the same container
            dv = ds.createVariable("dom", "i4", ())
            dv.setncattr("dimensions", inst)
            dv.geometry = "geometry_container"
            dv.long_name = "cells only"
            if reps:
                dv.coordinates = " ".join(reps)
    finally:
        ds.close()


def tolist(a):
    """numpy (masked) array -> nested list with None for missing; integers where exact."""
    a = np.ma.asarray(a)
    flat = []
    m = np.ma.getmaskarray(a).ravel()
    d = np.ma.getdata(a).ravel()
    for x, mm in zip(d.tolist(), m.tolist()):
        if mm:
            flat.append(None)
        elif isinstance(x, float):
            flat.append(int(x) if x == int(x) else x)
        else:
            flat.append(int(x))
    return {"shape": list(a.shape), "flat": flat}


def observe_field(f):
    """What a user sees of the geometry cells of field (or domain) f."""
    out = {"coords": [], "nfields": 1}
    try:
        out["field_shape"] = list(f.shape)
    except AttributeError:
        out["field_shape"] = None
    for key, c in sorted(f.auxiliary_coordinates(todict=True).items()):
        b = c.get_bounds(None)
        if b is None:
            continue
        o = {"key": key}
        o["bncvar"] = b.nc_get_variable(None)
        ax = b.get_property("axis", None)
        o["axis"] = str(ax) if ax is not None else None
        o["ncvar"] = c.nc_get_variable(None)
        o["geometry"] = c.get_geometry(None)
        try:
            o["shape"] = list(c.shape)
            o["ndim"] = int(c.ndim)
            o["size"] = int(c.size)
        except Exception as e:  # noqa
            o["shape"] = "EXC:" + exc_class(e)
        o["has_data"] = bool(c.has_data())
        if c.has_data():
            o["data"] = tolist(c.data.array)
        try:
            o["bounds"] = tolist(b.data.array)
        except Exception as e:  # noqa
            o["bounds"] = "EXC:" + exc_class(e)
        ir = c.get_interior_ring(None)
        if ir is None:
            o["ring"] = None
        else:
            try:
                o["ring"] = tolist(ir.data.array)
            except Exception as e:  # noqa
                o["ring"] = "EXC:" + exc_class(e)
        o["has_nc"] = bool(c.has_node_count())
        o["has_pnc"] = bool(c.has_part_node_count())
        # the axis the cells lie on, and its size
        axes = f.get_data_axes(key, default=None)
        if axes is not None:
            o["axis_sizes"] = [int(f.domain_axes(todict=True)[a].get_size()) for a in axes]
        out["coords"].append(o)
    out["coords"].sort(key=lambda o: str(o["bncvar"]))
    return out


def raw_file(path):
    """Raw view of a geometry dataset with netCDF4-python (no cfdm)."""
    ds = netCDF4.Dataset(path, "r")
    ds.set_auto_maskandscale(False)
    try:
        out = {"containers": [], "datavars": {}}
        seen = set()
        for vn, v in ds.variables.items():
            if "geometry" not in v.ncattrs():
                continue
            gname = v.getncattr("geometry")
            out["datavars"][vn] = {"container": gname, "dims": list(v.dimensions)}
            if gname in seen:
                continue
            seen.add(gname)
            if gname not in ds.variables:
                out["containers"].append({"name": gname, "missing": True})
                continue
            gc = ds.variables[gname]
            at = {a: gc.getncattr(a) for a in gc.ncattrs()}
            o = {"name": gname, "datavar": vn, "datavar_dims": list(v.dimensions),
                 "dim_sizes": {d: len(ds.dimensions[d]) for d in ds.dimensions},
                 "gtype": at.get("geometry_type"), "attrs": {k: str(x) for k, x in at.items()}}

            def arr(name):
                if name is None:
                    return None
                if name not in ds.variables:
                    return {"missing": name}
                w = ds.variables[name]
                return {"name": name, "dims": list(w.dimensions), "dtype": str(w.dtype),
                        "values": [int(x) if float(x) == int(x) else float(x) for x in np.asarray(w[...]).ravel().tolist()],
                        "attrs": {a: str(w.getncattr(a)) for a in w.ncattrs()}}

            o["nc"] = arr(at.get("node_count"))
            o["pnc"] = arr(at.get("part_node_count"))
            o["ring"] = arr(at.get("interior_ring"))
            o["nodes"] = [arr(n) for n in str(at.get("node_coordinates", "")).split()]
            reps = []
            for n in str(at.get("coordinates", "")).split():
                if n in ds.variables:
                    w = ds.variables[n]
                    reps.append({"name": n, "dims": list(w.dimensions),
                                 "nodes": w.getncattr("nodes") if "nodes" in w.ncattrs() else None})
            o["reps"] = reps
            out["containers"].append(o)
        return out
    finally:
        ds.close()


def do_R(c, d, tag, i):
    row = {}
    path = os.path.join(d, f"{tag}_{i}_r.nc")
    encode_file(path, c)
    try:
        if c.get("backend"):
            fs = cfdm.read(path, netcdf_backend=c["backend"])
        else:
            fs = cfdm.read(path)
    except Exception as e:  # noqa
        row["read_exc"] = exc_class(e) + ":" + str(e)[:200]
        return row
    row["nfields"] = len(fs)
    pr = [f for f in fs if f.nc_get_variable(None) == "pr"]
    if len(pr) != 1:
        row["read_exc"] = "no-pr-field"
        return row
    f = pr[0]
    row["obs"] = observe_field(f)
    row["obs"]["nfields"] = len(fs)
    if c.get("domain"):
        try:
            ds_ = [d for d in cfdm.read(path, domain=True) if d.nc_get_variable(None) == "dom"]
            row["dobs"] = observe_field(ds_[0]) if len(ds_) == 1 else {"coords": [], "missing": True}
        except Exception as e:  # noqa
            row["dom_exc"] = exc_class(e) + ":" + str(e)[:200]
    if c.get("rewrite"):
        path2 = os.path.join(d, f"{tag}_{i}_w.nc")
        try:
            cfdm.write(f, path2, fmt=c.get("wfmt", "NETCDF4"))
            row["raw"] = raw_file(path2)
        except Exception as e:  # noqa
            row["write_exc"] = exc_class(e) + ":" + str(e)[:200]
    return row


# ---------------------------------------------------------------------------
# several data variables / several containers in one dataset
# ---------------------------------------------------------------------------
def encode_multi(path, c):
    """containers: raw variables + the indices of the instance / node / part dimensions they use
    (containers with equal indices share that netCDF dimension); datavars: which container each data
    variable names and whether it lies on that container's cell dimension ("own") or on another
    dimension of the same size ("other", not CF)."""
    ds = netCDF4.Dataset(path, "w", format="NETCDF4")
    try:
        ds.Conventions = "CF-1.8"
        celldim = []
        for k, g in enumerate(c["containers"]):
            nn = g["nnodes"]
            nd = f"node{g['ndim']}"
            if nd not in ds.dimensions:
                ds.createDimension(nd, nn)
            if g["nc"] is not None:
                idim = f"inst{g['idim']}"
                if idim not in ds.dimensions:
                    ds.createDimension(idim, len(g["nc"]))
            else:
                idim = nd
            celldim.append(idim)
            gc = ds.createVariable(f"gc{k}", "i4", ())
            gc.geometry_type = g["gtype"]
            names = [f"{a}{k}" for a in VARN[:g["nvars"]]]
            gc.node_coordinates = " ".join(names)
            if g["nc"] is not None:
                v = ds.createVariable(f"nc{k}", "i4", (idim,))
                v[...] = np.array(g["nc"], dtype="i4")
                gc.node_count = f"nc{k}"
            if g["pnc"] is not None:
                pd = f"part{g['pdim']}"
                if pd not in ds.dimensions:
                    ds.createDimension(pd, len(g["pnc"]))
                v = ds.createVariable(f"pnc{k}", "i4", (pd,))
                v[...] = np.array(g["pnc"], dtype="i4")
                gc.part_node_count = f"pnc{k}"
                if g["ring"] is not None:
                    v = ds.createVariable(f"ring{k}", "i4", (pd,))
                    v[...] = np.array(g["ring"], dtype="i4")
                    gc.interior_ring = f"ring{k}"
            for j, n in enumerate(names):
                v = ds.createVariable(n, "f8", (nd,))
                v.standard_name = STDN[j]
                v.units = UNITS[j]
                v.axis = AXIS[j]
                v[...] = np.array(g["data"][j], dtype="f8")
            reps = []
            ncells = len(g["nc"]) if g["nc"] is not None else nn
            for j in range(min(g.get("coords") or 0, len(names))):
                v = ds.createVariable(f"{REPN[j]}{k}", "f8", (idim,))
                v.standard_name = STDN[j]
                v.units = UNITS[j]
                v.nodes = names[j]
                v[...] = np.arange(ncells, dtype="f8") + 100 * (j + 1)
                reps.append(f"{REPN[j]}{k}")
            if reps:
                gc.coordinates = " ".join(reps)
            g["_reps"] = reps
            g["_ncells"] = ncells
        for i, d in enumerate(c["datavars"]):
            g = c["containers"][d["container"]]
            dim = celldim[d["container"]]
            if d.get("dim") == "other":
                dim = f"other{i}"
                ds.createDimension(dim, g["_ncells"])
            v = ds.createVariable(f"v{i}", "f8", (dim,))
            v.standard_name = "precipitation_amount"
            v.long_name = f"variable {i}"
            v.units = "kg m-2"
            v.geometry = f"gc{d['container']}"
            coords = list(g["_reps"]) if d.get("dim") != "other" else []
            if d.get("foreign_rep") is not None and d.get("dim") != "other":
                # a representative coordinate variable that belongs to ANOTHER container (its nodes
                # attribute names that container's node coordinates) on the same instance dimension
                coords += c["containers"][d["foreign_rep"]]["_reps"]
            if coords:
                v.coordinates = " ".join(coords)
            v[...] = np.arange(g["_ncells"], dtype="f8") + i
    finally:
        ds.close()


def observe_many(fs, names):
    out = {}
    for f in fs:
        n = f.nc_get_variable(None)
        if n in names:
            out[n] = observe_field(f)
    return out


def do_M(c, d, tag, i):
    row = {}
    path = os.path.join(d, f"{tag}_{i}_r.nc")
    encode_multi(path, c)
    names = [f"v{k}" for k in range(len(c["datavars"]))]
    try:
        fs = cfdm.read(path)
    except Exception as e:  # noqa
        row["read_exc"] = exc_class(e) + ":" + str(e)[:200]
        return row
    row["nfields"] = len(fs)
    row["obs"] = observe_many(fs, names)
    if c.get("rewrite"):
        path2 = os.path.join(d, f"{tag}_{i}_w.nc")
        try:
            keep = sorted((f for f in fs if f.nc_get_variable(None) in names),
                          key=lambda f: f.nc_get_variable())
            cfdm.write(keep, path2)
            row["raw"] = raw_file(path2)
            row["obs2"] = observe_many(cfdm.read(path2), names)
        except Exception as e:  # noqa
            row["write_exc"] = exc_class(e) + ":" + str(e)[:200]
    return row


def do_W2(c, d, tag, i):
    """Several fields built through the API and written to ONE dataset."""
    row = {}
    fields = []
    for k, fc in enumerate(c["fields"]):
        f = build_field(fc)
        f.nc_set_variable(f"v{k}")
        if c.get("share_axis"):
            # an identical dimension coordinate makes the fields share the netCDF instance dimension
            n = len(fc["bounds"][0])
            dc = cfdm.DimensionCoordinate(properties={"long_name": "station"},
                                          data=cfdm.Data(np.arange(n, dtype="f8")))
            dc.nc_set_variable("station")
            f.set_construct(dc, axes=f.get_data_axes())
        fields.append(f)
    names = [f"v{k}" for k in range(len(fields))]
    path = os.path.join(d, f"{tag}_{i}_w.nc")
    try:
        cfdm.write(fields, path)
    except Exception as e:  # noqa
        row["write_exc"] = exc_class(e) + ":" + str(e)[:200]
        return row
    row["raw"] = raw_file(path)
    try:
        row["obs"] = observe_many(cfdm.read(path), names)
    except Exception as e:  # noqa
        row["read_exc"] = exc_class(e) + ":" + str(e)[:200]
    return row


def masked(nested, dtype):
    a = np.array([[[0 if x is None else x for x in p] for p in cell] for cell in nested], dtype=dtype) \
        if nested and isinstance(nested[0][0], list) else \
        np.array([[0 if x is None else x for x in cell] for cell in nested], dtype=dtype)
    m = np.array([[[x is None for x in p] for p in cell] for cell in nested]) \
        if nested and isinstance(nested[0][0], list) else \
        np.array([[x is None for x in cell] for cell in nested])
    return np.ma.array(a, mask=m)


def build_field(c):
    ncells = len(c["bounds"][0])
    f = cfdm.Field(properties={"standard_name": "precipitation_amount", "units": "kg m-2"})
    f.nc_set_variable("pr")
    ax = f.set_construct(cfdm.DomainAxis(ncells))
    f.set_data(cfdm.Data(np.arange(ncells, dtype="f8")), axes=[ax])
    for k, nested in enumerate(c["bounds"]):
        a = cfdm.AuxiliaryCoordinate(properties={"standard_name": STDN[k], "units": UNITS[k]})
        if c.get("coords") and k < c["coords"]:
            a.set_data(cfdm.Data(np.arange(ncells, dtype="f8") + 100 * (k + 1)))
            a.nc_set_variable(REPN[k])
        b = cfdm.Bounds(properties={"axis": AXIS[k]})
        b.set_data(cfdm.Data(masked(nested, "f8")))
        b.nc_set_variable(VARN[k])
        a.set_bounds(b)
        a.set_geometry(c["gtype"])
        if c.get("ring") is not None:
            ir = cfdm.InteriorRing()
            ir.set_data(cfdm.Data(masked(c["ring"], "i4")))
            a.set_interior_ring(ir)
        f.set_construct(a, axes=[ax])
    return f


def do_W(c, d, tag, i):
    row = {}
    try:
        f = build_field(c)
    except Exception as e:  # noqa
        row["build_exc"] = exc_class(e) + ":" + str(e)[:200]
        return row
    row["obs0"] = observe_field(f)
    path = os.path.join(d, f"{tag}_{i}_w.nc")
    try:
        cfdm.write(f, path)
    except Exception as e:  # noqa
        row["write_exc"] = exc_class(e) + ":" + str(e)[:200]
        return row
    row["raw"] = raw_file(path)
    try:
        fs = cfdm.read(path)
        pr = [g for g in fs if g.nc_get_variable(None) == "pr"]
        row["nfields"] = len(fs)
        if len(pr) == 1:
            row["obs"] = observe_field(pr[0])
            row["obs"]["nfields"] = len(fs)
            try:
                row["equals"] = bool(pr[0].equals(f))
            except Exception as e:  # noqa
                row["equals"] = "EXC:" + exc_class(e)
        else:
            row["read_exc"] = "no-pr-field"
    except Exception as e:  # noqa
        row["read_exc"] = exc_class(e) + ":" + str(e)[:200]
    return row


def main():
    logging.getLogger().handlers[:] = [logging.NullHandler()]
    cfdm.log_level("DISABLE")
    p = json.load(sys.stdin)
    d = p["dir"]
    tag = p.get("tag", "w")
    for i, c in enumerate(p["cases"]):
        try:
            row = {"R": do_R, "W": do_W, "M": do_M, "W2": do_W2}[c["kind"]](c, d, tag, i)
        except Exception as e:  # noqa
            row = {"driver_exc": exc_class(e) + ":" + str(e)[:300]}
        row["i"] = i
        print(json.dumps(row), flush=True)
        for suffix in ("r", "w"):
            try:
                os.remove(os.path.join(d, f"{tag}_{i}_{suffix}.nc"))
            except OSError:
                pass


main()
