"""Drive the real cfdm subsampling code for C16 (runs with PYTHONPATH=<repo>).

stdin:  {"cases": [case, ...], "scratch": dir}
case (kind "arr"):  a cfdm.SubsampledArray built directly
    {"kind": "arr", "name": "linear"|"bi_linear"|"quadratic",
     "tp": nested list of numbers, "shape": [...uncompressed, incl. bounds dim],
     "tpi": {"<dim>": [...]}, "w": [...]|null, "wdim": int, "zz": [...]|null (unused parameter),
     "tp_dtype": "f8"|"f4"|"i2"|"i4"|"i8", "w_dtype": ..., "comp_prec": null|"32"|"64",
     "tpi_order": [dims in dict insertion order], "param_order"/"pdim_order": [names in insertion order],
     "ops": [op, ...]}
case (kind "file"): a hand-encoded CF-netCDF file read back with cfdm.read
    {"kind": "file", "name": ..., "dims": [[ncdim, size, subsampled_size|null], ...],
     "tpi": {"<ncdim>": [...]}, "coords": [{"ncvar", "tp", "btp"|null}], "ops": [...]}
op:  {"op": "array"} | {"op": "copy_array"} | {"op": "getitem", "index": [i, ...]} | {"op": "first"} | {"op": "last"}
     | {"op": "tpi"}            (file cases: the tie point indices as read)
     i = int | {"s": [a, b, c]} | {"l": [ints]} | "..."
stdout: one JSON line per case: {"res": [result per op]} where a result is
     {"shape": [...], "vals": [number|null, ...], "dtype": str} or {"err": class name}
"""
import json
import os
import sys

import numpy as np

import cfdm


def conv_index(ix):
    out = []
    for i in ix:
        if isinstance(i, int):
            out.append(i)
        elif i == "...":
            out.append(Ellipsis)
        elif "s" in i:
            out.append(slice(*i["s"]))
        else:
            out.append(list(i["l"]))
    return tuple(out)


def canon(a):
    a = np.ma.asanyarray(a)
    mask = np.ma.getmaskarray(a).ravel().tolist()
    data = np.ma.getdata(a).ravel().tolist()
    vals = [None if m else (float(v) if not isinstance(v, bool) else v) for v, m in zip(data, mask)]
    return {"shape": list(a.shape), "vals": vals, "dtype": str(a.dtype)}


def scribble(a):
    """Overwrite a returned array in place (after it has been recorded): later reads of the
    same object must not see this - a returned array that aliases internal state would."""
    try:
        np.ma.getdata(a)[...] = -12345.0
    except Exception:
        pass


def scalar(x):
    if x is np.ma.masked:
        return {"shape": [], "vals": [None], "dtype": "masked"}
    return {"shape": [], "vals": [float(x)], "dtype": type(x).__name__}


def run_ops(objs, ops):
    """objs: {"c": Data-or-construct for coordinates, "b": for bounds or None}"""
    res = []
    for op in ops:
        tgt = objs.get(op.get("on", "c"))
        try:
            if tgt is None:
                res.append({"err": "NoTarget"})
                continue
            k = op["op"]
            if k == "array":
                a = tgt.array
                res.append(canon(a))
                scribble(a)
            elif k == "getitem":
                a = tgt[conv_index(op["index"])].array
                res.append(canon(a))
                scribble(a)
            elif k == "copy_array":
                a = tgt.copy().array
                res.append(canon(a))
                scribble(a)
            elif k == "first":
                res.append(scalar(tgt.first_element()))
            elif k == "last":
                res.append(scalar(tgt.last_element()))
            else:
                res.append({"err": "BadOp"})
        except Exception as e:  # noqa
            res.append({"err": type(e).__name__, "msg": str(e)[:200]})
    return res


def build_arr(c):
    tp = np.array(c["tp"], dtype=c.get("tp_dtype", "f8"))
    # every dictionary argument is built in the insertion order the case asks for
    pvals = {}
    if c.get("w") is not None:
        pvals["w"] = (np.array(c["w"], dtype=c.get("w_dtype", "f8")), (int(c["wdim"]),))
    if c.get("zz") is not None:
        # an interpolation parameter the method does not use
        pvals["zz"] = (np.array(c["zz"], dtype="f8"), (int(c["wdim"]),))
    porder = [k for k in c.get("param_order", sorted(pvals)) if k in pvals]
    dorder = [k for k in c.get("pdim_order", porder) if k in pvals]
    params = {k: cfdm.InterpolationParameter(data=cfdm.Data(pvals[k][0])) for k in porder}
    pdims = {k: pvals[k][1] for k in dorder}
    torder = [str(d) for d in c.get("tpi_order", sorted(int(k) for k in c["tpi"]))]
    a = cfdm.SubsampledArray(
        interpolation_name=c["name"],
        compressed_array=cfdm.Data(tp),
        shape=tuple(c["shape"]),
        tie_point_indices={int(d): cfdm.TiePointIndex(data=cfdm.Data(np.array(c["tpi"][d], dtype="i4")))
                           for d in torder},
        parameters=params,
        parameter_dimensions=pdims,
        computational_precision=c.get("comp_prec"),
    )
    return cfdm.Data(a)


def build_file(c, path):
    import netCDF4

    nc = netCDF4.Dataset(path, "w")
    nc.Conventions = "CF-1.11"
    data_dims = []
    tp_dims = []
    mapping = []
    for ncdim, size, sub in c["dims"]:
        nc.createDimension(ncdim, size)
        data_dims.append(ncdim)
        if sub is not None:
            nc.createDimension("tp_" + ncdim, sub)
            tp_dims.append("tp_" + ncdim)
            v = nc.createVariable(ncdim + "_indices", "i4", ("tp_" + ncdim,))
            v[:] = np.array(c["tpi"][ncdim], dtype="i4")
            mapping.append(f"{ncdim}: {ncdim}_indices tp_{ncdim}")
        else:
            tp_dims.append(ncdim)
    q = nc.createVariable("q", "f8", tuple(data_dims))
    q[...] = np.zeros([s for _, s, _ in c["dims"]])
    q.standard_name = "air_temperature"
    q.units = "K"
    interp = nc.createVariable("interp", "i4", ())
    interp.interpolation_name = c["name"]
    interp.tie_point_mapping = " ".join(mapping)
    names = []
    for co in c["coords"]:
        dims = tuple(tp_dims[i] for i in co["axes"])
        dt = co.get("dtype", "f8")
        v = nc.createVariable(co["ncvar"], dt, dims)
        v[...] = np.array(co["tp"], dtype=dt)
        v.standard_name = co["standard_name"]
        v.units = co["units"]
        if co.get("btp") is not None:
            b = nc.createVariable(co["ncvar"] + "_bnds", dt, dims)
            b[...] = np.array(co["btp"], dtype=dt)
            v.bounds_tie_points = co["ncvar"] + "_bnds"
        names.append(co["ncvar"] + ":")
    q.coordinate_interpolation = " ".join(names) + " interp"
    nc.close()


def run_file(c, path):
    build_file(c, path)
    fs = cfdm.read(path)
    out = {"nfields": len(fs), "coords": {}}
    if len(fs) != 1:
        return out
    f = fs[0]
    for co in c["coords"]:
        key = "ncvar%" + co["ncvar"]
        x = f.construct(key, default=None)
        if x is None:
            out["coords"][co["ncvar"]] = {"missing": True}
            continue
        objs = {"c": x, "b": x.bounds if x.has_bounds() else None}
        r = {"res": run_ops(objs, c["ops"])}
        # subspace of the construct: bounds follow
        sub = []
        for op in c.get("cops", []):
            try:
                y = x[conv_index(op["index"])]
                sub.append({"c": canon(y.array), "b": canon(y.bounds.array) if y.has_bounds() else None})
            except Exception as e:  # noqa
                sub.append({"err": type(e).__name__, "msg": str(e)[:200]})
        r["sub"] = sub
        try:
            src = x.data.source()
            r["tpi"] = {str(d): np.array(t).tolist() for d, t in src.get_tie_point_indices().items()}
            r["cls"] = type(src).__name__
        except Exception as e:  # noqa
            r["tpi"] = {"err": type(e).__name__}
        out["coords"][co["ncvar"]] = r
    return out


def main():
    payload = json.load(sys.stdin)
    scratch = payload.get("scratch") or "/tmp"
    wid = payload.get("wid", 0)
    for n, c in enumerate(payload["cases"]):
        try:
            if c["kind"] == "arr":
                d = build_arr(c)
                out = {"res": run_ops({"c": d}, c["ops"])}
            else:
                path = os.path.join(scratch, f"c16_{wid}_{n}.nc")
                try:
                    out = run_file(c, path)
                finally:
                    try:
                        os.remove(path)
                    except OSError:
                        pass
        except Exception as e:  # noqa
            out = {"fatal": type(e).__name__, "msg": str(e)[:300]}
        sys.stdout.write(json.dumps(out) + "\n")
        sys.stdout.flush()


if __name__ == "__main__":
    main()
