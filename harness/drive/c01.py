"""Drive cfdm.write / cfdm.read for C01 (PYTHONPATH=/repo).

stdin: {"scratch": dir, "cases": [{"i", "spec"| "example", "domain": bool, "options": {...}}]}
One JSON line per case on stdout:
  {"i", "write_err"|..., "raw": <netCDF4 view of the file>, "n_read", "eq_fg", "eq_gf",
   "fp_before", "fp_after", "names_before", "names_after", "rskel": <skeleton of the read construct>}

A `spec` is an abstract field skeleton (see harness/props/c01.py); the field is built from
it through the public API only.  The fingerprint is computed without cfdm's equals().
"""
import hashlib
import json
import os
import sys

import numpy as np

import cfdm

REF_ATTRS = ("coordinates", "bounds", "climatology", "cell_measures", "ancillary_variables",
             "cell_methods", "grid_mapping", "formula_terms", "dimensions", "geometry",
             "external_variables", "compress", "sample_dimension", "instance_dimension")


KEEP_GROUPS = True     # set per case: False when the write option group=False flattens the dataset

INHERITED_BY_BOUNDS = ("units", "calendar", "standard_name", "axis", "positive", "leap_month", "leap_year", "month_lengths")


# ------------------------------------------------------------------ building
def make_array(shape, dtype, base, mask, delta=None):
    n = int(np.prod(shape)) if shape else 1
    if dtype == "S":
        words = ["a", "bc", "def", "gh", "ijklm", "n", "opq"]
        a = np.array([words[(base + j) % len(words)] + str((base + j) % 3) for j in range(n)]).reshape(shape)
    else:
        a = (np.arange(n) + base % 50) % 100     # stay clear of every default fill value and of i1/u1 overflow
        if dtype.startswith("f"):
            a = a * 0.5
        if delta is not None:
            a[delta % n] += 1                   # "nearly equal" to the array of the same base
        a = a.astype(dtype).reshape(shape)
    if mask and n > 1:
        m = np.zeros(n, dtype=bool)
        m[(base % (n - 1)) + 1 if n > 2 else 1] = True
        a = np.ma.array(a, mask=m.reshape(shape))
    return a


def apply_vp(x, a, vp):
    """Set the validity property described by vp = {"kind", "rel"} on the construct x whose data are `a`, with a value
    chosen relative to the ACTUAL data values (coincide with an extreme / just outside / just inside), cast to the data
    type.  Returns the array a reader must deliver by CF 2.5.1: values outside the valid range, or equal to the
    missing value / _FillValue, are missing data."""
    raw = np.ma.getdata(a)
    m0 = np.ma.getmaskarray(a)
    vals = raw[~m0]
    if a.dtype.kind not in "iuf" or not vals.size:
        return a
    lo, hi = vals.min().item(), vals.max().item()
    step = 1 if a.dtype.kind in "iu" else 0.5
    kind, rel = vp["kind"], vp["rel"]
    down = {"coincide": lo, "outside": lo - step, "inside": lo + step}[rel]
    up = {"coincide": hi, "outside": hi + step, "inside": hi - step}[rel]
    if a.dtype.kind == "u" and down < 0:
        down = lo
    if down > up:
        down, up = lo, hi
    cast = a.dtype.type
    bad = np.zeros(a.shape, dtype=bool)
    if kind == "valid_range":
        x.set_property(kind, np.array([down, up], dtype=a.dtype))
        bad = (raw < cast(down)) | (raw > cast(up))
    elif kind == "valid_min":
        x.set_property(kind, cast(down))
        bad = raw < cast(down)
    elif kind == "valid_max":
        x.set_property(kind, cast(up))
        bad = raw > cast(up)
    elif kind == "valid_min_max":
        x.set_property("valid_min", cast(down))
        x.set_property("valid_max", cast(up))
        bad = (raw < cast(down)) | (raw > cast(up))
    else:   # missing_value, _FillValue
        v = {"coincide": hi, "outside": hi + step, "inside": (lo + 0.25) if a.dtype.kind == "f" else hi + step}[rel]
        x.set_property(kind, cast(v))
        bad = raw == cast(v)
    if not bad.any():
        return a
    return np.ma.array(raw, mask=m0 | bad)


def set_props(x, props):
    for k, v in (props or {}).items():
        if isinstance(v, list):
            v = np.array(v)
        x.set_property(k, v)


def build(spec, expect=False):
    """The construct described by spec.  expect=True: the construct a reader must deliver, i.e. with the elements that
    the construct's own valid_* / missing_value / _FillValue properties declare missing masked."""
    domain = spec.get("kind") == "domain"
    f = cfdm.Field()
    set_props(f, spec.get("props"))
    if spec.get("ncvar") is not None:
        f.nc_set_variable(spec["ncvar"])
    akeys = []
    for a in spec["axes"]:
        d = cfdm.DomainAxis(a["size"])
        if a.get("ncdim") is not None:
            d.nc_set_dimension(a["ncdim"])
        if a.get("unlimited"):
            d.nc_set_unlimited(True)
        akeys.append(f.set_construct(d))
    if spec.get("data") is not None:
        dd = spec["data"]
        shape = [spec["axes"][a]["size"] for a in dd["axes"]]
        arr = make_array(shape, dd["dtype"], dd.get("vbase", 7), dd.get("mask"))
        if dd.get("vp"):
            arrx = apply_vp(f, arr, dd["vp"])
            arr = arrx if expect else arr
        f.set_data(cfdm.Data(arr), axes=[akeys[a] for a in dd["axes"]])
    ckeys = []
    CLS = {"dim": cfdm.DimensionCoordinate, "aux": cfdm.AuxiliaryCoordinate, "measure": cfdm.CellMeasure,
           "fanc": cfdm.FieldAncillary, "danc": cfdm.DomainAncillary}
    for j, c in enumerate(spec["cons"]):
        shape = [spec["axes"][a]["size"] for a in c["axes"]]
        x = CLS[c["type"]]()
        set_props(x, c.get("props"))
        if c.get("ncvar") is not None:
            x.nc_set_variable(c["ncvar"])
        if not c.get("nodata"):
            arr = make_array(shape, c.get("dtype", "f8"), c.get("vbase", 11 * (j + 1)), c.get("mask"), c.get("vdelta"))
            if c.get("vp"):
                arrx = apply_vp(x, arr, c["vp"])
                arr = arrx if expect else arr
            x.set_data(cfdm.Data(arr))
        if c["type"] == "measure":
            x.set_measure(c.get("measure", "area"))
            if c.get("external"):
                x.nc_set_external(True)
        b = c.get("bounds")
        if b:
            ba = make_array(shape + [b["n"]], b.get("dtype", c.get("dtype", "f8")), b.get("vbase", 13 * (j + 1) + 3), False,
                            b.get("vdelta"))
            bb = cfdm.Bounds(data=cfdm.Data(ba))
            set_props(bb, b.get("props"))
            if b.get("ncvar") is not None:
                bb.nc_set_variable(b["ncvar"])
            if b.get("ncdim") is not None:
                bb.nc_set_dimension(b["ncdim"])
            x.set_bounds(bb)
            if c.get("climatology"):
                x.set_climatology(True)
        if c.get("nodata") and not c["axes"]:
            ckeys.append(f.set_construct(x))
        else:
            ckeys.append(f.set_construct(x, axes=[akeys[a] for a in c["axes"]]))
    for cm in spec.get("cms", []):
        axes = [akeys[a] if isinstance(a, int) else a for a in cm["axes"]]
        m = cfdm.CellMethod(axes=axes, method=cm["method"], qualifiers=cm.get("quals") or {})
        f.set_construct(m)
    grp = spec.get("groups") or {}
    if grp.get("field"):
        f.nc_set_variable_groups(grp["field"])
    for j, g_ in (grp.get("cons") or {}).items():
        f.constructs[ckeys[int(j)]].nc_set_variable_groups(g_)
    for r in spec.get("refs", []):
        cr = cfdm.CoordinateReference()
        if r.get("ncvar") is not None:
            cr.nc_set_variable(r["ncvar"])
        cr.set_coordinates([ckeys[k] for k in r["coords"]])
        params = {}
        for k, v in (r.get("params") or {}).items():
            params[k] = np.array(v) if isinstance(v, list) else v
        cr.coordinate_conversion.set_parameters(params)
        if r.get("dancs"):
            cr.coordinate_conversion.set_domain_ancillaries({t: ckeys[k] for t, k in r["dancs"].items()})
        cr.datum.set_parameters(r.get("datum") or {})
        f.set_construct(cr)
    if domain:
        return f.domain
    return f


# ------------------------------------------------------------------ compression by convention (CF 8.2, 9.3)
def cs_layout(cs):
    """(uncompressed shape, compressed shape, position of the compressed dimension) of the data of a compressed case."""
    k = cs["ckind"]
    trail = list(cs.get("trail", []))
    if k == "gathered":
        shape, pos, n = list(cs["shape"]), cs["pos"], cs["k"]
        return shape, shape[:pos] + [len(cs["list"])] + shape[pos + n:], pos
    if k == "contiguous":
        return [len(cs["counts"]), max(cs["counts"])] + trail, [sum(cs["counts"])] + trail, 0
    if k == "indexed":
        per = [cs["index"].count(i) for i in range(cs["ninst"])]
        return [cs["ninst"], max(per)] + trail, [len(cs["index"])] + trail, 0
    per = [cs["pindex"].count(i) for i in range(cs["ninst"])]
    return [cs["ninst"], max(per), max(cs["pcount"])] + trail, [sum(cs["pcount"])] + trail, 0


def cs_uncompress(cs, C, nlead=None):
    """Decoder written from the CF text with numpy only: the uncompressed masked array of the compressed array C.
    nlead: number of leading uncompressed dimensions the variable has (DSG: 2 or 3; fewer for a variable that
    only spans the leading ones)."""
    k = cs["ckind"]
    C = np.ma.asanyarray(C)
    if k == "gathered":
        shape, pos, n = list(cs["shape"]), cs["pos"], cs["k"]
        U = np.ma.masked_all(shape, dtype=C.dtype)
        gshape = shape[pos:pos + n]
        for j, li in enumerate(cs["list"]):
            idx = np.unravel_index(li, gshape)
            U[(slice(None),) * pos + tuple(int(i) for i in idx)] = C[(slice(None),) * pos + (j,)]
        return U
    trail = list(C.shape[1:])
    if k == "contiguous":
        cnt = cs["counts"]
        U = np.ma.masked_all([len(cnt), max(cnt)] + trail, dtype=C.dtype)
        o = 0
        for i, c in enumerate(cnt):
            U[i, :c] = C[o:o + c]
            o += c
        return U
    if k == "indexed":
        per = [cs["index"].count(i) for i in range(cs["ninst"])]
        U = np.ma.masked_all([cs["ninst"], max(per)] + trail, dtype=C.dtype)
        seen = [0] * cs["ninst"]
        for e, i in enumerate(cs["index"]):
            U[i, seen[i]] = C[e]
            seen[i] += 1
        return U
    # indexed contiguous: profile p belongs to station pindex[p] and holds pcount[p] consecutive elements
    per = [cs["pindex"].count(i) for i in range(cs["ninst"])]
    if nlead == 2:
        # a variable with one value per profile: (station, profile)
        U = np.ma.masked_all([cs["ninst"], max(per)] + trail, dtype=C.dtype)
        seen = [0] * cs["ninst"]
        for p_, i in enumerate(cs["pindex"]):
            U[i, seen[i]] = C[p_]
            seen[i] += 1
        return U
    U = np.ma.masked_all([cs["ninst"], max(per), max(cs["pcount"])] + trail, dtype=C.dtype)
    seen = [0] * cs["ninst"]
    o = 0
    for p_, i in enumerate(cs["pindex"]):
        c = cs["pcount"][p_]
        U[i, seen[i], :c] = C[o:o + c]
        o += c
        seen[i] += 1
    return U


def cs_wrap(cs, C, ushape, vars_):
    """cfdm compressed array of the compressed numpy array C (API origin)."""
    k = cs["ckind"]
    cd = cfdm.Data(C)
    if k == "gathered":
        return cfdm.GatheredArray(compressed_array=cd, shape=tuple(ushape), list_variable=vars_["list"],
                                  compressed_dimensions={cs["pos"]: tuple(range(cs["pos"], cs["pos"] + cs["k"]))})
    if k == "contiguous":
        return cfdm.RaggedContiguousArray(compressed_array=cd, shape=tuple(ushape), count_variable=vars_["count"])
    if k == "indexed":
        return cfdm.RaggedIndexedArray(compressed_array=cd, shape=tuple(ushape), index_variable=vars_["index"])
    return cfdm.RaggedIndexedContiguousArray(compressed_array=cd, shape=tuple(ushape), count_variable=vars_["count"],
                                             index_variable=vars_["index"])


FEATURE = {"contiguous": "timeSeries", "indexed": "timeSeries", "indexed_contiguous": "timeSeriesProfile"}


def build_compressed_api(cs):
    k = cs["ckind"]
    nm = cs.get("names") or {}
    ushape, cshape, pos = cs_layout(cs)
    vars_ = {}
    if k == "gathered":
        v = cfdm.List(data=cfdm.Data(np.array(cs["list"], dtype="i4")))
        if nm.get("list"):
            v.nc_set_variable(nm["list"])
        vars_["list"] = v
    if k in ("contiguous", "indexed_contiguous"):
        v = cfdm.Count(data=cfdm.Data(np.array(cs["counts" if k == "contiguous" else "pcount"], dtype="i4")))
        if cs.get("count_props"):
            set_props(v, cs["count_props"])
        if nm.get("count"):
            v.nc_set_variable(nm["count"])
        if nm.get("sample"):
            v.nc_set_sample_dimension(nm["sample"])
        vars_["count"] = v
    if k in ("indexed", "indexed_contiguous"):
        v = cfdm.Index(data=cfdm.Data(np.array(cs["index" if k == "indexed" else "pindex"], dtype="i4")))
        if nm.get("index"):
            v.nc_set_variable(nm["index"])
        if nm.get("sample") and k == "indexed":
            v.nc_set_sample_dimension(nm["sample"])
        vars_["index"] = v
    props = {"standard_name": "air_temperature", "units": "K"}
    if k != "gathered":
        props["featureType"] = FEATURE[k]
    f = cfdm.Field(properties=props)
    if nm.get("data"):
        f.nc_set_variable(nm["data"])
    akeys = []
    for i, n in enumerate(ushape):
        d = cfdm.DomainAxis(n)
        if (nm.get("dims") or {}).get(str(i)):
            d.nc_set_dimension(nm["dims"][str(i)])
        akeys.append(f.set_construct(d))
    C = make_array(cshape, cs["dtype"], 7, cs.get("mask"))
    if cs.get("data_plain"):
        # the data are not compressed; some metadata constructs are (each with its list variable)
        f.set_data(cfdm.Data(make_array(ushape, cs["dtype"], 7, cs.get("mask"))), axes=akeys)
    else:
        f.set_data(cfdm.Data(cs_wrap(cs, C, ushape, vars_)), axes=akeys)
    nlead = len(ushape) - len(cs.get("trail", [])) if k != "gathered" else None
    for j, c in enumerate(cs.get("cons", [])):
        # over: list of axis positions of the uncompressed field; comp: stored compressed like the data
        axes = c["over"]
        shape = [ushape[a] for a in axes]
        CLS = {"dim": cfdm.DimensionCoordinate, "aux": cfdm.AuxiliaryCoordinate, "fanc": cfdm.FieldAncillary}
        x = CLS[c["type"]](properties=dict(c.get("props") or {}))
        if c.get("ncvar"):
            x.nc_set_variable(c["ncvar"])
        if c.get("comp"):
            if k == "gathered":
                sub = dict(cs, shape=shape, pos=axes.index(cs["pos"]))
                vars2 = vars_
                if c.get("list") is not None:
                    # gathered over the same dimensions with a list variable of its own
                    sub["list"] = c["list"]
                    lv = cfdm.List(data=cfdm.Data(np.array(c["list"], dtype="i4")))
                    if c.get("list_name"):
                        lv.nc_set_variable(c["list_name"])
                    vars2 = {"list": lv}
            elif k == "indexed_contiguous" and len(axes) == 2:
                sub = {"ckind": "indexed", "index": cs["pindex"], "ninst": cs["ninst"]}
                vars2 = {"index": vars_["index"]}
            else:
                sub = dict(cs, trail=[])
            ush, csh, _ = cs_layout(sub)
            Cc = make_array(csh, c.get("dtype", "f8"), 11 * (j + 1), c.get("mask"))
            x.set_data(cfdm.Data(cs_wrap(sub, Cc, ush, vars2 if (k == "gathered" or sub["ckind"] != k) else vars_)))
        else:
            x.set_data(cfdm.Data(make_array(shape, c.get("dtype", "f8"), 11 * (j + 1), c.get("mask"))))
        f.set_construct(x, axes=[akeys[a] for a in axes])
    return f


def build_compressed_file(cs, fn):
    """Encode the case by hand with netCDF4-python (no cfdm), and return {netCDF variable name: the uncompressed
    array that CF says it stands for}."""
    import netCDF4
    k = cs["ckind"]
    nm = cs.get("names") or {}
    ushape, cshape, pos = cs_layout(cs)
    nc = netCDF4.Dataset(fn, "w", format=cs.get("file_fmt", "NETCDF4"))
    nc.Conventions = "CF-1.11"
    expected = {}
    udims = []
    for i, n in enumerate(ushape):
        udims.append((nm.get("dims") or {}).get(str(i)) or "d%d" % i)
    trail = cs.get("trail", [])
    fill = {"f4": -999.0, "f8": -999.0, "i4": -999, "i2": -999, "i1": -99}

    def put(name, dims, arr, attrs, dtype=None):
        arr = np.ma.asanyarray(arr)
        dt = dtype or arr.dtype.str[1:]
        fv = fill.get(dt) if np.ma.is_masked(arr) else None
        v = nc.createVariable(name, dt, tuple(dims), fill_value=fv)
        v.set_auto_maskandscale(False)
        for a, val in attrs.items():
            v.setncattr(a, val)
        v[...] = arr.filled(fv) if fv is not None else np.ma.getdata(arr)
        return v

    if k == "gathered":
        p0, n = cs["pos"], cs["k"]
        lname = nm.get("list") or "landpoint"
        for i, sz in enumerate(ushape):
            nc.createDimension(udims[i], sz)
        nc.createDimension(lname, len(cs["list"]))
        put(lname, [lname], np.array(cs["list"], dtype="i4"), {"compress": " ".join(udims[p0:p0 + n])})
        cdims = udims[:p0] + [lname] + udims[p0 + n:]
        sample_dims = None
    else:
        inst = udims[0]
        nc.featureType = FEATURE[k]
        nc.createDimension(inst, ushape[0])
        for i, sz in enumerate(trail):
            nc.createDimension(udims[len(ushape) - len(trail) + i], sz)
        sname = nm.get("sample") or "obs"
        nc.createDimension(sname, cshape[0])
        if k == "contiguous":
            put(nm.get("count") or "row_size", [inst], np.array(cs["counts"], dtype="i4"),
                dict({"sample_dimension": sname}, **(cs.get("count_props") or {})))
        elif k == "indexed":
            put(nm.get("index") or "station_index", [sname], np.array(cs["index"], dtype="i4"), {"instance_dimension": inst})
        else:
            pname = nm.get("profile") or "profile"
            nc.createDimension(pname, len(cs["pcount"]))
            put(nm.get("count") or "row_size", [pname], np.array(cs["pcount"], dtype="i4"), {"sample_dimension": sname})
            put(nm.get("index") or "station_index", [pname], np.array(cs["pindex"], dtype="i4"), {"instance_dimension": inst})
        cdims = [sname] + udims[len(ushape) - len(trail):]
    coords = []
    ancs = []
    for j, c in enumerate(cs.get("cons", [])):
        axes = c["over"]
        shape = [ushape[a] for a in axes]
        name = c.get("ncvar") or "v%d" % j
        attrs = dict(c.get("props") or {})
        if c.get("comp"):
            if k == "gathered":
                sub = dict(cs, shape=shape, pos=axes.index(cs["pos"]))
                ldim = lname
                if c.get("list") is not None and list(c["list"]) == list(cs["list"]) and not c.get("list_name"):
                    sub["list"] = c["list"]          # the same cells as the data: the data's list variable
                elif c.get("list") is not None:
                    # a list variable of its own over the same dimensions
                    sub["list"] = c["list"]
                    ldim = c.get("list_name") or "lp%d" % j
                    nc.createDimension(ldim, len(c["list"]))
                    put(ldim, [ldim], np.array(c["list"], dtype="i4"), {"compress": " ".join(udims[p0:p0 + n])})
                ush, csh, _ = cs_layout(sub)
                vd = [udims[a] for a in axes[:sub["pos"]]] + [ldim] + [udims[a] for a in axes[sub["pos"] + cs["k"]:]]
                nlead = None
            elif k == "indexed_contiguous" and len(axes) == 2:
                sub, csh, vd, nlead = cs, [len(cs["pcount"])], [nm.get("profile") or "profile"], 2
            else:
                sub = dict(cs, trail=[])
                ush, csh, _ = cs_layout(sub)
                vd, nlead = [cdims[0]], None
            Cc = make_array(csh, c.get("dtype", "f8"), 11 * (j + 1), c.get("mask"))
            put(name, vd, Cc, attrs)
            expected[name] = cs_uncompress(sub, Cc, nlead)
        else:
            A = make_array(shape, c.get("dtype", "f8"), 11 * (j + 1), c.get("mask"))
            if c["type"] == "dim":
                name = udims[axes[0]]
            put(name, [udims[a] for a in axes], A, attrs)
            expected[name] = np.ma.asanyarray(A)
        if c["type"] == "aux":
            coords.append(name)
        elif c["type"] == "fanc":
            ancs.append(name)
    C = make_array(cshape, cs["dtype"], 7, cs.get("mask"))
    attrs = {"standard_name": "air_temperature", "units": "K"}
    if coords:
        attrs["coordinates"] = " ".join(coords)
    if ancs:
        attrs["ancillary_variables"] = " ".join(ancs)
    dname = nm.get("data") or "ta"
    if cs.get("data_plain"):
        U = make_array(ushape, cs["dtype"], 7, cs.get("mask"))
        put(dname, udims, U, attrs)
        expected[dname] = np.ma.asanyarray(U)
    else:
        put(dname, cdims, C, attrs)
        expected[dname] = cs_uncompress(cs, C)
    nc.close()
    return expected, dname


def same_array(got, exp):
    got = np.ma.asanyarray(got)
    exp = np.ma.asanyarray(exp)
    if list(got.shape) != list(exp.shape):
        return f"shape {list(got.shape)} != {list(exp.shape)}"
    if got.dtype.name != exp.dtype.name:
        return f"dtype {got.dtype.name} != {exp.dtype.name}"
    if not (np.ma.getmaskarray(got) == np.ma.getmaskarray(exp)).all():
        return "mask differs"
    if not (got.filled(0) == exp.filled(0)).all():
        return "values differ"
    return None


def obtain_compressed(cs, scratch, tag):
    """(f, problems): the compressed field of the case.  Origin 'file': hand-encoded dataset read with cfdm.read;
    every variable is realised and compared with the numpy decoding of the file."""
    if cs.get("origin") != "file":
        return build_compressed_api(cs), []
    fn = os.path.join(scratch, f"c01_{tag}_src.nc")
    expected, dname = build_compressed_file(cs, fn)
    fs = cfdm.read(fn)
    problems = []
    if len(fs) != 1:
        problems.append(f"hand-encoded file read as {len(fs)} fields: {[g.nc_get_variable(None) for g in fs]}")
        return (fs[0] if fs else None), problems
    f = fs[0]
    found = {f.nc_get_variable(None): f}
    for key, x in f.constructs.filter_by_data(todict=True).items():
        found[x.nc_get_variable(None)] = x
    for name, exp in expected.items():
        x = found.get(name)
        if x is None:
            problems.append(f"variable {name} of the hand-encoded file is not a construct of the field read")
            continue
        try:
            why = same_array(x.data.array, exp)
        except Exception as ex:
            why = "realising the data raised " + type(ex).__name__ + ": " + str(ex)[:200]
        if why:
            problems.append(f"{name}: {why}")
    return f, problems


# ------------------------------------------------------------------ fingerprint
def jval(v):
    if isinstance(v, np.ndarray):
        return {"arr": v.tolist(), "dt": str(v.dtype.kind)}
    if isinstance(v, (np.generic,)):
        v = v.item()
    if isinstance(v, bytes):
        v = v.decode()
    if isinstance(v, float) and v != v:
        return "nan"
    return v


def jprops(x):
    return {k: jval(v) for k, v in sorted(x.properties().items()) if k != "Conventions"}


def comp_vars(d):
    out = []
    for kind, get in (("count", "get_count"), ("index", "get_index"), ("list", "get_list")):
        try:
            v = getattr(d, get)(None)
        except Exception:
            v = None
        if v is not None:
            out.append((kind, v))
    return out


def comp_names(d, label):
    """What compressed data carry besides their (uncompressed) values: the kind of compression by convention, the
    properties of the count / index / list variables, and the netCDF names set on them.  Like a set name, each must
    survive; data that were not compressed may come back compressed (geometries are stored as ragged arrays)."""
    out = []
    ct = d.get_compression_type()
    if not ct:
        return out
    out.append([label, "compression", ct])
    for kind, v in comp_vars(d):
        for k, p in sorted(v.properties().items()):
            out.append([label, kind + "property", json.dumps([k, jval(p)], default=str)])
        if v.nc_get_variable(None) is not None:
            out.append([label, kind + "var", v.nc_get_variable()])
        if hasattr(v, "nc_get_sample_dimension") and v.nc_get_sample_dimension(None) is not None:
            out.append([label, kind + "sampledim", v.nc_get_sample_dimension()])
        if hasattr(v, "nc_get_dimension") and v.nc_get_dimension(None) is not None:
            out.append([label, kind + "dim", v.nc_get_dimension()])
    return out


def jdata(x):
    if not x.has_data():
        return None
    d = x.data
    a = d.array
    a = np.ma.asanyarray(a)
    mask = np.ma.getmaskarray(a)
    if a.dtype.kind in "SU":
        vals = [None if m else str(v) for v, m in zip(a.data.ravel().tolist(), mask.ravel().tolist())]
        dt = "str"
    else:
        vals = [None if m else v for v, m in zip(a.data.ravel().tolist(), mask.ravel().tolist())]
        dt = a.dtype.name          # byte order is a storage detail, not part of the data type
    out = {"shape": list(a.shape), "dtype": dt, "vals": vals}
    # the array has been recorded: scribble over it in place, so that an array that aliases the
    # construct's (or the file cache's) internal state shows up on the next read of the same data
    try:
        raw = a.data if isinstance(a, np.ma.MaskedArray) else a
        if raw.flags.writeable and raw.size:
            raw[...] = "zz" if raw.dtype.kind in "SU" else (1 if raw.dtype.kind == "b" else 97)
        if isinstance(a, np.ma.MaskedArray) and a.mask is not np.ma.nomask and a.mask.flags.writeable:
            a.mask[...] = ~a.mask
    except (ValueError, TypeError):
        pass
    u = d.get_units(None)
    if u is not None:
        out["units"] = u
    cal = d.get_calendar(None)
    if cal is not None:
        out["calendar"] = cal
    return out


def h(obj):
    return hashlib.sha1(json.dumps(obj, sort_keys=True, default=str).encode()).hexdigest()[:12]


def content(x, ctype):
    """Name-free content of a metadata construct."""
    c = {"type": ctype, "props": jprops(x), "data": jdata(x)}
    if hasattr(x, "has_bounds") and x.has_bounds():
        b = x.bounds
        # CF: a boundary variable inherits these attributes from its parent coordinate variable; a bounds
        # property that merely repeats the parent's value is the same content as its absence
        bp = {k: v for k, v in jprops(b).items() if not (k in INHERITED_BY_BOUNDS and c["props"].get(k) == v)}
        c["bounds"] = {"props": bp, "data": jdata(b)}
    if hasattr(x, "is_climatology") and x.is_climatology():
        c["climatology"] = True
    if hasattr(x, "get_geometry") and x.get_geometry(None) is not None:
        c["geometry"] = x.get_geometry()
    if hasattr(x, "get_interior_ring") and x.get_interior_ring(None) is not None:
        c["interior_ring"] = jdata(x.get_interior_ring())
    if hasattr(x, "get_measure"):
        c["measure"] = x.get_measure(None)
    return c


def fingerprint(f):
    """(fp, names): fp is a canonical, key-free, name-free description; names the multiset of
    netCDF names that are set, each attached to the content hash of what carries it."""
    is_field = isinstance(f, cfdm.Field)
    cons = f.constructs
    data_axes = list(f.get_data_axes(default=())) if is_field and f.has_data() else []
    axes = cons.filter_by_type("domain_axis", todict=True)
    meta = {}
    for t in ("dimension_coordinate", "auxiliary_coordinate", "cell_measure", "field_ancillary",
              "domain_ancillary", "domain_topology", "cell_connectivity"):
        for k, x in cons.filter_by_type(t, todict=True).items():
            meta[k] = (t, x)
    cda = cons.data_axes()
    chash = {k: h(content(x, t)) for k, (t, x) in meta.items()}
    alabel = {}
    for ak, ax in axes.items():
        spans = sorted((chash[k], list(cda.get(k, ())).index(ak)) for k in meta if ak in cda.get(k, ()))
        alabel[ak] = h({"size": ax.get_size(None), "unlimited": bool(ax.nc_is_unlimited()),
                        "data_pos": [i for i, a in enumerate(data_axes) if a == ak], "spans": spans})
    fp = {"kind": "field" if is_field else "domain", "props": jprops(f),
          "data": jdata(f) if is_field else None,
          "data_axes": [alabel[a] for a in data_axes],
          "axes": sorted(alabel.values()),
          "constructs": sorted([chash[k], [alabel[a] for a in cda.get(k, ())], content(meta[k][1], meta[k][0])]
                               for k in meta)}
    cms = []
    for k, cm in sorted(cons.filter_by_type("cell_method", todict=True).items(), key=lambda kv: int(kv[0][10:])):
        cms.append({"axes": [alabel.get(a, a) for a in cm.get_axes(())], "method": cm.get_method(None),
                    "quals": {q: jval(v) if not hasattr(v, "array") else [jval(x.array) for x in (v if isinstance(v, (list, tuple)) else [v])]
                              for q, v in sorted(cm.qualifiers().items())}})
    for c in cms:
        iv = c["quals"].get("interval")
        if iv is not None:
            c["quals"]["interval"] = json.loads(json.dumps(iv, default=str))
    fp["cell_methods"] = cms
    refs = []
    for k, r in cons.filter_by_type("coordinate_reference", todict=True).items():
        refs.append({"coords": sorted(chash.get(c, "missing:" + str(c)) for c in r.coordinates()),
                     "params": {p: jval(v) for p, v in sorted(r.coordinate_conversion.parameters().items())},
                     "dancs": {t: (chash.get(c) if c is not None else None)
                               for t, c in sorted(r.coordinate_conversion.domain_ancillaries().items())},
                     "datum": {p: jval(v) for p, v in sorted(r.datum.parameters().items())}})
    fp["refs"] = sorted(refs, key=lambda r: json.dumps(r, sort_keys=True, default=str))
    names = []
    if f.nc_get_variable(None) is not None:
        names.append(["self", "var", f.nc_get_variable()])
    if KEEP_GROUPS:
        # the group a netCDF variable lives in is part of its name (cfdm.write(group=True), the default)
        if f.nc_variable_groups():
            names.append(["self", "grp", "/".join(f.nc_variable_groups())])
        for k, (t, x) in meta.items():
            if hasattr(x, "nc_variable_groups") and x.nc_variable_groups():
                names.append([chash[k], "grp", "/".join(x.nc_variable_groups())])
    # the element dimensions of a ragged array are not netCDF dimensions of the dataset (CF 9.3): no name to keep
    element_axes = set()
    if is_field and f.has_data() and f.data.get_compression_type().startswith("ragged"):
        element_axes = {data_axes[i] for i in sorted(f.data.get_compressed_axes())[1:]}
    for ak, ax in axes.items():
        if ax.nc_get_dimension(None) is not None:
            if ak in element_axes:
                continue
            if is_field and ak not in data_axes and ax.get_size(None) == 1:
                continue   # written as a scalar coordinate variable, which has no netCDF dimension
            dc = [x.nc_get_variable(None) for k, (t, x) in meta.items()
                  if t == "dimension_coordinate" and tuple(cda.get(k, ())) == (ak,)]
            if dc and dc[0] is not None and dc[0] != ax.nc_get_dimension():
                continue   # a coordinate variable's name is its dimension's name: netCDF cannot hold both
            names.append([alabel[ak], "dim", ax.nc_get_dimension()])
    if is_field and f.has_data():
        names += comp_names(f.data, "self")
    for k, (t, x) in meta.items():
        if x.has_data():
            names += comp_names(x.data, chash[k])
        if x.nc_get_variable(None) is not None:
            names.append([chash[k], "var", x.nc_get_variable()])
        if hasattr(x, "has_bounds") and x.has_bounds():
            b = x.bounds
            if b.nc_get_variable(None) is not None:
                # (a bounds variable is written to the group of its parent variable: its own group is not a set name)
                names.append([chash[k], "bvar", b.nc_get_variable().split("/")[-1]])
            if b.nc_get_dimension(None) is not None:
                names.append([chash[k], "bdim", b.nc_get_dimension()])
    for k, r in cons.filter_by_type("coordinate_reference", todict=True).items():
        if r.nc_get_variable(None) is not None:
            names.append([h({p: jval(v) for p, v in sorted(r.coordinate_conversion.parameters().items())}), "var",
                          r.nc_get_variable()])
    if not KEEP_GROUPS:
        # group=False flattens the dataset: a variable keeps the last component of its name
        names = [[a, b, n.split("/")[-1]] if b in ("var", "bvar") else [a, b, n] for a, b, n in names]
    return fp, sorted(names)


# ------------------------------------------------------------------ raw view of the file
def raw_view(fn):
    import netCDF4
    nc = netCDF4.Dataset(fn, "r")
    nc.set_auto_maskandscale(False)
    out = {"format": nc.data_model, "dims": {}, "vars": {}, "groups": sorted(nc.groups)}
    for name, d in nc.dimensions.items():
        out["dims"][name] = [len(d), bool(d.isunlimited())]
    for name, v in nc.variables.items():
        attrs = {}
        for a in v.ncattrs():
            if a in REF_ATTRS:
                attrs[a] = str(v.getncattr(a))
        dt = v.dtype
        dts = "str" if dt is str else (np.dtype(dt).kind + str(np.dtype(dt).itemsize))
        e = {"dims": list(v.dimensions), "dtype": dts, "attrs": attrs, "nattrs": len(v.ncattrs())}
        try:
            e["endian"] = v.endian()
            flt = v.filters() or {}
            e["zlib"] = bool(flt.get("zlib"))
            e["complevel"] = int(flt.get("complevel", 0) or 0)
            e["shuffle"] = bool(flt.get("shuffle"))
            e["fletcher32"] = bool(flt.get("fletcher32"))
            ch = v.chunking()
            e["chunking"] = ch if isinstance(ch, str) or ch is None else list(ch)
        except Exception:
            pass
        out["vars"][name] = e
    g = {}
    for a in nc.ncattrs():
        if a in ("external_variables", "Conventions"):
            g[a] = str(nc.getncattr(a))
    out["gattrs"] = g
    nc.close()
    return out


# ------------------------------------------------------------------ skeleton of a read construct
def axis_label(f, ak, cda, meta):
    ax = f.constructs[ak]
    n = ax.nc_get_dimension(None)
    if n is not None:
        return n
    # a size-1 axis without a netCDF dimension: label it by the 1-d coordinate that spans it
    names = sorted(x.nc_get_variable("?") for k, (t, x) in meta.items()
                   if cda.get(k) == (ak,) and t in ("dimension_coordinate", "auxiliary_coordinate"))
    return "@" + (names[0] if names else "?")


def read_skeleton(f):
    is_field = isinstance(f, cfdm.Field)
    cons = f.constructs
    cda = cons.data_axes()
    meta = {}
    for t in ("dimension_coordinate", "auxiliary_coordinate", "cell_measure", "field_ancillary", "domain_ancillary"):
        for k, x in cons.filter_by_type(t, todict=True).items():
            meta[k] = (t, x)
    axes = cons.filter_by_type("domain_axis", todict=True)
    lab = {ak: axis_label(f, ak, cda, meta) for ak in axes}
    out = {"ncvar": f.nc_get_variable(None),
           "data_axes": [lab[a] for a in (f.get_data_axes(default=()) if is_field else [])],
           "axes": sorted([lab[ak], ax.get_size(None), bool(ax.nc_is_unlimited())] for ak, ax in axes.items()),
           "cons": []}
    T = {"dimension_coordinate": "dim", "auxiliary_coordinate": "aux", "cell_measure": "measure",
         "field_ancillary": "fanc", "domain_ancillary": "danc"}
    for k, (t, x) in meta.items():
        b = x.bounds if hasattr(x, "has_bounds") and x.has_bounds() else None
        out["cons"].append({"type": T[t], "ncvar": x.nc_get_variable(None), "axes": [lab[a] for a in cda.get(k, ())],
                            "bounds": None if b is None else b.nc_get_variable(None),
                            "bdim": None if b is None else b.nc_get_dimension(None),
                            "clim": bool(hasattr(x, "is_climatology") and x.is_climatology()),
                            "measure": x.get_measure(None) if t == "cell_measure" else None,
                            "external": bool(x.nc_get_external()) if t == "cell_measure" else False})
    out["cons"].sort(key=lambda c: json.dumps(c, sort_keys=True))
    cms = []
    for k, cm in sorted(cons.filter_by_type("cell_method", todict=True).items(), key=lambda kv: int(kv[0][10:])):
        cms.append({"axes": [lab.get(a, a) for a in cm.get_axes(())], "method": cm.get_method(None)})
    out["cms"] = cms
    return out


# ------------------------------------------------------------------ main
def run_case(c, scratch, n):
    row = {"i": c["i"]}
    try:
        if "example" in c:
            f = cfdm.example_field(c["example"])
            if c.get("domain"):
                f = f.domain
        elif "cs" in c:
            f, pre = obtain_compressed(c["cs"], scratch, f"{os.getpid()}_{n}")
            if pre:
                row["pre_fail"] = pre
            if f is None:
                return row
        else:
            f = build(c["spec"])
    except Exception as ex:
        row["build_err"] = type(ex).__name__ + ": " + str(ex)[:300]
        return row
    # fx: what a reader must deliver.  It is f itself unless f holds unmasked values that its own valid_* /
    # missing_value / _FillValue properties declare missing (CF 2.5.1): those come back masked
    fx = f
    if "spec" in c and c.get("expect_masked"):
        fx = build(c["spec"], expect=True)
    opts = dict(c.get("options") or {})
    global KEEP_GROUPS
    KEEP_GROUPS = opts.get("group", True) is not False
    fn = os.path.join(scratch, f"c01_{os.getpid()}_{n}.nc")
    ext = None
    if opts.pop("external_file", False):
        ext = os.path.join(scratch, f"c01_{os.getpid()}_{n}_ext.nc")
        opts["external"] = ext
    try:
        fp0, names0 = fingerprint(fx)
        fps, namess = (fp0, names0) if fx is f else fingerprint(f)
    except Exception as ex:
        row["harness_err"] = "fingerprint(before): " + type(ex).__name__ + ": " + str(ex)[:300]
        return row
    try:
        cfdm.write(f, fn, **opts)
    except Exception as ex:
        row["write_err"] = type(ex).__name__ + ": " + str(ex)[:300]
        return row
    try:
        row["raw"] = raw_view(fn)
    except Exception as ex:
        row["harness_err"] = "raw_view: " + type(ex).__name__ + ": " + str(ex)[:300]
    try:
        kw = {}
        if c.get("domain") or (c.get("spec") or {}).get("kind") == "domain":
            kw["domain"] = True
        if ext is not None and os.path.exists(ext):
            kw["external"] = ext
        kw.update(c.get("read") or {})
        gs = cfdm.read(fn, **kw)
    except Exception as ex:
        row["read_err"] = type(ex).__name__ + ": " + str(ex)[:300]
        return row
    row["n_read"] = len(gs)
    row["read_ncvars"] = sorted(str(g.nc_get_variable(None)) for g in gs)
    if len(gs) >= 1:
        # the construct that came from the data/domain variable (the first one when unsure)
        g = gs[0]
        try:
            row["eq_fg"] = bool(fx.equals(g))
            row["eq_gf"] = bool(g.equals(fx))
        except Exception as ex:
            row["equals_err"] = type(ex).__name__ + ": " + str(ex)[:300]
        try:
            # realises the data of the field and of every metadata construct, bounds, interior ring read back
            fp1, names1 = fingerprint(g)
        except Exception as ex:
            row["realise_err"] = type(ex).__name__ + ": " + str(ex)[:300]
            fp1 = None
        try:
            if fp1 is None:
                raise StopIteration
            row["fp_equal"] = fp0 == fp1
            if fp0 != fp1:
                diff = [k for k in fp0 if fp0[k] != fp1.get(k)]
                row["fp_diff"] = diff
                row["fp_before"] = {k: fp0[k] for k in diff}
                row["fp_after"] = {k: fp1.get(k) for k in diff}
            miss = list(names0)
            for x in names1:
                if x in miss:
                    miss.remove(x)
            row["names_lost"] = miss
            row["comp"] = [c.compliance if hasattr(c, "compliance") else None for c in ()]
            row["rskel"] = read_skeleton(g)
            # a second look at the construct read (after the arrays of the first look were scribbled over)
            fp2, names2 = fingerprint(g)
            row["read_stable"] = (fp2 == fp1 and names2 == names1)
            row["noncompliance"] = bool(g.dataset_compliance()) if hasattr(g, "dataset_compliance") else False
        except StopIteration:
            pass
        except Exception as ex:
            row["harness_err"] = "fingerprint(after): " + type(ex).__name__ + ": " + str(ex)[:300]
    # source untouched?
    try:
        fp0b, names0b = fingerprint(f)
        row["source_unchanged"] = (fp0b == fps and names0b == namess)
    except Exception:
        pass
    for p in (fn, ext, os.path.join(scratch, f"c01_{os.getpid()}_{n}_src.nc")):
        if p:
            try:
                os.remove(p)
            except OSError:
                pass
    return row


def main():
    p = json.load(sys.stdin)
    for n, c in enumerate(p["cases"]):
        try:
            row = run_case(c, p["scratch"], n)
        except Exception as ex:  # harness-level
            row = {"i": c["i"], "harness_err": type(ex).__name__ + ": " + str(ex)[:300]}
        print(json.dumps(row, default=str), flush=True)


main()
