"""Drive cfdm.write / cfdm.read for C01 (PYTHONPATH=/repo).

stdin: {"scratch": dir, "cases": [{"i", "spec"| "example", "domain": bool, "options": {...}}]}
One JSON line per case on stdout:
  {"i", "write_err"|..., "raw": <netCDF4 view of the file>, "n_read", "eq_fg", "eq_gf",
   "fp_before", "fp_after", "names_before", "names_after", "rskel": <skeleton of the read construct>}

A `spec` is an abstract field skeleton (see harness/props/c01.py); the field is built from
it through the public API only.  The fingerprint is computed without cfdm's equals().
"""
import hashlib
import json
import os
import sys

import numpy as np

import cfdm

REF_ATTRS = ("coordinates", "bounds", "climatology", "cell_measures", "ancillary_variables",
             "cell_methods", "grid_mapping", "formula_terms", "dimensions", "geometry",
             "external_variables")


INHERITED_BY_BOUNDS = ("units", "calendar", "standard_name", "axis", "positive", "leap_month", "leap_year", "month_lengths")


# ------------------------------------------------------------------ building
def make_array(shape, dtype, base, mask):
    n = int(np.prod(shape)) if shape else 1
    if dtype == "S":
        words = ["a", "bc", "def", "gh", "ijklm", "n", "opq"]
        a = np.array([words[(base + j) % len(words)] + str((base + j) % 3) for j in range(n)]).reshape(shape)
    else:
        a = (np.arange(n) + base % 50) % 100     # stay clear of every default fill value and of i1/u1 overflow
        if dtype.startswith("f"):
            a = a * 0.5
        a = a.astype(dtype).reshape(shape)
    if mask and n > 1:
        m = np.zeros(n, dtype=bool)
        m[(base % (n - 1)) + 1 if n > 2 else 1] = True
        a = np.ma.array(a, mask=m.reshape(shape))
    return a


def set_props(x, props):
    for k, v in (props or {}).items():
        if isinstance(v, list):
            v = np.array(v)
        x.set_property(k, v)


def build(spec):
    domain = spec.get("kind") == "domain"
    f = cfdm.Field()
    set_props(f, spec.get("props"))
    if spec.get("ncvar") is not None:
        f.nc_set_variable(spec["ncvar"])
    akeys = []
    for a in spec["axes"]:
        d = cfdm.DomainAxis(a["size"])
        if a.get("ncdim") is not None:
            d.nc_set_dimension(a["ncdim"])
        if a.get("unlimited"):
            d.nc_set_unlimited(True)
        akeys.append(f.set_construct(d))
    if spec.get("data") is not None:
        dd = spec["data"]
        shape = [spec["axes"][a]["size"] for a in dd["axes"]]
        f.set_data(cfdm.Data(make_array(shape, dd["dtype"], 7, dd.get("mask"))), axes=[akeys[a] for a in dd["axes"]])
    ckeys = []
    CLS = {"dim": cfdm.DimensionCoordinate, "aux": cfdm.AuxiliaryCoordinate, "measure": cfdm.CellMeasure,
           "fanc": cfdm.FieldAncillary, "danc": cfdm.DomainAncillary}
    for j, c in enumerate(spec["cons"]):
        shape = [spec["axes"][a]["size"] for a in c["axes"]]
        x = CLS[c["type"]]()
        set_props(x, c.get("props"))
        if c.get("ncvar") is not None:
            x.nc_set_variable(c["ncvar"])
        if not c.get("nodata"):
            x.set_data(cfdm.Data(make_array(shape, c.get("dtype", "f8"), 11 * (j + 1), c.get("mask"))))
        if c["type"] == "measure":
            x.set_measure(c.get("measure", "area"))
            if c.get("external"):
                x.nc_set_external(True)
        b = c.get("bounds")
        if b:
            ba = make_array(shape + [b["n"]], b.get("dtype", c.get("dtype", "f8")), 13 * (j + 1) + 3, False)
            bb = cfdm.Bounds(data=cfdm.Data(ba))
            set_props(bb, b.get("props"))
            if b.get("ncvar") is not None:
                bb.nc_set_variable(b["ncvar"])
            if b.get("ncdim") is not None:
                bb.nc_set_dimension(b["ncdim"])
            x.set_bounds(bb)
            if c.get("climatology"):
                x.set_climatology(True)
        if c.get("nodata") and not c["axes"]:
            ckeys.append(f.set_construct(x))
        else:
            ckeys.append(f.set_construct(x, axes=[akeys[a] for a in c["axes"]]))
    for cm in spec.get("cms", []):
        axes = [akeys[a] if isinstance(a, int) else a for a in cm["axes"]]
        m = cfdm.CellMethod(axes=axes, method=cm["method"], qualifiers=cm.get("quals") or {})
        f.set_construct(m)
    for r in spec.get("refs", []):
        cr = cfdm.CoordinateReference()
        if r.get("ncvar") is not None:
            cr.nc_set_variable(r["ncvar"])
        cr.set_coordinates([ckeys[k] for k in r["coords"]])
        params = {}
        for k, v in (r.get("params") or {}).items():
            params[k] = np.array(v) if isinstance(v, list) else v
        cr.coordinate_conversion.set_parameters(params)
        if r.get("dancs"):
            cr.coordinate_conversion.set_domain_ancillaries({t: ckeys[k] for t, k in r["dancs"].items()})
        cr.datum.set_parameters(r.get("datum") or {})
        f.set_construct(cr)
    if domain:
        return f.domain
    return f


# ------------------------------------------------------------------ fingerprint
def jval(v):
    if isinstance(v, np.ndarray):
        return {"arr": v.tolist(), "dt": str(v.dtype.kind)}
    if isinstance(v, (np.generic,)):
        v = v.item()
    if isinstance(v, bytes):
        v = v.decode()
    if isinstance(v, float) and v != v:
        return "nan"
    return v


def jprops(x):
    return {k: jval(v) for k, v in sorted(x.properties().items()) if k != "Conventions"}


def jdata(x):
    if not x.has_data():
        return None
    d = x.data
    a = d.array
    a = np.ma.asanyarray(a)
    mask = np.ma.getmaskarray(a)
    if a.dtype.kind in "SU":
        vals = [None if m else str(v) for v, m in zip(a.data.ravel().tolist(), mask.ravel().tolist())]
        dt = "str"
    else:
        vals = [None if m else v for v, m in zip(a.data.ravel().tolist(), mask.ravel().tolist())]
        dt = a.dtype.name          # byte order is a storage detail, not part of the data type
    out = {"shape": list(a.shape), "dtype": dt, "vals": vals}
    # the array has been recorded: scribble over it in place, so that an array that aliases the
    # construct's (or the file cache's) internal state shows up on the next read of the same data
    try:
        raw = a.data if isinstance(a, np.ma.MaskedArray) else a
        if raw.flags.writeable and raw.size:
            raw[...] = "zz" if raw.dtype.kind in "SU" else (1 if raw.dtype.kind == "b" else 97)
        if isinstance(a, np.ma.MaskedArray) and a.mask is not np.ma.nomask and a.mask.flags.writeable:
            a.mask[...] = ~a.mask
    except (ValueError, TypeError):
        pass
    u = d.get_units(None)
    if u is not None:
        out["units"] = u
    cal = d.get_calendar(None)
    if cal is not None:
        out["calendar"] = cal
    return out


def h(obj):
    return hashlib.sha1(json.dumps(obj, sort_keys=True, default=str).encode()).hexdigest()[:12]


def content(x, ctype):
    """Name-free content of a metadata construct."""
    c = {"type": ctype, "props": jprops(x), "data": jdata(x)}
    if hasattr(x, "has_bounds") and x.has_bounds():
        b = x.bounds
        # CF: a boundary variable inherits these attributes from its parent coordinate variable; a bounds
        # property that merely repeats the parent's value is the same content as its absence
        bp = {k: v for k, v in jprops(b).items() if not (k in INHERITED_BY_BOUNDS and c["props"].get(k) == v)}
        c["bounds"] = {"props": bp, "data": jdata(b)}
    if hasattr(x, "is_climatology") and x.is_climatology():
        c["climatology"] = True
    if hasattr(x, "get_geometry") and x.get_geometry(None) is not None:
        c["geometry"] = x.get_geometry()
    if hasattr(x, "get_interior_ring") and x.get_interior_ring(None) is not None:
        c["interior_ring"] = jdata(x.get_interior_ring())
    if hasattr(x, "get_measure"):
        c["measure"] = x.get_measure(None)
    return c


def fingerprint(f):
    """(fp, names): fp is a canonical, key-free, name-free description; names the multiset of
    netCDF names that are set, each attached to the content hash of what carries it."""
    is_field = isinstance(f, cfdm.Field)
    cons = f.constructs
    data_axes = list(f.get_data_axes(default=())) if is_field and f.has_data() else []
    axes = cons.filter_by_type("domain_axis", todict=True)
    meta = {}
    for t in ("dimension_coordinate", "auxiliary_coordinate", "cell_measure", "field_ancillary",
              "domain_ancillary", "domain_topology", "cell_connectivity"):
        for k, x in cons.filter_by_type(t, todict=True).items():
            meta[k] = (t, x)
    cda = cons.data_axes()
    chash = {k: h(content(x, t)) for k, (t, x) in meta.items()}
    alabel = {}
    for ak, ax in axes.items():
        spans = sorted((chash[k], list(cda.get(k, ())).index(ak)) for k in meta if ak in cda.get(k, ()))
        alabel[ak] = h({"size": ax.get_size(None), "unlimited": bool(ax.nc_is_unlimited()),
                        "data_pos": [i for i, a in enumerate(data_axes) if a == ak], "spans": spans})
    fp = {"kind": "field" if is_field else "domain", "props": jprops(f),
          "data": jdata(f) if is_field else None,
          "data_axes": [alabel[a] for a in data_axes],
          "axes": sorted(alabel.values()),
          "constructs": sorted([chash[k], [alabel[a] for a in cda.get(k, ())], content(meta[k][1], meta[k][0])]
                               for k in meta)}
    cms = []
    for k, cm in sorted(cons.filter_by_type("cell_method", todict=True).items(), key=lambda kv: int(kv[0][10:])):
        cms.append({"axes": [alabel.get(a, a) for a in cm.get_axes(())], "method": cm.get_method(None),
                    "quals": {q: jval(v) if not hasattr(v, "array") else [jval(x.array) for x in (v if isinstance(v, (list, tuple)) else [v])]
                              for q, v in sorted(cm.qualifiers().items())}})
    for c in cms:
        iv = c["quals"].get("interval")
        if iv is not None:
            c["quals"]["interval"] = json.loads(json.dumps(iv, default=str))
    fp["cell_methods"] = cms
    refs = []
    for k, r in cons.filter_by_type("coordinate_reference", todict=True).items():
        refs.append({"coords": sorted(chash.get(c, "missing:" + str(c)) for c in r.coordinates()),
                     "params": {p: jval(v) for p, v in sorted(r.coordinate_conversion.parameters().items())},
                     "dancs": {t: (chash.get(c) if c is not None else None)
                               for t, c in sorted(r.coordinate_conversion.domain_ancillaries().items())},
                     "datum": {p: jval(v) for p, v in sorted(r.datum.parameters().items())}})
    fp["refs"] = sorted(refs, key=lambda r: json.dumps(r, sort_keys=True, default=str))
    names = []
    if f.nc_get_variable(None) is not None:
        names.append(["self", "var", f.nc_get_variable()])
    for ak, ax in axes.items():
        if ax.nc_get_dimension(None) is not None:
            if is_field and ak not in data_axes and ax.get_size(None) == 1:
                continue   # written as a scalar coordinate variable, which has no netCDF dimension
            dc = [x.nc_get_variable(None) for k, (t, x) in meta.items()
                  if t == "dimension_coordinate" and tuple(cda.get(k, ())) == (ak,)]
            if dc and dc[0] is not None and dc[0] != ax.nc_get_dimension():
                continue   # a coordinate variable's name is its dimension's name: netCDF cannot hold both
            names.append([alabel[ak], "dim", ax.nc_get_dimension()])
    for k, (t, x) in meta.items():
        if x.nc_get_variable(None) is not None:
            names.append([chash[k], "var", x.nc_get_variable()])
        if hasattr(x, "has_bounds") and x.has_bounds():
            b = x.bounds
            if b.nc_get_variable(None) is not None:
                names.append([chash[k], "bvar", b.nc_get_variable()])
            if b.nc_get_dimension(None) is not None:
                names.append([chash[k], "bdim", b.nc_get_dimension()])
    for k, r in cons.filter_by_type("coordinate_reference", todict=True).items():
        if r.nc_get_variable(None) is not None:
            names.append([h({p: jval(v) for p, v in sorted(r.coordinate_conversion.parameters().items())}), "var",
                          r.nc_get_variable()])
    return fp, sorted(names)


# ------------------------------------------------------------------ raw view of the file
def raw_view(fn):
    import netCDF4
    nc = netCDF4.Dataset(fn, "r")
    nc.set_auto_maskandscale(False)
    out = {"format": nc.data_model, "dims": {}, "vars": {}, "groups": sorted(nc.groups)}
    for name, d in nc.dimensions.items():
        out["dims"][name] = [len(d), bool(d.isunlimited())]
    for name, v in nc.variables.items():
        attrs = {}
        for a in v.ncattrs():
            if a in REF_ATTRS:
                attrs[a] = str(v.getncattr(a))
        dt = v.dtype
        dts = "str" if dt is str else (np.dtype(dt).kind + str(np.dtype(dt).itemsize))
        e = {"dims": list(v.dimensions), "dtype": dts, "attrs": attrs, "nattrs": len(v.ncattrs())}
        try:
            e["endian"] = v.endian()
            flt = v.filters() or {}
            e["zlib"] = bool(flt.get("zlib"))
            e["complevel"] = int(flt.get("complevel", 0) or 0)
            e["shuffle"] = bool(flt.get("shuffle"))
            e["fletcher32"] = bool(flt.get("fletcher32"))
            ch = v.chunking()
            e["chunking"] = ch if isinstance(ch, str) or ch is None else list(ch)
        except Exception:
            pass
        out["vars"][name] = e
    g = {}
    for a in nc.ncattrs():
        if a in ("external_variables", "Conventions"):
            g[a] = str(nc.getncattr(a))
    out["gattrs"] = g
    nc.close()
    return out


# ------------------------------------------------------------------ skeleton of a read construct
def axis_label(f, ak, cda, meta):
    ax = f.constructs[ak]
    n = ax.nc_get_dimension(None)
    if n is not None:
        return n
    # a size-1 axis without a netCDF dimension: label it by the 1-d coordinate that spans it
    names = sorted(x.nc_get_variable("?") for k, (t, x) in meta.items()
                   if cda.get(k) == (ak,) and t in ("dimension_coordinate", "auxiliary_coordinate"))
    return "@" + (names[0] if names else "?")


def read_skeleton(f):
    is_field = isinstance(f, cfdm.Field)
    cons = f.constructs
    cda = cons.data_axes()
    meta = {}
    for t in ("dimension_coordinate", "auxiliary_coordinate", "cell_measure", "field_ancillary", "domain_ancillary"):
        for k, x in cons.filter_by_type(t, todict=True).items():
            meta[k] = (t, x)
    axes = cons.filter_by_type("domain_axis", todict=True)
    lab = {ak: axis_label(f, ak, cda, meta) for ak in axes}
    out = {"ncvar": f.nc_get_variable(None),
           "data_axes": [lab[a] for a in (f.get_data_axes(default=()) if is_field else [])],
           "axes": sorted([lab[ak], ax.get_size(None), bool(ax.nc_is_unlimited())] for ak, ax in axes.items()),
           "cons": []}
    T = {"dimension_coordinate": "dim", "auxiliary_coordinate": "aux", "cell_measure": "measure",
         "field_ancillary": "fanc", "domain_ancillary": "danc"}
    for k, (t, x) in meta.items():
        b = x.bounds if hasattr(x, "has_bounds") and x.has_bounds() else None
        out["cons"].append({"type": T[t], "ncvar": x.nc_get_variable(None), "axes": [lab[a] for a in cda.get(k, ())],
                            "bounds": None if b is None else b.nc_get_variable(None),
                            "bdim": None if b is None else b.nc_get_dimension(None),
                            "clim": bool(hasattr(x, "is_climatology") and x.is_climatology()),
                            "measure": x.get_measure(None) if t == "cell_measure" else None,
                            "external": bool(x.nc_get_external()) if t == "cell_measure" else False})
    out["cons"].sort(key=lambda c: json.dumps(c, sort_keys=True))
    cms = []
    for k, cm in sorted(cons.filter_by_type("cell_method", todict=True).items(), key=lambda kv: int(kv[0][10:])):
        cms.append({"axes": [lab.get(a, a) for a in cm.get_axes(())], "method": cm.get_method(None)})
    out["cms"] = cms
    return out


# ------------------------------------------------------------------ main
def run_case(c, scratch, n):
    row = {"i": c["i"]}
    try:
        if "example" in c:
            f = cfdm.example_field(c["example"])
            if c.get("domain"):
                f = f.domain
        else:
            f = build(c["spec"])
    except Exception as ex:
        row["build_err"] = type(ex).__name__ + ": " + str(ex)[:300]
        return row
    opts = dict(c.get("options") or {})
    fn = os.path.join(scratch, f"c01_{os.getpid()}_{n}.nc")
    ext = None
    if opts.pop("external_file", False):
        ext = os.path.join(scratch, f"c01_{os.getpid()}_{n}_ext.nc")
        opts["external"] = ext
    try:
        fp0, names0 = fingerprint(f)
    except Exception as ex:
        row["harness_err"] = "fingerprint(before): " + type(ex).__name__ + ": " + str(ex)[:300]
        return row
    try:
        cfdm.write(f, fn, **opts)
    except Exception as ex:
        row["write_err"] = type(ex).__name__ + ": " + str(ex)[:300]
        return row
    try:
        row["raw"] = raw_view(fn)
    except Exception as ex:
        row["harness_err"] = "raw_view: " + type(ex).__name__ + ": " + str(ex)[:300]
    try:
        kw = {}
        if c.get("domain") or (c.get("spec") or {}).get("kind") == "domain":
            kw["domain"] = True
        if ext is not None and os.path.exists(ext):
            kw["external"] = ext
        gs = cfdm.read(fn, **kw)
    except Exception as ex:
        row["read_err"] = type(ex).__name__ + ": " + str(ex)[:300]
        return row
    row["n_read"] = len(gs)
    row["read_ncvars"] = sorted(str(g.nc_get_variable(None)) for g in gs)
    if len(gs) >= 1:
        # the construct that came from the data/domain variable (the first one when unsure)
        g = gs[0]
        try:
            row["eq_fg"] = bool(f.equals(g))
            row["eq_gf"] = bool(g.equals(f))
        except Exception as ex:
            row["equals_err"] = type(ex).__name__ + ": " + str(ex)[:300]
        try:
            fp1, names1 = fingerprint(g)
            row["fp_equal"] = fp0 == fp1
            if fp0 != fp1:
                diff = [k for k in fp0 if fp0[k] != fp1.get(k)]
                row["fp_diff"] = diff
                row["fp_before"] = {k: fp0[k] for k in diff}
                row["fp_after"] = {k: fp1.get(k) for k in diff}
            miss = list(names0)
            for x in names1:
                if x in miss:
                    miss.remove(x)
            row["names_lost"] = miss
            row["comp"] = [c.compliance if hasattr(c, "compliance") else None for c in ()]
            row["rskel"] = read_skeleton(g)
            # a second look at the construct read (after the arrays of the first look were scribbled over)
            fp2, names2 = fingerprint(g)
            row["read_stable"] = (fp2 == fp1 and names2 == names1)
            row["noncompliance"] = bool(g.dataset_compliance()) if hasattr(g, "dataset_compliance") else False
        except Exception as ex:
            row["harness_err"] = "fingerprint(after): " + type(ex).__name__ + ": " + str(ex)[:300]
    # source untouched?
    try:
        fp0b, names0b = fingerprint(f)
        row["source_unchanged"] = (fp0b == fp0 and names0b == names0)
    except Exception:
        pass
    for p in (fn, ext):
        if p:
            try:
                os.remove(p)
            except OSError:
                pass
    return row


def main():
    p = json.load(sys.stdin)
    for n, c in enumerate(p["cases"]):
        try:
            row = run_case(c, p["scratch"], n)
        except Exception as ex:  # harness-level
            row = {"i": c["i"], "harness_err": type(ex).__name__ + ": " + str(ex)[:300]}
        print(json.dumps(row, default=str), flush=True)


main()
