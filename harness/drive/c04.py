"""Drive cfdm for C04 (copies are independent; non-in-place operations are pure).

Run with PYTHONPATH=<repo>.  stdin: one JSON payload; stdout: JSON lines.

Modes
  list     -> one line: the instance pool labels with class names and the public
              method inventory per class (reflection)
  sweep    -> for the listed instance labels: every public method / property /
              special operation, with arguments from the per-signature table,
              in both directions (operate on the copy, watch the source; operate
              on the source, watch the copy) and the in-place protocol
  graph    -> the object graph of x and of x.copy() as an abstract heap, for the
              correspondence with the Coq model of the copy recipes
  protocol -> traces of the in-place decorator protocol on real decorated methods
"""
import copy as pycopy
import hashlib
import inspect
import json
import os
import sys
import time
import traceback

import numpy as np

import cfdm
from cfdm.core.abstract import Container

PLACEHOLDER_ATTR = "INPLACE_ENABLED_PLACEHOLDER"
try:
    from cfdm.decorators import INPLACE_ENABLED_PLACEHOLDER as PLACEHOLDER_KEY
except Exception:  # pragma: no cover
    PLACEHOLDER_KEY = "_inplace_store"


class Skip(Exception):
    pass


def innermost(f):
    """The function a chain of decorators finally calls.  Methods inherited from
    a mixin are re-created by cfdm's docstring metaclass, after which
    inspect.signature only sees (self, *args, **kwargs); follow __wrapped__ and
    the decorators' closure cells instead."""
    seen = set()
    while id(f) not in seen:
        seen.add(id(f))
        w = getattr(f, "__wrapped__", None)
        if w is not None:
            f = w
            continue
        nxt = None
        for cell in (getattr(f, "__closure__", None) or ()):
            try:
                c = cell.cell_contents
            except ValueError:
                continue
            if inspect.isfunction(c):
                nxt = c
                break
        if nxt is None:
            break
        f = nxt
    return f


def real_signature(f):
    sig = inspect.signature(f)
    ps = list(sig.parameters.values())
    if any(p.kind == p.VAR_POSITIONAL for p in ps) and any(p.kind == p.VAR_KEYWORD for p in ps) and len(ps) <= 3:
        g = innermost(f)
        if g is not f:
            try:
                return inspect.signature(g)
            except (TypeError, ValueError):
                pass
    return sig


# ---------------------------------------------------------------------------
# fingerprints
# ---------------------------------------------------------------------------
def _h(b):
    return hashlib.sha1(b).hexdigest()[:16]


def arr_token(a):
    """dtype, shape, checksum of the raw buffer (and of the mask buffer)."""
    try:
        if np.ma.isMA(a):
            m = np.ma.getmaskarray(a)
            d = np.asarray(a.data)
            if d.dtype == object:
                dh = _h(repr(d.tolist()).encode())
            else:
                dh = _h(np.ascontiguousarray(d).tobytes())
            return ["ma", str(a.dtype), list(a.shape), dh, _h(np.ascontiguousarray(m).tobytes())]
        if a.dtype == object:
            return ["nd", "object", list(a.shape), _h(repr(a.tolist()).encode())]
        return ["nd", str(a.dtype), list(a.shape), _h(np.ascontiguousarray(a).tobytes())]
    except Exception as e:  # pragma: no cover
        return ["nd-unreadable", type(e).__name__]


def values_token(a):
    """dtype, shape, and the visible values (masked elements blanked): the
    data as a user sees them, independent of what lies under the mask."""
    a = np.ma.asanyarray(a)
    m = np.ma.getmaskarray(a)
    d = np.asarray(a.data)
    if d.dtype == object or d.dtype.kind in "SU":
        vis = repr(np.where(m, None, d.astype(object)).tolist()).encode()
    else:
        d = d.copy()
        if m.any():
            d[m] = 0
        vis = np.ascontiguousarray(d).tobytes()
    return [str(a.dtype), list(a.shape), _h(vis), _h(np.ascontiguousarray(m).tobytes()),
            bool(np.ma.isMA(a) or False) and False]


SIMPLE = (str, bytes, int, float, complex, bool, type(None))


def is_container_obj(o):
    return isinstance(o, Container)


def canon_value(v, depth=0):
    """Canonical JSON-able form of a value returned by a public getter."""
    if depth > 12:
        return "<deep>"
    if isinstance(v, SIMPLE):
        if isinstance(v, float) and v != v:
            return "nan"
        return v if not isinstance(v, (bytes, complex)) else repr(v)
    if isinstance(v, np.generic):
        return ["np", str(v.dtype), repr(v.item())]
    if isinstance(v, np.ndarray):
        return values_token(v)
    if isinstance(v, dict):
        return {"{dict}": sorted(([repr(k), canon_value(x, depth + 1)] for k, x in v.items()), key=lambda p: p[0])}
    if isinstance(v, (list, tuple)):
        return [canon_value(x, depth + 1) for x in v]
    if isinstance(v, (set, frozenset)):
        return {"{set}": sorted(json.dumps(canon_value(x, depth + 1), sort_keys=True, default=str) for x in v)}
    if is_container_obj(v):
        return pub_fp(v, depth + 1)
    if isinstance(v, np.dtype):
        return "dtype:" + str(v)
    if isinstance(v, slice):
        return repr(v)
    return "<" + type(v).__name__ + ">"


GETTER_PREFIX = ("get_", "has_", "is_", "nc_get_", "nc_has_", "nc_is_")
GETTER_NAMES = {
    "properties", "identity", "identities", "parameters", "domain_ancillaries", "coordinates",
    "qualifiers", "nc_global_attributes", "nc_group_attributes", "nc_variable_groups",
    "nc_dimension_groups", "nc_sample_dimension_groups", "nc_hdf5_chunksizes", "data_axes",
    "construct_type", "nc_geometry_variable_groups", "nc_node_coordinate_variable_groups",
    "nc_interpolation_subarea_dimension_groups", "nc_subsampled_dimension_groups",
    "nc_part_node_count_dimension_groups", "get_compression_type", "get_compressed_axes",
    "get_filenames", "climatological_time_axes", "ordered", "nc_dataset_chunksizes",
}
GETTER_EXCLUDE = {"get_construct", "get_filter", "get_original_filenames", "has_bounds", "is_sparse"}
_getter_cache = {}


def getters_of(cls):
    if cls in _getter_cache:
        return _getter_cache[cls]
    out = []
    for name in sorted(dir(cls)):
        if name.startswith("_") or name in GETTER_EXCLUDE:
            continue
        if not (name.startswith(GETTER_PREFIX) or name in GETTER_NAMES):
            continue
        st = inspect.getattr_static(cls, name)
        if isinstance(st, (property, classmethod, staticmethod)):
            continue
        f = getattr(cls, name)
        if not callable(f):
            continue
        try:
            sig = real_signature(f)
        except (TypeError, ValueError):
            continue
        ps = list(sig.parameters.values())[1:]
        if any(p.default is p.empty and p.kind in (p.POSITIONAL_ONLY, p.POSITIONAL_OR_KEYWORD, p.KEYWORD_ONLY)
               for p in ps):
            continue
        out.append((name, any(p.name == "default" for p in ps)))
    _getter_cache[cls] = out
    return out


def pub_fp(x, depth=0):
    """Fingerprint through public accessors only (never equals())."""
    if depth > 8:
        return "<deep>"
    out = {"class": type(x).__name__}
    for name, has_default in getters_of(type(x)):
        try:
            v = getattr(x, name)(default=None) if has_default else getattr(x, name)()
        except Exception as e:
            out[name] = "raises:" + type(e).__name__
            continue
        out[name] = canon_value(v, depth + 1)
    # data values, masks, dtype
    if isinstance(x, cfdm.core.Array) or isinstance(x, cfdm.core.Data):
        try:
            out["[array]"] = values_token(x.array)
            out["[dtype]"] = str(x.dtype)
            out["[shape]"] = list(x.shape)
        except Exception as e:
            out["[array]"] = "raises:" + type(e).__name__
    if isinstance(x, cfdm.core.Constructs):
        try:
            out["[keys]"] = sorted(x.keys())
            out["[items]"] = {k: pub_fp(v, depth + 1) for k, v in x.items()}
            out["[types]"] = {k: x.construct_type(k) for k in x.keys()}
        except Exception as e:
            out["[keys]"] = "raises:" + type(e).__name__
        # the filter history is observable state too: unfilter(depth) / inverse_filter()
        try:
            hist = x.filters_applied() if hasattr(x, "filters_applied") else ()
            if hist and depth < 6:
                out["[filters_applied]"] = canon_value(list(hist), depth + 1)
                for dpt in range(1, len(hist) + 1):
                    u = x.unfilter(depth=dpt)
                    out["[unfilter %d]" % dpt] = {k: pub_fp(v, depth + 2) for k, v in u.items()}
        except Exception as e:
            out["[filters_applied]"] = "raises:" + type(e).__name__
    elif hasattr(x, "constructs") and not isinstance(x, cfdm.core.Constructs):
        try:
            out["[constructs]"] = pub_fp(x.constructs, depth + 1)
        except Exception as e:
            out["[constructs]"] = "raises:" + type(e).__name__
    return out


def is_cache_attr(cls, name):
    import functools
    try:
        return isinstance(inspect.getattr_static(cls, name), functools.cached_property)
    except AttributeError:
        return False


def deep_fp(x, raw=True):
    """Structural walk over the private state: {path: token}.  Buffers are
    checksummed raw, so an in-place write shows even under a mask.  With
    raw=False masked arrays are checksummed with the masked elements blanked
    (for comparing two different objects: what lies under a mask of a freshly
    computed array is uninitialised memory)."""
    flat = {}
    onpath = set()

    def walk(o, path, depth):
        if depth > 40:
            flat[path] = "<deep>"
            return
        if isinstance(o, SIMPLE):
            flat[path] = repr(o)
            return
        if isinstance(o, np.generic):
            flat[path] = "np:" + str(o.dtype) + ":" + repr(o.item())
            return
        if isinstance(o, np.ndarray):
            flat[path] = json.dumps(arr_token(o) if raw or not np.ma.isMA(o) else ["vis"] + values_token(o))
            return
        if id(o) in onpath:
            flat[path] = "<cycle>"
            return
        onpath.add(id(o))
        try:
            if isinstance(o, dict):
                flat[path] = "dict:%d" % len(o)
                for k in sorted(o, key=repr):
                    walk(o[k], path + "/" + repr(k), depth + 1)
            elif isinstance(o, (list, tuple)):
                flat[path] = type(o).__name__ + ":%d" % len(o)
                for i, v in enumerate(o):
                    walk(v, path + "/%d" % i, depth + 1)
            elif isinstance(o, (set, frozenset)):
                flat[path] = "set:" + repr(sorted(repr(e) for e in o))
            elif is_container_obj(o):
                flat[path] = "obj:" + type(o).__name__
                for k in sorted(vars(o)):
                    if is_cache_attr(type(o), k):
                        continue  # functools.cached_property values are caches, not state
                    walk(vars(o)[k], path + "." + k, depth + 1)
            elif isinstance(o, (np.dtype, slice)):
                flat[path] = repr(o)
            elif type(o).__module__.startswith("scipy.sparse"):
                flat[path] = "sparse:" + json.dumps(arr_token(o.toarray()))
            else:
                flat[path] = "<" + type(o).__name__ + ">"
        finally:
            onpath.discard(id(o))

    walk(x, "$", 0)
    return flat


def fp(x, raw=True):
    return {"pub": pub_fp(x), "deep": deep_fp(x, raw)}


def diff_pub(a, b, path="", out=None, limit=6):
    if out is None:
        out = []
    if len(out) >= limit:
        return out
    if type(a) != type(b):
        out.append(f"{path}: {str(a)[:80]} -> {str(b)[:80]}")
    elif isinstance(a, dict):
        for k in sorted(set(a) | set(b)):
            if k not in a:
                out.append(f"{path}/{k}: <absent> -> {str(b[k])[:80]}")
            elif k not in b:
                out.append(f"{path}/{k}: {str(a[k])[:80]} -> <absent>")
            else:
                diff_pub(a[k], b[k], f"{path}/{k}", out, limit)
    elif isinstance(a, list):
        if len(a) != len(b):
            out.append(f"{path}: len {len(a)} -> {len(b)}: {str(a)[:60]} -> {str(b)[:60]}")
        else:
            for i, (u, v) in enumerate(zip(a, b)):
                diff_pub(u, v, f"{path}[{i}]", out, limit)
    elif a != b:
        out.append(f"{path}: {str(a)[:80]} -> {str(b)[:80]}")
    return out


def diff_deep(a, b, limit=6):
    out = []
    for k in sorted(set(a) | set(b)):
        if a.get(k) != b.get(k):
            out.append(f"{k}: {str(a.get(k, '<absent>'))[:70]} -> {str(b.get(k, '<absent>'))[:70]}")
            if len(out) >= limit:
                break
    return out


def compare(f0, f1):
    """-> (kind, details): kind in None | 'public' | 'hidden'."""
    if f0["pub"] != f1["pub"]:
        return "public", diff_pub(f0["pub"], f1["pub"]) or ["(differs)"]
    if f0["deep"] != f1["deep"]:
        return "hidden", diff_deep(f0["deep"], f1["deep"])
    return None, []


# ---------------------------------------------------------------------------
# instance pool
# ---------------------------------------------------------------------------
def _file_backed(scratch):
    out = {}
    if not scratch:
        return out
    try:
        fn = os.path.join(scratch, f"c04_{os.getpid()}.nc")
        if not os.path.exists(fn):
            cfdm.write([cfdm.example_field(0), cfdm.example_field(6)], fn)
        for backend in ("netCDF4", "h5netcdf"):
            try:
                fs = cfdm.read(fn, netcdf_backend=backend)
            except TypeError:
                fs = cfdm.read(fn)
            for k, f in enumerate(fs):
                out[f"file-{backend}-{k}"] = f
    except Exception as e:  # file-backed instances are optional
        sys.stderr.write("file-backed instances unavailable: %r\n" % (e,))
    return out


def build_pool(scratch=None, nfields=12):
    """label -> object.  Deterministic order."""
    pool = {}

    def add(label, obj):
        if obj is not None and label not in pool:
            pool[label] = obj

    fields = {}
    for i in range(nfields):
        try:
            fields[f"f{i}"] = cfdm.example_field(i)
        except Exception:
            break
    # compressed variants (DSG ragged, gathered)
    try:
        fields["f3c"] = cfdm.example_field(3).compress("contiguous")
        fields["f3i"] = cfdm.example_field(3).compress("indexed")
        fields["f4ic"] = cfdm.example_field(4).compress("indexed_contiguous")
    except Exception as e:
        sys.stderr.write("compressed variants unavailable: %r\n" % (e,))
    # masked data, vector properties, netCDF names, custom
    try:
        g = cfdm.example_field(0)
        g.data[0, 0:3] = cfdm.masked
        g.set_property("flag_values", np.array([1, 2, 4], dtype="i4"))
        g.set_property("flag_meanings", "a b c")
        g.nc_set_variable("/grp1/grp2/q")
        g.nc_set_global_attribute("history", "c04")
        g.nc_set_global_attribute("extra", None)
        g.dimension_coordinate("latitude").nc_set_variable("lat_nc")
        g.domain_axis("domainaxis0").nc_set_dimension("lat_dim")
        g.domain_axis("domainaxis1").nc_set_unlimited(True)
        g.data.nc_set_hdf5_chunksizes((1, 4))
        fields["g0"] = g
    except Exception as e:
        sys.stderr.write("g0 unavailable: %r\n" % (e,))
    # a field on which apply_masking (and similar value-dependent methods) has an effect on the
    # field AND on its metadata constructs: fill / valid properties that match actual values of
    # the data, of a coordinate, of its bounds and of an ancillary (seeded change C04-s3)
    try:
        m = cfdm.example_field(1)
        m.set_property("missing_value", float(m.data.array.flat[3]))
        for key, c in m.constructs.filter_by_data(todict=True).items():
            a = c.data.array
            if a.dtype.kind in "if" and a.size > 1:
                c.set_property("missing_value", a.flat[0].item())
                c.set_property("valid_max", float(a.max()) - 1e-9 if a.dtype.kind == "f" else int(a.max()) - 1)
                if hasattr(c, "has_bounds") and c.has_bounds():
                    c.bounds.set_property("_FillValue", c.bounds.data.array.flat[1].item())
        fields["m1"] = m
    except Exception as e:
        sys.stderr.write("m1 unavailable: %r\n" % (e,))
    fields.update(_file_backed(scratch))

    for fl, f in fields.items():
        add(fl, f)
        try:
            add(fl + ".domain", f.domain)
        except Exception:
            pass
        try:
            add(fl + ".constructs", f.constructs)
            add(fl + ".constructs.filtered", f.constructs.filter_by_type("dimension_coordinate", "auxiliary_coordinate"))
            if fl in ("f1", "f0", "g0", "f6"):
                c2 = f.constructs.filter_by_type("dimension_coordinate", "auxiliary_coordinate", "domain_axis")
                c2 = c2.filter_by_type("dimension_coordinate")
                add(fl + ".constructs.filtered2", c2)
                add(fl + ".constructs.inverse", c2.inverse_filter())
        except Exception:
            pass
        if f.has_data():
            d = f.data
            add(fl + ".data", d)
            try:
                add(fl + ".data.Array", d._get_Array())
            except Exception:
                pass
            for nm in ("get_count", "get_index", "get_list"):
                try:
                    add(fl + ".data." + nm, getattr(d, nm)())
                except Exception:
                    pass
        for key, c in f.constructs.items():
            add(f"{fl}.{key}", c)
            if hasattr(c, "has_data") and c.has_data():
                add(f"{fl}.{key}.data", c.data)
            if hasattr(c, "has_bounds") and c.has_bounds():
                b = c.bounds
                add(f"{fl}.{key}.bounds", b)
                if b.has_data():
                    add(f"{fl}.{key}.bounds.data", b.data)
            for nm in ("get_interior_ring", "get_node_count", "get_part_node_count"):
                if hasattr(c, nm):
                    try:
                        add(f"{fl}.{key}.{nm}", getattr(c, nm)(None))
                    except Exception:
                        pass
            if isinstance(c, cfdm.CoordinateReference):
                add(f"{fl}.{key}.datum", c.datum)
                add(f"{fl}.{key}.coordinate_conversion", c.coordinate_conversion)
    # stand-alone data objects of several kinds
    add("data.int", cfdm.Data(np.arange(24, dtype="i4").reshape(2, 3, 4), units="m"))
    add("data.masked", cfdm.Data(np.ma.array(np.arange(12.0).reshape(3, 4), mask=np.arange(12).reshape(3, 4) % 5 == 0),
                                 units="K", fill_value=-99.0))
    add("data.scalar", cfdm.Data(7.5, units="s"))
    add("data.str", cfdm.Data(np.array(["ab", "cde", "f"])))
    add("data.time", cfdm.Data(np.array([0.5, 31.5]), units="days since 2000-01-01", calendar="360_day"))
    add("array.numpy", cfdm.NumpyArray(np.arange(6.0).reshape(2, 3)))
    add("array.numpy.masked", cfdm.NumpyArray(np.ma.array([1, 2, 3, 4], mask=[0, 1, 0, 0])))
    try:
        ra = cfdm.RaggedContiguousArray(
            compressed_array=cfdm.Data(np.arange(5.0)), shape=(2, 3),
            count_variable=cfdm.Count(data=cfdm.Data(np.array([2, 3]))))
        add("array.ragged", ra)
        add("data.ragged", cfdm.Data(ra, units="m"))
        ga = cfdm.GatheredArray(
            compressed_array=cfdm.Data(np.arange(6.0).reshape(2, 3)), shape=(2, 2, 3),
            compressed_dimensions={1: (1, 2)},
            list_variable=cfdm.List(data=cfdm.Data(np.array([0, 2, 5]))))
        add("array.gathered", ga)
        add("list.new", ga.get_list())
        add("data.gathered", cfdm.Data(ga))
    except Exception as e:
        sys.stderr.write("compressed arrays unavailable: %r\n" % (e,))
    add("cellmethod.new", cfdm.CellMethod(axes=["domainaxis0"], method="mean",
                                          qualifiers={"within": "years", "interval": [cfdm.Data(1, "hr")]}))
    add("domainaxis.new", cfdm.DomainAxis(5))
    add("field.empty", cfdm.Field())
    try:
        # a template: domain axes and coordinates, but neither data nor data axes yet
        t = cfdm.example_field(0)
        t.del_data()
        t.del_data_axes()
        add("field.template", t)
    except Exception as e:
        sys.stderr.write("field.template unavailable: %r\n" % (e,))
    add("constructs.empty", cfdm.Field().constructs)
    return pool


# ---------------------------------------------------------------------------
# reflection: operations of a class
# ---------------------------------------------------------------------------
SPECIALS = ["__getitem__", "__setitem__", "__deepcopy__", "__repr__", "__str__", "__array__",
            "__iter__", "__len__", "__bool__", "__contains__", "__call__", "__data__", "__int__",
            "__float__", "__eq__", "__hash__", "__format__", "__getstate__", "__reduce__"]
SKIP_METHODS = {
    # never touch real resources / need a live dataset handle
    "close": "needs an open dataset handle",
    "open": "opens a file handle (covered by .array on file-backed data)",
}


def operations(cls):
    ops = []
    for name in sorted(dir(cls)):
        if name.startswith("_"):
            continue
        st = inspect.getattr_static(cls, name)
        if isinstance(st, property):
            ops.append(("prop", name))
            if st.fset is not None:
                ops.append(("propset", name))
            if st.fdel is not None:
                ops.append(("propdel", name))
        elif isinstance(st, classmethod) or isinstance(st, staticmethod):
            ops.append(("classmethod", name))
        elif callable(getattr(cls, name)):
            ops.append(("method", name))
    for name in SPECIALS:
        f = getattr(cls, name, None)
        if f is None:
            continue
        if getattr(object, name, None) is f:
            continue
        ops.append(("special", name))
    return ops


# ---------------------------------------------------------------------------
# arguments
# ---------------------------------------------------------------------------
def _first_key(x, ctype=None, nth=0):
    cs = x if isinstance(x, cfdm.core.Constructs) else getattr(x, "constructs", None)
    if cs is None:
        raise Skip("no constructs")
    keys = sorted(k for k in cs.keys() if ctype is None or cs.construct_type(k) == ctype)
    if not keys:
        raise Skip("no such construct")
    return keys[nth % len(keys)]


def _data_like(x, variant):
    d = None
    try:
        d = x.get_data(None) if hasattr(x, "get_data") else None
    except Exception:
        d = None
    if d is None and isinstance(x, cfdm.core.Data):
        d = x
    if d is not None:
        try:
            a = d.array
            if a.dtype.kind in "iuf":
                a = a + 1
            return cfdm.Data(a, units=d.get_units(None))
        except Exception:
            pass
    return cfdm.Data(np.arange(3.0))


def synth(x, mname, p, variant):
    """Value for required parameter p of method mname on instance x."""
    n = p
    if n == "value":
        if mname == "masked_values":
            return 1
        if mname in ("set_size",):
            return 4
        if mname in ("set_axes",):
            return ["domainaxis0", "domainaxis1"][: 1 + variant]
        if mname == "set_qualifier":
            return "c04q"
        if mname in ("set_parameter",):
            return np.array([1.5, 2.5]) if variant else 3.0
        if mname in ("set_method",):
            return "maximum"
        if mname.startswith("nc_set") and "chunk" in mname:
            return "contiguous"
        if mname == "nc_set_unlimited" or mname == "nc_set_external":
            return True
        if mname in ("set_property", "nc_set_global_attribute", "nc_set_group_attribute"):
            return np.array([7, 8, 9]) if variant else "c04v"
        if mname in ("set_calendar",):
            return "noleap"
        if mname in ("set_units",):
            return "c04unit"
        if mname in ("set_fill_value",):
            return -7
        return "c04v"
    if n == "prop":
        try:
            props = sorted(x.properties()) if hasattr(x, "properties") else []
        except Exception:
            props = []
        if mname.startswith("nc_"):
            return "history" if not variant else "c04_attr"
        if props and not variant:
            return props[0]
        return "c04_new"
    if n == "properties":
        if mname == "del_properties":
            try:
                return sorted(x.properties())[:2] + ["c04_absent"]
            except Exception:
                return ["c04_absent"]
        return {"c04_a": "x", "long_name": "changed", "c04_vec": np.array([1.0, 2.0])}
    if n == "groups":
        return ["c04g1", "c04g2"]
    if n == "component":
        return ["interior_ring", "count", "node_count", "index", "list", "part_node_count"][variant % 6]
    if n == "chunksizes":
        return "contiguous" if variant else 4096
    if n == "data":
        return _data_like(x, variant)
    if n == "key":
        if isinstance(x, cfdm.core.Constructs) or hasattr(x, "constructs"):
            if mname in ("get_data_axes", "del_data_axes", "has_data_axes") and not isinstance(x, cfdm.core.Constructs):
                return _first_key(x, "dimension_coordinate", variant)
            if mname == "domain_axis_identity":
                return _first_key(x, "domain_axis", variant)
            if mname in ("del_coordinate", "has_coordinate"):
                return "dimensioncoordinate0"
            return _first_key(x, None, variant * 3)
        if mname in ("del_coordinate", "has_coordinate"):
            try:
                cs = sorted(x.coordinates())
                return cs[0] if cs else "dimensioncoordinate0"
            except Exception:
                return "dimensioncoordinate0"
        return "c04key"
    if n == "other":
        return x.copy()
    if n == "parameter":
        try:
            ps = sorted(x.parameters())
        except Exception:
            ps = []
        return ps[0] if ps and not variant else "c04_p"
    if n == "qualifier":
        try:
            qs = sorted(x.qualifiers())
        except Exception:
            qs = []
        return qs[0] if qs and not variant else "where"
    if n == "construct":
        if mname == "set_construct":
            if variant:
                return cfdm.DomainAxis(3)
            return cfdm.CellMethod(axes=["area"], method="mean")
        if mname == "replace":
            k = _first_key(x, None, 0)
            return (x if isinstance(x, cfdm.core.Constructs) else x.constructs)[k].copy()
        raise Skip("construct")
    if n == "domain_ancillary":
        try:
            ds = sorted(x.domain_ancillaries())
        except Exception:
            ds = []
        return ds[0] if ds and not variant else "c04_term"
    if n == "term":
        return "c04_term"
    if n == "bounds":
        b = x.get_bounds(None) if hasattr(x, "get_bounds") else None
        if b is not None:
            b = b.copy()
            try:
                b.data[...] = 0
            except Exception:
                pass
            return b
        d = x.get_data(None) if hasattr(x, "get_data") else None
        if d is None:
            raise Skip("no data for bounds")
        return cfdm.Bounds(data=cfdm.Data(np.zeros(tuple(d.shape) + (2,))))
    if n in ("interior_ring", "node_count", "part_node_count"):
        g = getattr(x, "get_" + n, None)
        v = g(None) if g else None
        if v is None:
            if n == "interior_ring":
                return cfdm.InteriorRing(data=cfdm.Data(np.zeros((2, 1), dtype="i4")))
            if n == "node_count":
                return cfdm.NodeCountProperties(properties={"long_name": "c04"})
            return cfdm.PartNodeCountProperties(properties={"long_name": "c04"})
        return v.copy()
    if n in ("dataset",):
        raise Skip("dataset handle")
    if n in ("address", "mesh_id"):
        return "c04"
    if n == "parameters":
        return {"c04_p": 1, "c04_q": np.array([1.0, 2.0])}
    if n == "climatology":
        return True
    if n == "axes":
        if mname == "set_data_axes":
            try:
                return list(x.get_data_axes())
            except Exception:
                raise Skip("no data axes")
        return None
    if n == "construct_type":
        return "dimension_coordinate"
    if n == "shape":
        return (2, 3)
    if n == "domain_ancillaries":
        return {"c04_a": "domainancillary0"}
    if n == "connectivity":
        return "edge"
    if n == "external":
        return True
    if n == "measure":
        return "area"
    if n == "coordinate_conversion":
        return cfdm.CoordinateConversion(parameters={"c04": np.array([1.0])})
    if n == "coordinates":
        return ["dimensioncoordinate0", "c04coord"]
    if n == "datum":
        return cfdm.Datum(parameters={"c04": 2.0})
    if n == "size":
        return 4
    if n == "cell":
        return "face"
    if n == "method":
        return ["contiguous", "indexed", "indexed_contiguous", "gathered"][variant % 4]
    if n == "axis":
        return _first_key(x, "domain_axis", variant)
    if n == "position":
        return 0
    if n == "shapes":
        return -1
    raise Skip("no rule for parameter '%s'" % n)


def optional_args(x, mname, params, variant):
    """Optional arguments worth exercising (variant 1)."""
    kw = {}
    names = {p.name for p in params}
    if variant == 0:
        return kw
    if "inplace" in names:
        kw["inplace"] = True
    if "copy" in names:
        kw["copy"] = False
    if "todict" in names:
        kw["todict"] = True
    if "axes" in names and mname in ("transpose",):
        try:
            nd = x.data.ndim if hasattr(x, "data") and not isinstance(x, cfdm.core.Data) else x.ndim
            kw["axes"] = list(range(nd))[::-1]
        except Exception:
            pass
    if "constructs" in names and mname in ("transpose", "insert_dimension"):
        kw["constructs"] = True
    if "bounds" in names and mname in ("apply_masking",):
        kw["bounds"] = True
    if "fill_values" in names:
        kw["fill_values"] = True
    if "squeeze" in names:
        kw["squeeze"] = True
    if "string" in names:
        kw["string"] = False
    if "display" in names:
        kw["display"] = False
    return kw


def build_call(x, kind, mname, variant):
    """-> (args, kwargs, note)."""
    cls = type(x)
    if kind == "special":
        return special_args(x, mname, variant)
    if kind in ("prop", "propset", "propdel"):
        return [], {}
    f = getattr(cls, mname)
    try:
        sig = real_signature(f)
    except (TypeError, ValueError):
        raise Skip("no signature")
    params = list(sig.parameters.values())
    if kind == "method":
        params = params[1:]
    args, kw = [], {}
    for p in params:
        if p.kind == p.VAR_POSITIONAL:
            if variant and p.name in ("identities", "identity", "types", "axes", "keys", "measures", "methods",
                                      "ncvars", "ncdims", "sizes", "naxes", "cells", "connectivities"):
                args.extend(varpos(x, mname, p.name))
            continue
        if p.kind == p.VAR_KEYWORD:
            continue
        if p.default is p.empty:
            v = synth(x, mname, p.name, variant)
            if p.kind == p.POSITIONAL_ONLY:
                args.append(v)
            else:
                kw[p.name] = v
    for k, v in optional_args(x, mname, params, variant).items():
        kw.setdefault(k, v)
    if "display" in {p.name for p in params}:
        kw.setdefault("display", False)
    return args, kw


def varpos(x, mname, pname):
    cs = x if isinstance(x, cfdm.core.Constructs) else getattr(x, "constructs", None)
    if pname in ("identities", "identity"):
        if cs is not None:
            for k in sorted(cs.keys()):
                try:
                    return [cs[k].identity()]
                except Exception:
                    continue
        return ["long_name=c04"]
    if pname == "types":
        return ["dimension_coordinate", "cell_method"]
    if pname == "axes":
        try:
            return [_first_key(x, "domain_axis", 0)]
        except Skip:
            return ["domainaxis0"]
    if pname == "keys":
        try:
            return [_first_key(x, None, 1)]
        except Skip:
            return ["c04key"]
    if pname == "measures":
        return ["area"]
    if pname == "methods":
        return ["mean"]
    if pname == "ncvars":
        return ["lat", "lon"]
    if pname == "ncdims":
        return ["lat"]
    if pname == "sizes":
        return [5]
    if pname == "naxes":
        return [1]
    if pname == "cells":
        return ["face"]
    if pname == "connectivities":
        return ["edge"]
    return []


def special_args(x, mname, variant):
    if mname == "__getitem__":
        if isinstance(x, cfdm.core.Constructs):
            return [_first_key(x, None, variant)], {}
        nd = getattr(x, "ndim", None)
        if nd is None and hasattr(x, "data"):
            nd = x.data.ndim
        if not nd:
            return [Ellipsis], {}
        if variant:
            return [tuple([slice(0, 1)] + [slice(None)] * (nd - 1))], {}
        return [Ellipsis], {}
    if mname == "__setitem__":
        nd = getattr(x, "ndim", 0)
        if variant and nd:
            return [tuple([slice(0, 1)] + [slice(None)] * (nd - 1)), cfdm.masked], {}
        try:
            kind = x.dtype.kind
        except Exception:
            kind = "f"
        return [Ellipsis, ("zz" if kind in "SU" else 3)], {}
    if mname == "__deepcopy__":
        return [{}], {}
    if mname == "__contains__":
        return ["c04key"], {}
    if mname == "__call__":
        return [], {}
    if mname == "__eq__":
        return [x.copy() if hasattr(x, "copy") else x], {}
    if mname == "__format__":
        return [""], {}
    return [], {}


# ---------------------------------------------------------------------------
# scribbling over returned values: whatever a call hands out is then mutated
# as hard as the public API allows; the *other* object must not notice
# ---------------------------------------------------------------------------
def scribble(r, depth=0, seen=None):
    if seen is None:
        seen = set()
    if r is None or isinstance(r, SIMPLE) or depth > 4 or id(r) in seen:
        return 0
    seen.add(id(r))
    n = 0
    try:
        if isinstance(r, np.ndarray):
            if r.size:
                try:
                    if np.ma.isMA(r):
                        r[...] = np.ma.masked
                        n += 1
                    elif r.dtype.kind in "iufb":
                        r[...] = 1 if r.dtype.kind == "b" else 113
                        n += 1
                    elif r.dtype.kind in "SU":
                        r[...] = "z"
                        n += 1
                    else:
                        r[...] = None
                        n += 1
                except (ValueError, TypeError):
                    pass
                try:
                    if np.ma.isMA(r):
                        np.asarray(r.data)[...] = 113 if r.dtype.kind in "iuf" else r.data.flat[0]
                except (ValueError, TypeError):
                    pass
        elif isinstance(r, dict):
            for v in list(r.values()):
                n += scribble(v, depth + 1, seen)
            try:
                r["c04_scribble"] = 1
                for k in list(r)[:1]:
                    del r[k]
                n += 1
            except Exception:
                pass
        elif isinstance(r, list):
            for v in list(r):
                n += scribble(v, depth + 1, seen)
            try:
                r.append("c04_scribble")
                del r[0]
                n += 1
            except Exception:
                pass
        elif isinstance(r, (tuple, set, frozenset)):
            for v in list(r):
                n += scribble(v, depth + 1, seen)
        elif is_container_obj(r):
            n += mutate_battery(r, depth, seen)
        elif inspect.isgenerator(r):
            for k, v in enumerate(r):
                n += scribble(v, depth + 1, seen)
                if k > 3:
                    break
    except Exception:
        pass
    return n


def mutate_battery(r, depth=0, seen=None):
    """Standard public mutators applied to a cfdm object."""
    n = 0

    def tr(fn):
        nonlocal n
        try:
            fn()
            n += 1
        except Exception:
            pass

    if hasattr(r, "set_property"):
        tr(lambda: r.set_property("c04_scribble", np.array([5, 6])))
        tr(lambda: r.set_property("long_name", "scribbled"))
        tr(lambda: r.del_property("standard_name"))
        tr(lambda: r.del_property("units"))
    if hasattr(r, "nc_set_variable"):
        tr(lambda: r.nc_set_variable("c04_scribbled"))
    if hasattr(r, "nc_set_dimension"):
        tr(lambda: r.nc_set_dimension("c04_scribbled_dim"))
    if hasattr(r, "nc_set_global_attribute"):
        tr(lambda: r.nc_set_global_attribute("c04_scribble", "g"))
    if hasattr(r, "nc_set_unlimited"):
        tr(lambda: r.nc_set_unlimited(True))
    if hasattr(r, "nc_set_hdf5_chunksizes"):
        tr(lambda: r.nc_set_hdf5_chunksizes("contiguous"))
    if isinstance(r, cfdm.core.Data):
        tr(lambda: r.__setitem__(Ellipsis, "q" if r.dtype.kind in "SU" else 113))
        tr(lambda: r.__setitem__(tuple([slice(0, 1)] * r.ndim) if r.ndim else Ellipsis, cfdm.masked))
        tr(lambda: r.set_units("scribbled"))
        tr(lambda: r.set_fill_value(-1))
        tr(lambda: r.set_calendar("julian"))
    if isinstance(r, cfdm.core.Array) and depth < 3:
        # arrays have no public mutators; mutate whatever their accessors return
        for nm in ("array", "get_count", "get_index", "get_list", "get_compressed_array", "source"):
            if hasattr(r, nm):
                try:
                    v = getattr(r, nm)
                    v = v() if callable(v) else v
                    n += scribble(v, depth + 1, seen)
                except Exception:
                    pass
    if hasattr(r, "get_data") and not isinstance(r, cfdm.core.Data) and depth < 3:
        try:
            d = r.get_data(None)
        except Exception:
            d = None
        if d is not None:
            n += scribble(d, depth + 1, seen)
    for nm in ("get_bounds", "get_interior_ring", "get_node_count", "get_part_node_count"):
        if hasattr(r, nm) and depth < 3:
            try:
                b = getattr(r, nm)(None)
            except Exception:
                b = None
            if b is not None:
                n += scribble(b, depth + 1, seen)
    if hasattr(r, "set_parameter"):
        tr(lambda: r.set_parameter("c04_scribble", 1.0))
        try:
            for v in r.parameters().values():
                n += scribble(v, depth + 1, seen)
        except Exception:
            pass
    if hasattr(r, "set_qualifier"):
        tr(lambda: r.set_qualifier("c04_scribble", "x"))
        tr(lambda: r.set_method("scribbled"))
        tr(lambda: r.set_axes(["c04_scribble"]))
        try:
            for v in r.qualifiers().values():
                n += scribble(v, depth + 1, seen)
        except Exception:
            pass
    if hasattr(r, "set_size"):
        tr(lambda: r.set_size(97))
    if hasattr(r, "set_measure"):
        tr(lambda: r.set_measure("scribbled"))
    if hasattr(r, "set_coordinate"):
        tr(lambda: r.set_coordinate("c04_scribble"))
    if isinstance(r, cfdm.CoordinateReference) and depth < 3:
        n += scribble(r.datum, depth + 1, seen)
        n += scribble(r.coordinate_conversion, depth + 1, seen)
    if hasattr(r, "properties"):
        try:
            for v in r.properties().values():
                if isinstance(v, np.ndarray):
                    n += scribble(v, depth + 1, seen)
        except Exception:
            pass
    cs = None
    if isinstance(r, cfdm.core.Constructs):
        cs = r
    elif hasattr(r, "constructs"):
        try:
            cs = r.constructs
        except Exception:
            cs = None
    if cs is not None and depth < 2:
        try:
            for k in sorted(cs.keys()):
                n += scribble(cs[k], depth + 1, seen)
        except Exception:
            pass
        # every route back through the filter history of a filtered collection
        if hasattr(cs, "filters_applied"):
            try:
                nf = len(cs.filters_applied())
            except Exception:
                nf = 0
            routes = []
            if nf:
                for dpt in list(range(1, nf + 1)):
                    for mk in (lambda d=dpt: cs.unfilter(depth=d), lambda d=dpt: cs.unfilter(depth=d, copy=False),
                               lambda d=dpt: cs.inverse_filter(depth=d)):
                        try:
                            routes.append(mk())
                        except Exception:
                            pass
                for mk in (lambda: cs.unfilter(), lambda: cs.inverse_filter()):
                    try:
                        routes.append(mk())
                    except Exception:
                        pass
            for u in routes:
                try:
                    for k in sorted(u.keys()):
                        n += scribble(u[k], depth + 1, seen)
                except Exception:
                    pass
        if hasattr(r, "del_construct"):
            for k in sorted(cs.keys())[::-1][:3]:
                tr(lambda k=k: r.del_construct(k))
        if hasattr(r, "set_construct"):
            tr(lambda: r.set_construct(cfdm.DomainAxis(11)))
    if hasattr(r, "del_data") and not isinstance(r, cfdm.core.Data):
        tr(lambda: r.del_data())
    if hasattr(r, "del_bounds"):
        tr(lambda: r.del_bounds())
    return n


# ---------------------------------------------------------------------------
# one case
# ---------------------------------------------------------------------------
def invoke(obj, kind, mname, args, kw):
    if kind == "prop":
        return getattr(obj, mname)
    if kind == "propset":
        cur = getattr(obj, mname)
        if isinstance(cur, np.dtype):
            new = np.dtype("float32") if cur != np.dtype("float32") else np.dtype("float64")
        elif isinstance(cur, cfdm.core.Data):
            new = _data_like(obj, 0)
        elif is_container_obj(cur):
            new = cur.copy()
            scribble(new)
        elif isinstance(cur, (int, float)):
            new = cur + 1
        elif isinstance(cur, str):
            new = cur + "_c04"
        else:
            new = cur
        setattr(obj, mname, new)
        return None
    if kind == "propdel":
        delattr(obj, mname)
        return None
    if kind == "special" and mname == "__deepcopy__":
        return pycopy.deepcopy(obj)
    if kind == "special" and mname == "__iter__":
        out = []
        for k, v in enumerate(obj):
            out.append(v)
            if k > 4:
                break
        return out
    return getattr(obj, mname)(*args, **kw)


def errname(e):
    return type(e).__name__


def has_placeholder(o):
    try:
        if PLACEHOLDER_ATTR in vars(o):
            return True
        c = o._get_component("custom", None) if hasattr(o, "_get_component") else None
        return bool(c) and PLACEHOLDER_KEY in c
    except Exception:
        return False


def run_case(pool, label, kind, mname, variant, direction, F0):
    """direction 'M': x = source.copy(); y = x.copy(); operate on x (and scribble
       over whatever it returns); neither the source of x (the pool object) nor
       the copy y of x may change.
       direction 'P': in-place protocol (only for methods with `inplace`)."""
    x0 = pool[label]
    row = {"label": label, "cls": type(x0).__name__, "kind": kind, "m": mname, "v": variant, "dir": direction}
    if direction == "P":
        return run_protocol_case(pool, row, x0, kind, mname, variant, F0)
    try:
        x = x0.copy()
        y = x.copy()
        args, kw = build_call(x, kind, mname, variant)
    except Skip as s:
        row["skip"] = str(s)
        return row
    except Exception as e:
        row["skip"] = "argument synthesis failed: " + errname(e)
        return row
    row["kw"] = sorted(kw)
    Fy0 = fp(y)
    kf, df = compare(F0, Fy0)
    if kf == "public":
        row["copy_of_copy_differs"] = df
    try:
        r = invoke(x, kind, mname, args, kw)
        row["outcome"] = "ok"
    except Exception as e:
        r = None
        row["outcome"] = errname(e)
        row["msg"] = str(e)[:160]
    # whatever state a public operation leaves an object in (and whatever it
    # returns), a copy of it can still be made
    # (judged for the operations that offer an in-place switch: their not-in-place
    # form starts with a copy, so an uncopyable state breaks every further such call;
    # setters given ill-shaped arguments validate nothing, by design, and are not judged)
    for who, o in (("receiver", x), ("result", r)) if (kind == "method" and has_inplace(type(x), mname)
                                                     and mname != "set_data") else ():
        if is_container_obj(o) and (who == "receiver" or o is not x):
            try:
                o.copy()
            except Exception as e:
                row["copy_raises"] = who + ": " + errname(e) + ": " + str(e)[:140]
                break
    try:
        row["scribbles"] = scribble(r)
    except Exception as e:
        row["scribbles"] = -1
    Fy1 = fp(y)
    kindd, det = compare(Fy0, Fy1)
    if kindd:
        row["changed"] = kindd          # the copy noticed an operation on its source
        row["diff"] = det
    F2 = fp(x0)
    k2, d2 = compare(F0, F2)
    if k2:
        row["pool_changed"] = k2        # the source noticed an operation on its copy
        row["pool_diff"] = d2
    return row


def _own_data(x):
    if isinstance(x, cfdm.core.Data):
        return x
    try:
        return x.get_data(None)
    except Exception:
        return None


def scenario(x, mname, variant):
    """In-place protocol variants >= 3: argument values chosen to DIFFER from the
    receiver's current state, so that the operation has an effect (3, 4) or
    fails after it has started (5).  May first prepare the receiver (before its
    fingerprint is taken).  -> (args, kwargs)"""
    sig = real_signature(getattr(type(x), mname))
    names = set(sig.parameters)
    d = _own_data(x)
    nd = d.ndim if d is not None else 0
    isfield = isinstance(x, cfdm.core.Field)
    if mname == "set_data":
        if isfield and "axes" in names:
            if variant == 3:
                # a template without data and data axes receives data AND axes
                data = x.del_data(None)
                axes = x.del_data_axes(default=None)
                if data is None or axes is None:
                    da = x.domain_axes(todict=True)
                    axes = sorted(da)
                    if not axes:
                        raise Skip("no domain axes")
                    data = cfdm.Data(np.arange(int(np.prod([da[k].get_size() for k in axes])), dtype=float).reshape(
                        [da[k].get_size() for k in axes]))
                return [], {"data": data, "axes": list(axes)}
            axes = x.get_data_axes(default=None)
            if d is None or axes is None or nd < 2 or len(set(d.shape)) < 2:
                raise Skip("needs data with two axes of different sizes")
            if variant == 4:      # the same values in another axis order
                return [], {"data": d.transpose(), "axes": list(axes)[::-1]}
            return [], {"data": d.copy(), "axes": list(axes)[::-1]}      # 5: shape does not fit the axes
        # other values / another dtype, same shape (the construct stays consistent with its bounds)
        shape = d.shape if d is not None else (4,)
        if variant == 3:
            return [], {"data": cfdm.Data(np.arange(int(np.prod(shape)), dtype="f4").reshape(shape) + 7)}
        if variant == 4:
            return [], {"data": cfdm.Data(np.full(shape, "ab")), "copy": False}
        raise Skip("no raising scenario")
    if mname == "squeeze":
        if variant == 5:
            return [], {"axes": [nd + 3]}
        if d is None:
            raise Skip("no data")
        ones = [i for i, n in enumerate(d.shape) if n == 1]
        if isfield:
            if not ones:
                raise Skip("no size-1 data axis")
            ax = x.get_data_axes(default=())
            return [], {"axes": [ax[ones[0]]] if variant == 3 else None}
        if not ones:
            x.insert_dimension(0, inplace=True)
            ones = [0]
        return [], {"axes": [ones[0]] if variant == 3 else None}
    if mname == "transpose":
        if nd < 2:
            raise Skip("needs two axes")
        if variant == 5:
            return [], {"axes": [0] * nd}
        kw = {"axes": list(range(nd))[::-1] if variant == 3 else [1, 0] + list(range(2, nd))}
        if "constructs" in names:
            kw["constructs"] = variant == 3
        return [], kw
    if mname == "insert_dimension":
        if isfield:
            if variant == 5:
                return [], {"axis": "c04_no_such_axis"}
            spanned = set(x.get_data_axes(default=()))
            free = [k for k in sorted(x.domain_axes(todict=True)) if k not in spanned]
            if not free:
                free = [x.set_construct(cfdm.DomainAxis(1))]
            kw = {"axis": free[0], "position": 0 if variant == 3 else nd}
            if variant == 4 and "constructs" in names:
                kw["constructs"] = True
            return [], kw
        if d is None:
            raise Skip("no data")
        return [], {"position": nd if variant == 3 else (0 if variant == 4 else nd + 5)}
    if mname == "flatten":
        if nd < 2:
            raise Skip("needs two axes")
        return [], {"axes": [0, 1] if variant == 3 else (None if variant == 4 else [nd + 2])}
    if mname == "filled":
        if variant == 5:
            raise Skip("no raising scenario")
        if d is None or d.dtype.kind not in "iuf" or not d.size:
            raise Skip("needs numeric data")
        x[tuple([slice(0, 1)] * nd) if nd else Ellipsis] = cfdm.masked
        return [], {"fill_value": -5 if variant == 3 else None}
    if mname == "masked_values":
        if d is None or d.dtype.kind not in "iuf" or not d.size:
            raise Skip("needs numeric data")
        if variant == 5:
            return [], {"value": "not a number"}
        a = np.ma.compressed(d.array)
        if not a.size:
            raise Skip("all masked")
        return [], {"value": a[0].item() if variant == 3 else a[-1].item()}
    if mname == "apply_masking":
        if d is None and not hasattr(x, "constructs"):
            raise Skip("no data")
        if isinstance(x, cfdm.core.Data):
            if d.dtype.kind not in "iuf" or not d.size:
                raise Skip("needs numeric data")
            a = np.ma.compressed(d.array)
            if not a.size:
                raise Skip("all masked")
            if variant == 3:
                return [], {"fill_values": [a[0].item()]}
            if variant == 4:
                return [], {"valid_min": float(np.median(a))}
            return [], {"valid_range": [1, 2], "valid_min": 1}
        if variant == 5:
            raise Skip("no raising scenario")
        targets = [x] if d is not None else []
        if hasattr(x, "constructs"):
            targets += [c for _, c in sorted(x.constructs.filter_by_data(todict=True).items())][:3]
        done = 0
        for t in targets:
            td = t.get_data(None)
            if td is None or td.dtype.kind not in "iuf" or not td.size:
                continue
            a = np.ma.compressed(td.array)
            if a.size:
                t.set_property("missing_value" if variant == 3 else "valid_max", a[0].item() if variant == 3 else float(np.median(a)))
                done += 1
        if not done:
            raise Skip("nothing to mask")
        return [], ({"bounds": True} if "bounds" in names else {})
    if mname == "compress":
        return [], {"method": ["indexed_contiguous", "gathered", "c04_no_such_method"][variant - 3]}
    if mname in ("uncompress", "to_memory"):
        if variant != 3:
            raise Skip("no further scenario")
        return [], {}
    if mname == "normalise":
        if variant == 3:
            return [], {"start_index": 1}
        if variant == 4:
            return [], {"remove_empty_columns": True}
        return [], {"start_index": 7}
    raise Skip("no scenario for this method")


def run_protocol_case(pool, row, x0, kind, mname, variant, F0):
    """m(inplace=False) leaves the receiver unchanged and returns what
    m(inplace=True) makes of a copy; the placeholder never survives."""
    x = x0.copy()
    try:
        args, kw = build_call(x, kind, mname, variant) if variant < 3 else scenario(x, mname, variant)
    except Skip as s:
        row["skip"] = str(s)
        return row
    except Exception as e:
        row["skip"] = "argument synthesis failed: " + errname(e)
        return row
    if variant >= 3:
        try:
            x.copy()
        except Exception as e:
            # reported where it arises (run_case: copy_raises); nothing can be said here
            row["skip"] = "prepared receiver cannot be copied: " + errname(e)
            return row
    Fx0 = fp(x)
    kw.pop("inplace", None)
    row["kw"] = sorted(kw)
    # variant 2: provoke an error after the wrapper has started (unknown keyword)
    if variant == 2:
        kw["c04_no_such_keyword"] = 1
    try:
        r = getattr(x, mname)(*args, inplace=False, **kw)
        row["outcome"] = "ok"
    except Exception as e:
        r = None
        row["outcome"] = errname(e)
        row["msg"] = str(e)[:160]
    F1 = fp(x)
    k, d = compare(Fx0, F1)
    if k:
        row["changed"] = k
        row["diff"] = d
    row["placeholder_receiver"] = has_placeholder(x)
    z = x0.copy()
    try:
        args2, kw2 = build_call(z, kind, mname, variant) if variant < 3 else scenario(z, mname, variant)
        kw2.pop("inplace", None)
        if variant == 2:
            kw2["c04_no_such_keyword"] = 1
        r2 = getattr(z, mname)(*args2, inplace=True, **kw2)
        row["outcome_inplace"] = "ok"
        row["inplace_returns_none"] = r2 is None
    except Exception as e:
        row["outcome_inplace"] = errname(e)
    row["placeholder_inplace"] = has_placeholder(z)
    if row["outcome"] == "ok" and row.get("outcome_inplace") == "ok":
        if r is None:
            row["result_none"] = True
        else:
            row["placeholder_result"] = has_placeholder(r)
            row["result_is_receiver"] = r is x
            if is_container_obj(r) and mname != "set_data":
                try:
                    r.copy()
                except Exception as e:
                    row["copy_raises"] = "result: " + errname(e) + ": " + str(e)[:140]
            try:
                row["effect"] = pub_fp(r) != Fx0["pub"]      # did the operation do anything?
            except Exception:
                pass
            k3, d3 = compare(fp(r, raw=False), fp(z, raw=False))
            if k3:
                row["result_differs"] = k3
                row["result_diff"] = d3
    elif row["outcome"] != row.get("outcome_inplace"):
        row["outcome_mismatch"] = True
    elif row["outcome"] != "ok":
        # both raised: the in-place receiver may be partly modified (not claimed),
        # the non-in-place receiver may not (checked above)
        pass
    F2 = fp(x0)
    k2, d2 = compare(F0, F2)
    if k2:
        row["pool_changed"] = k2
        row["pool_diff"] = d2
    return row


def has_inplace(cls, mname):
    try:
        return "inplace" in real_signature(getattr(cls, mname)).parameters
    except Exception:
        return False


def do_sweep(payload):
    pool = build_pool(payload.get("scratch"))
    labels = payload["labels"]
    variants = payload.get("variants", [0, 1])
    only = payload.get("only")
    for label in labels:
        if label not in pool:
            print(json.dumps({"label": label, "missing": True}), flush=True)
            continue
        x0 = pool[label]
        try:
            F0 = fp(x0)
            Fc = fp(x0.copy())
        except Exception as e:
            print(json.dumps({"label": label, "fp_error": errname(e) + ": " + str(e)[:200]}), flush=True)
            continue
        k, d = compare(F0, Fc)
        if k == "hidden":
            k = None   # private state may legitimately differ (ignored construct types of a view)
        print(json.dumps({"label": label, "cls": type(x0).__name__, "copyfid": k, "diff": d,
                          "stable": compare(F0, fp(x0))[0] is None}), flush=True)
        for kind, mname in operations(type(x0)):
            if only and mname not in only:
                continue
            if mname in SKIP_METHODS:
                print(json.dumps({"label": label, "cls": type(x0).__name__, "kind": kind, "m": mname,
                                  "skip": SKIP_METHODS[mname]}), flush=True)
                continue
            if kind == "classmethod":
                print(json.dumps({"label": label, "cls": type(x0).__name__, "kind": kind, "m": mname,
                                  "skip": "class-level constructor: no receiver"}), flush=True)
                continue
            for variant in variants:
                for direction in ["M"]:
                    t0 = time.time()
                    try:
                        row = run_case(pool, label, kind, mname, variant, direction, F0)
                        row["t"] = round(time.time() - t0, 3)
                    except Exception as e:
                        row = {"label": label, "kind": kind, "m": mname, "v": variant, "dir": direction,
                               "harness_error": errname(e) + ": " + traceback.format_exc()[-400:]}
                    print(json.dumps(row, default=str), flush=True)
                    if row.get("pool_changed"):
                        # the pool object itself was damaged: rebuild it
                        pool = build_pool(payload.get("scratch"))
                        x0 = pool[label]
                        F0 = fp(x0)
            if kind == "method" and has_inplace(type(x0), mname):
                for variant in (0, 1, 2, 3, 4, 5):
                    try:
                        row = run_case(pool, label, kind, mname, variant, "P", F0)
                    except Exception as e:
                        row = {"label": label, "kind": kind, "m": mname, "v": variant, "dir": "P",
                               "harness_error": errname(e) + ": " + traceback.format_exc()[-400:]}
                    print(json.dumps(row, default=str), flush=True)
                    if row.get("pool_changed"):
                        pool = build_pool(payload.get("scratch"))
                        x0 = pool[label]
                        F0 = fp(x0)


def do_list(payload):
    pool = build_pool(payload.get("scratch"))
    inv = {}
    for label, o in pool.items():
        c = type(o)
        if c.__name__ not in inv:
            inv[c.__name__] = [[k, m] for k, m in operations(c)]
    public_classes = sorted(n for n, c in vars(cfdm).items() if inspect.isclass(c) and issubclass(c, Container))
    inplace_all = {}
    for n, c in vars(cfdm).items():
        if inspect.isclass(c) and issubclass(c, Container):
            ms = [m for m in sorted(dir(c)) if not m.startswith("_") and callable(getattr(c, m, None))
                  and not isinstance(inspect.getattr_static(c, m), (property, classmethod, staticmethod))
                  and has_inplace(c, m)]
            if ms:
                inplace_all[n] = ms
    print(json.dumps({"labels": [[l, type(o).__name__] for l, o in pool.items()], "inventory": inv,
                      "public_classes": public_classes, "inplace_methods_all": inplace_all}))


def main():
    payload = json.load(sys.stdin)
    mode = payload["mode"]
    if mode == "list":
        do_list(payload)
    elif mode == "sweep":
        do_sweep(payload)
    elif mode == "graph":
        do_graph(payload)
    elif mode == "protocol":
        do_protocol(payload)
    else:
        raise SystemExit("unknown mode")


def tok(s):
    s = "".join(ch if (32 <= ord(ch) < 127 and ch not in '"\\') else "?" for ch in str(s))
    return s if len(s) <= 24 else s[:10] + "#" + _h(s.encode())[:8]


class Grapher:
    """Object graph -> tree with addresses (Model.obj).  One instance numbers
    the cells of several roots consistently (same Python object, same address)."""

    def __init__(self):
        self.ids = {}
        self.keep = []

    def addr(self, o):
        k = id(o)
        if k not in self.ids:
            self.ids[k] = len(self.ids)
            self.keep.append(o)
        return self.ids[k]

    def tree(self, o, onpath=None, depth=0):
        onpath = onpath or set()
        if isinstance(o, SIMPLE):
            return {"i": tok(type(o).__name__ + ":" + repr(o))}
        if isinstance(o, np.generic):
            return {"i": tok("np:" + repr(o.item()))}
        if isinstance(o, np.ndarray):
            return {"b": self.addr(o), "c": int(_h(json.dumps(arr_token(o)).encode())[:7], 16)}
        if id(o) in onpath or depth > 40:
            return {"i": "<cycle>"}
        onpath = onpath | {id(o)}
        if isinstance(o, dict):
            kids = [[tok(repr(k)), self.tree(v, onpath, depth + 1)] for k, v in o.items()]
            return {"n": self.addr(o), "cls": "dict", "k": sorted(kids, key=lambda p: p[0])}
        if isinstance(o, list):
            return {"n": self.addr(o), "cls": "list",
                    "k": [["%03d" % i, self.tree(v, onpath, depth + 1)] for i, v in enumerate(o)]}
        if isinstance(o, tuple):
            kids = [self.tree(v, onpath, depth + 1) for v in o]
            if all("i" in k for k in kids):
                return {"i": tok("tuple:" + repr([k["i"] for k in kids]))}
            return {"n": self.addr(o), "cls": "tuple", "k": [["%03d" % i, k] for i, k in enumerate(kids)]}
        if isinstance(o, (set, frozenset)):
            return {"n": self.addr(o), "cls": "set", "k": [["items", {"i": tok(repr(sorted(repr(e) for e in o)))}]]}
        if is_container_obj(o):
            kids = []
            for k in sorted(vars(o)):
                if is_cache_attr(type(o), k):
                    continue
                kids.append([tok(k), self.tree(vars(o)[k], onpath, depth + 1)])
            return {"n": self.addr(o), "cls": type(o).__name__, "k": kids}
        return {"i": tok("<" + type(o).__name__ + ">")}


def do_graph(payload):
    pool = build_pool(payload.get("scratch"))
    for label in payload["labels"]:
        if label not in pool:
            continue
        x = pool[label]
        for how in payload.get("how", ["copy"]):
            g = Grapher()
            try:
                # warm the lazily refreshed private caches first: coordinate.get_bounds() (called by
                # the copy on its SOURCE) stores the parent's properties as the bounds'
                # 'inherited_properties', and Bounds.get_data() stores inherited units on its data
                x.copy()
                tx = g.tree(x)
                n = len(g.ids)
                y = x.copy() if how == "copy" else pycopy.deepcopy(x)
                ty = g.tree(y)
                # every numpy buffer of y against every buffer of x: memory overlap
                bx = [o for o in g.keep[:n] if isinstance(o, np.ndarray)]
                by = [o for o in g.keep[n:] if isinstance(o, np.ndarray)]
                overlap = sum(1 for a in bx for b in by if np.shares_memory(a, b))
                print(json.dumps({"label": label, "cls": type(x).__name__, "how": how, "n": n, "x": tx, "y": ty,
                                  "fresh_buffers_overlapping_source": overlap}), flush=True)
            except Exception as e:
                print(json.dumps({"label": label, "how": how, "graph_error": errname(e) + ": " + str(e)[:200]}), flush=True)
        if payload.get("set_data") and hasattr(x, "set_data") and not isinstance(x, cfdm.core.Data):
            try:
                sig = real_signature(type(x).set_data)
                if "inplace" in sig.parameters and x.has_data():
                    g = Grapher()
                    tx = g.tree(x)
                    n = len(g.ids)
                    d = _data_like(x, 0)
                    r = x.set_data(d, inplace=False)
                    tr_ = g.tree(r)
                    print(json.dumps({"label": label, "cls": type(x).__name__, "how": "set_data", "n": n,
                                      "x": tx, "y": tr_}), flush=True)
            except Exception as e:
                print(json.dumps({"label": label, "how": "set_data", "graph_error": errname(e) + ": " + str(e)[:200]}), flush=True)


def do_protocol(payload):
    raise SystemExit("protocol mode not built yet")


if __name__ == "__main__":
    main()
