"""Drive cfdm reads of hand-encoded netCDF variables for C07 (PYTHONPATH=/repo).

stdin: {"scratch": dir, "groups": [{"gid": n, "cases": [case, ...]}, ...]}
One JSON line per case on stdout:
  {"i": case index, "ref": obs | {"err":..}, "raw": obs,
   "cf": {"<backend>|<mask>|<unpack>": {"whole": obs|{"err"}, "sub": .., "mask": .., "applied": .., "decl": dtype}}}

A case is one netCDF variable: {"i", "dt", "shape", "data", "fill", "attrs", "idx", "kind"}
  data / attribute values: int | "nan" | "inf" | "-inf" | float (inexact cases only)
  attrs: {name: {"t": dtype tag | "str", "v": [values] | "text", "vec": bool}}
  kind: "field" (a data variable) | "aux" (auxiliary coordinate with bounds of a carrier field)
"""
import json
import os
import sys
import warnings

import numpy as np

warnings.simplefilter("ignore")

import netCDF4  # noqa: E402

import cfdm  # noqa: E402

ERR = {IndexError: "IndexErr", ValueError: "ValueErr", TypeError: "TypeErr", KeyError: "KeyErr"}


def errclass(e):
    for k, v in ERR.items():
        if isinstance(e, k):
            return v
    return "OtherErr:" + type(e).__name__


def dec(x):
    if x == "nan":
        return float("nan")
    if x == "inf":
        return float("inf")
    if x == "-inf":
        return float("-inf")
    return x


def enc(v, kind):
    if kind == "f":
        v = float(v)
        if v != v:
            return "nan"
        if v in (float("inf"), float("-inf")):
            return "inf" if v > 0 else "-inf"
        if v.is_integer():
            return int(v)
        return v
    if kind in "iu":
        return int(v)
    if kind == "b":
        return bool(v)
    return str(v)


def obs_array(a):
    a = np.ma.asanyarray(a)
    mask = np.ma.getmaskarray(a)
    kind = a.dtype.kind
    flat = [None if m else enc(v, kind) for v, m in zip(a.data.ravel().tolist(), mask.ravel().tolist())]
    if kind in "SUO":
        flat = []
        for v, m in zip(a.data.ravel().tolist(), mask.ravel().tolist()):
            if m:
                flat.append(None)
            else:
                v = v.decode("utf8", "replace") if isinstance(v, bytes) else str(v)
                flat.append(v.rstrip("\x00"))
    return {"dtype": a.dtype.str[1:] if kind in "iuf" else ("str" if kind in "SUO" else a.dtype.kind),
            "shape": list(a.shape), "flat": flat}


def np_vals(vals, t):
    if t in ("f4", "f8"):
        return np.array([dec(v) for v in vals], dtype=t)
    return np.array([int(v) for v in vals], dtype=t)


def set_raw_attr(v, name, a):
    """Write an attribute with exactly the given type (netCDF4-python would cast
    missing_value / valid_* to the variable's type when that is safe)."""
    if a["t"] == "str":
        val = a["v"]
    else:
        arr = np_vals(a["v"], a["t"])
        val = arr if a.get("vec") else arr[0]
    tmp = "tmp__" + name.strip("_")
    v.setncattr(tmp, val)
    v.renameAttribute(tmp, name)


def mk_index(idx):
    out = []
    for i in idx:
        if i[0] == "int":
            out.append(int(i[1]))
        elif i[0] == "slice":
            out.append(slice(i[1], i[2], i[3]))
        elif i[0] == "list":
            out.append(list(i[1]))
    return tuple(out)


def write_group(fn, cases):
    nc = netCDF4.Dataset(fn, "w", format="NETCDF4")
    dims = {}

    def dim(n):
        if n not in dims:
            nc.createDimension(f"d{n}", n)
            dims[n] = f"d{n}"
        return dims[n]

    nc.createDimension("bnd", 2)
    for c in cases:
        name = f"v{c['i']}"
        dnames = tuple(dim(n) for n in c["shape"])
        fill = c.get("fill")
        kw = {}
        if fill is not None:
            kw["fill_value"] = np_vals([fill], c["dt"])[0]
        v = nc.createVariable(name, c["dt"], dnames, endian=c.get("endian", "native"), **kw)
        v.set_auto_maskandscale(False)
        v.setncattr("long_name", name)
        for k, a in c["attrs"].items():
            set_raw_attr(v, k, a)
        v[...] = np_vals(c["data"], c["dt"]).reshape(c["shape"])
        if c.get("kind") == "aux":
            # carrier field + bounds; the bounds hold the same raw values twice
            b = nc.createVariable(name + "_bnds", c["dt"], dnames + ("bnd",), endian=c.get("bendian", "native"), **kw)
            b.set_auto_maskandscale(False)
            for k, a in c["attrs"].items():
                set_raw_attr(b, k, a)
            arr = np_vals(c["data"], c["dt"]).reshape(c["shape"])
            b[...] = np.stack([arr, arr], axis=-1)
            v.setncattr("bounds", name + "_bnds")
            f = nc.createVariable(name + "_carrier", "f8", dnames)
            f.setncattr("long_name", name + "_carrier")
            f.setncattr("coordinates", name)
            f[...] = np.arange(int(np.prod(c["shape"])), dtype="f8").reshape(c["shape"])
    nc.close()


def reference(fn, cases, rows):
    nc = netCDF4.Dataset(fn, "r")
    for c in cases:
        v = nc.variables[f"v{c['i']}"]
        row = rows[c["i"]]
        try:
            v.set_auto_maskandscale(False)
            row["raw"] = obs_array(v[...])
        except Exception as ex:
            row["raw"] = {"err": errclass(ex)}
        try:
            v.set_auto_maskandscale(True)
            row["ref"] = obs_array(v[...])
        except Exception as ex:
            row["ref"] = {"err": errclass(ex), "msg": str(ex)[:120]}
        try:
            v.set_auto_maskandscale(False)
            v.set_auto_mask(True)
            row["ref_mask_only"] = obs_array(v[...])
        except Exception as ex:
            row["ref_mask_only"] = {"err": errclass(ex), "msg": str(ex)[:120]}
    nc.close()


def scribble(a):
    """Overwrite a returned array in place (values and mask), so that any aliasing of the
    implementation's internal state shows up on the later reads."""
    try:
        d = np.ma.getdata(a)
        if d.dtype.kind in "iuf":
            d[...] = 7
        elif d.dtype.kind in "SU":
            d[...] = "Q"
        m = np.ma.getmask(a)
        if m is not np.ma.nomask:
            m[...] = ~m
    except Exception:
        pass


def attempt(fun):
    try:
        a = fun()
        o = obs_array(a)
        scribble(a)
        return o
    except Exception as ex:
        return {"err": errclass(ex), "msg": (type(ex).__name__ + ": " + str(ex))[:160]}


def observe(x, c, mask, out):
    """x: a construct with data read from the case's variable."""
    try:
        out["decl"] = x.data.dtype.str[1:]          # declared before any data are read
    except Exception as ex:
        out["decl"] = "err:" + errclass(ex)
    out["whole"] = attempt(lambda: x.array)
    if c.get("idx") is not None and c["shape"]:
        idx = mk_index(c["idx"])
        out["sub"] = attempt(lambda: x[idx].array)
        out["subd"] = attempt(lambda: x.data[idx].array)
    out["mask"] = attempt(lambda: x.data.mask.array)
    if hasattr(x, "has_bounds") and x.has_bounds():
        out["bwhole"] = attempt(lambda: x.bounds.array)


def cfdm_reads(fn, cases, rows, configs):
    for (backend, mask, unpack) in configs:
        key = f"{backend}|{int(mask)}|{int(unpack)}"
        try:
            fs = cfdm.read(fn, netcdf_backend=backend, mask=mask, unpack=unpack)
            byname = {f.nc_get_variable(): f for f in fs}
            rerr = None
        except Exception as ex:
            byname = {}
            rerr = {"err": errclass(ex), "msg": ("read: " + type(ex).__name__ + ": " + str(ex))[:160]}
        for c in cases:
            name = f"v{c['i']}"
            out = {}
            rows[c["i"]]["cf"][key] = out
            if rerr is not None:
                out["whole"] = rerr
                out["read_failed"] = True
                continue
            if c.get("kind") == "aux":
                f = byname.get(name + "_carrier")
                if f is None:
                    out["whole"] = {"err": "Missing", "msg": "carrier field not found"}
                    continue
                x = None
                for k, a in f.auxiliary_coordinates(todict=True).items():
                    if a.nc_get_variable(None) == name:
                        x = a
                if x is None:
                    out["whole"] = {"err": "Missing", "msg": "auxiliary coordinate not found"}
                    continue
                observe(x, c, mask, out)
                if not mask:
                    def app():
                        g = f.apply_masking()
                        for k, a in g.auxiliary_coordinates(todict=True).items():
                            if a.nc_get_variable(None) == name:
                                return a
                    try:
                        y = app()
                        out["applied"] = attempt(lambda: y.array)
                        out["bapplied"] = attempt(lambda: y.bounds.array)
                        out["unchanged"] = attempt(lambda: x.array) == out["whole"]

                        def app_in():
                            g = f.copy()
                            g.apply_masking(inplace=True)
                            for k, a in g.auxiliary_coordinates(todict=True).items():
                                if a.nc_get_variable(None) == name:
                                    return a
                        z = app_in()
                        out["applied_inplace"] = attempt(lambda: z.array)
                    except Exception as ex:
                        out["applied"] = {"err": errclass(ex), "msg": (type(ex).__name__ + ": " + str(ex))[:160]}
                        out["bapplied"] = out["applied"]
                continue
            f = byname.get(name)
            if f is None:
                out["whole"] = {"err": "Missing", "msg": "field not found"}
                continue
            observe(f, c, mask, out)
            if not mask:
                g0 = f.apply_masking()
                out["applied"] = attempt(lambda: g0.array)
                out["applied_again"] = attempt(lambda: g0.array)      # after the returned array was overwritten
                out["applied_inplace"] = attempt(lambda: (lambda g: (g.apply_masking(inplace=True), g)[1])(f.copy()).array)
                out["unchanged"] = attempt(lambda: f.array) == out["whole"]


# ---------------------------------------------------------------- families with several variables per case
def written(var):
    """(array of all values, number of leading rows that are written)"""
    n = var["n"]
    arr = np_vals(var["data"], var["dt"]).reshape(var["shape"])
    return arr, n - var.get("nw", 0)


def put_var(nc, name, var, dnames, extra=None):
    kw = {}
    if var.get("fill") is not None:
        kw["fill_value"] = np_vals([var["fill"]], var["dt"])[0]
    v = nc.createVariable(name, var["dt"], dnames, endian=var.get("endian", "native"), **kw)
    v.set_auto_maskandscale(False)
    for k, a in var["attrs"].items():
        set_raw_attr(v, k, a)
    for k, a in (extra or {}).items():
        v.setncattr(k, a)
    arr, nwritten = written(var)
    if nwritten > 0:
        v[0:nwritten] = arr[0:nwritten]          # the trailing rows are never written: the library pre-fills them
    return v


def write_pair(nc, c):
    i = c["i"]
    p, ch = c["parent"], c.get("child")
    n = p["n"]
    d = f"p{i}"
    nc.createDimension(d, n)
    carrier = nc.createVariable(f"c{i}", "f8", (d,))
    carrier.setncattr("long_name", f"c{i}")
    carrier[...] = np.arange(n, dtype="f8")
    ck = c["ckind"]
    if ck == "dim":
        pname = d
        put_var(nc, pname, p, (d,), {"long_name": f"dim{i}"} | ({"bounds": f"{d}_bnds"} if ch else {}))
        if ch:
            put_var(nc, f"{d}_bnds", ch, (d, "bnd"))
    elif ck == "aux":
        pname = f"a{i}"
        put_var(nc, pname, p, (d,), {"long_name": pname} | ({"bounds": f"{pname}_bnds"} if ch else {}))
        if ch:
            put_var(nc, f"{pname}_bnds", ch, (d, "bnd"))
        carrier.setncattr("coordinates", pname)
    elif ck == "domanc":
        pname = f"da{i}"
        z = nc.createVariable(d, "f8", (d,))
        z.setncattr("standard_name", "atmosphere_hybrid_sigma_pressure_coordinate")
        z.setncattr("formula_terms", f"a: {pname}")
        z[...] = np.arange(n, dtype="f8")
        if ch:
            z.setncattr("bounds", f"{d}_bnds")
            zb = nc.createVariable(f"{d}_bnds", "f8", (d, "bnd"))
            zb.setncattr("formula_terms", f"a: {pname}_bnds")
            zb[...] = np.stack([np.arange(n), np.arange(n) + 1], axis=-1).astype("f8")
        put_var(nc, pname, p, (d,), {"long_name": pname})
        if ch:
            put_var(nc, f"{pname}_bnds", ch, (d, "bnd"))
    elif ck == "cellm":
        pname = f"m{i}"
        put_var(nc, pname, p, (d,), {"units": "m2"})
        carrier.setncattr("cell_measures", f"area: {pname}")
    else:
        pname = f"fa{i}"
        put_var(nc, pname, p, (d,), {"long_name": pname})
        carrier.setncattr("ancillary_variables", pname)


GEOM = {"node_count": [10, 3], "part_node_count": [3, 4, 3, 3], "interior_ring": [0, 1, 0, 0],
        "x": [20, 10, 0, 5, 10, 15, 10, 20, 10, 0, 50, 40, 30], "y": [0, 15, 0, 5, 10, 5, 5, 20, 35, 20, 0, 15, 0]}


def write_geom(nc, c):
    """The polygon geometry of cfdm.example_field(6) with chosen data types and pre-filled elements."""
    i = c["i"]
    inst, node, part = f"inst{i}", f"node{i}", f"part{i}"
    nc.createDimension(inst, 2)
    nc.createDimension(node, 13)
    nc.createDimension(part, 4)
    g = nc.createVariable(f"geom{i}", "i4", ())
    g.setncatts({"geometry_type": "polygon", "node_coordinates": f"x{i} y{i}" + (f" z{i}" if c.get("z") else ""),
                 "coordinates": f"lon{i} lat{i}",
                 "node_count": f"nc{i}", "part_node_count": f"pnc{i}", "interior_ring": f"ir{i}"})
    for nm, vals in (("nc", GEOM["node_count"]), ("pnc", GEOM["part_node_count"])):
        v = nc.createVariable(f"{nm}{i}", "i4", (inst if nm == "nc" else part,), endian=c.get("count_endian", "native"))
        v[...] = vals
    for nm, key, dim in (("ir", "ir", part), ("x", "x", node), ("y", "y", node), ("lon", "lon", inst), ("lat", "lat", inst)):
        var = c[key]
        extra = {}
        if nm in ("x", "y"):
            extra = {"axis": nm.upper(), "long_name": f"{nm}{i}"}
        if nm in ("lon", "lat"):
            extra = {"long_name": f"{nm}{i}", "nodes": f"{'x' if nm == 'lon' else 'y'}{i}"}
        put_var(nc, f"{nm}{i}", var, (dim,), extra)
    if c.get("z"):
        put_var(nc, f"z{i}", c["z"], (node,), {"axis": "Z", "long_name": f"z{i}"})
    f = nc.createVariable(f"c{i}", "f8", (inst,))
    f.setncatts({"long_name": f"c{i}", "coordinates": f"lon{i} lat{i}", "geometry": f"geom{i}"})
    f[...] = [1.0, 2.0]


def write_dsg(nc, c):
    """A contiguous ragged array: count variable, data and a coordinate on the sample dimension."""
    i = c["i"]
    st, ob = f"st{i}", f"ob{i}"
    nc.createDimension(st, 2)
    nc.createDimension(ob, 5)
    rs = nc.createVariable(f"rs{i}", c["count_dt"], (st,), endian=c.get("count_endian", "native"))
    rs.setncatts({"sample_dimension": ob, "long_name": f"rs{i}"})
    rs[...] = [3, 2]
    put_var(nc, f"c{i}", c["data_var"], (ob,), {"long_name": f"c{i}", "coordinates": f"t{i} la{i}"})
    put_var(nc, f"t{i}", c["time"], (ob,), {"long_name": f"t{i}"})
    put_var(nc, f"la{i}", c["lat"], (st,), {"long_name": f"la{i}"})


def write_string(nc, c):
    i = c["i"]
    n = len(c["data"])
    d = f"s{i}"
    nc.createDimension(d, n)
    kw = {}
    if c["dt"] == "S1":
        L = c["strlen"]
        nc.createDimension(f"l{i}", L)
        if c.get("fill") is not None:
            kw["fill_value"] = c["fill"].encode()
        v = nc.createVariable(f"c{i}", "S1", (d, f"l{i}"), **kw)
        v.set_auto_maskandscale(False)
        v.set_auto_chartostring(False)
        for k, x in enumerate(c["data"]):
            if x is not None:
                v[k] = np.array(list(x.ljust(L, "\x00")), dtype="S1")
    else:
        if c.get("fill") is not None:
            kw["fill_value"] = c["fill"]
        v = nc.createVariable(f"c{i}", str, (d,), **kw)
        for k, x in enumerate(c["data"]):
            if x is not None:
                v[k] = x
    v.setncattr("long_name", f"c{i}")
    if c.get("missing_value") is not None:
        v.setncattr("missing_value", c["missing_value"])


WRITERS = {"pair": write_pair, "geom": write_geom, "dsg": write_dsg, "string": write_string}


def all_arrays(f):
    """Every array the field presents: its data, each metadata construct with data (by netCDF
    variable name), their bounds and interior rings."""
    out = {"<field>": attempt(lambda: f.array)}
    for key, x in sorted(f.constructs.filter_by_data(todict=True).items()):
        name = x.nc_get_variable(None) or key
        if x.has_data():
            out[name] = attempt(lambda: x.array)
        if hasattr(x, "has_bounds") and x.has_bounds():
            out[name + "|bounds"] = attempt(lambda: x.bounds.array)
        if hasattr(x, "get_interior_ring") and x.get_interior_ring(None) is not None:
            out[name + "|interior_ring"] = attempt(lambda: x.get_interior_ring().array)
    return out


def reference_multi(fn, cases, rows):
    nc = netCDF4.Dataset(fn, "r")
    for c in cases:
        i = c["i"]
        ref = {}
        rows[i]["refs"] = ref
        for name, v in nc.variables.items():
            digits = "".join(ch for ch in name.split("_")[0] if ch.isdigit())
            if digits != str(i):
                continue
            o = {}
            ref[name] = o
            if c["kind"] == "string":
                try:
                    v.set_auto_maskandscale(False)
                    v.set_auto_chartostring(False)
                    a = v[...]
                    if v.dtype == "S1":
                        a = netCDF4.chartostring(np.asarray(a))
                    o["raw"] = obs_array(a)
                except Exception as ex:
                    o["raw"] = {"err": errclass(ex), "msg": str(ex)[:120]}
                try:
                    v.set_auto_maskandscale(True)
                    a = v[...]
                    if v.dtype == "S1":
                        a = np.ma.asanyarray(a)
                        m = np.ma.getmaskarray(a).all(axis=-1)
                        a = np.ma.array(netCDF4.chartostring(np.asarray(np.ma.getdata(a))), mask=m)
                    o["ref"] = obs_array(a)
                except Exception as ex:
                    o["ref"] = {"err": errclass(ex), "msg": str(ex)[:120]}
                continue
            for key, (ms, sc) in (("raw", (False, False)), ("ref", (True, True)), ("ref_mask_only", (True, False))):
                try:
                    v.set_auto_maskandscale(False)
                    if ms:
                        v.set_auto_mask(True)
                    if sc:
                        v.set_auto_scale(True)
                    o[key] = obs_array(v[...])
                except Exception as ex:
                    o[key] = {"err": errclass(ex), "msg": str(ex)[:120]}
    nc.close()


def cfdm_reads_multi(fn, cases, rows, configs):
    for (backend, mask, unpack) in configs:
        key = f"{backend}|{int(mask)}|{int(unpack)}"
        try:
            fs = cfdm.read(fn, netcdf_backend=backend, mask=mask, unpack=unpack)
            byname = {f.nc_get_variable(): f for f in fs}
            rerr = None
        except Exception as ex:
            byname = {}
            rerr = {"err": errclass(ex), "msg": ("read: " + type(ex).__name__ + ": " + str(ex))[:200]}
        for c in cases:
            out = {}
            rows[c["i"]]["cf"][key] = out
            if rerr is not None:
                out["read_failed"] = rerr
                continue
            f = byname.get(f"c{c['i']}")
            if f is None:
                out["read_failed"] = {"err": "Missing", "msg": "field not found"}
                continue
            try:
                out["all"] = all_arrays(f)
                if not mask:
                    g0 = f.apply_masking()
                    out["applied"] = all_arrays(g0)
                    out["applied_again"] = all_arrays(g0)      # after the returned arrays were overwritten
                    g = f.copy()
                    g.apply_masking(inplace=True)
                    out["applied_inplace"] = all_arrays(g)
                    out["after"] = all_arrays(f)
                    # construct by construct, as a user would
                    solo = {}
                    for ck, x in sorted(f.constructs.filter_by_data(todict=True).items()):
                        name = x.nc_get_variable(None) or ck
                        y = x.apply_masking()
                        if y.has_data():
                            solo[name] = attempt(lambda: y.array)
                        if hasattr(y, "has_bounds") and y.has_bounds():
                            solo[name + "|bounds"] = attempt(lambda: y.bounds.array)
                    out["applied_solo"] = solo
            except Exception as ex:
                out["failed"] = {"err": errclass(ex), "msg": (type(ex).__name__ + ": " + str(ex))[:200]}


def main():
    p = json.load(sys.stdin)
    scratch = p["scratch"]
    configs = [tuple(x) for x in p["configs"]]
    for g in p["groups"]:
        cases = g["cases"]
        rows = {c["i"]: {"i": c["i"], "cf": {}} for c in cases}
        fn = os.path.join(scratch, f"c07_{os.getpid()}_{g['gid']}.nc")
        multi = cases[0].get("kind") in WRITERS
        try:
            if multi:
                nc = netCDF4.Dataset(fn, "w", format="NETCDF4")
                nc.createDimension("bnd", 2)
                if any(c["kind"] == "dsg" for c in cases):
                    nc.setncattr("featureType", "timeSeries")
                for c in cases:
                    WRITERS[c["kind"]](nc, c)
                nc.close()
            else:
                write_group(fn, cases)
        except Exception as ex:
            for c in cases:
                rows[c["i"]]["harness_err"] = "write: " + type(ex).__name__ + ": " + str(ex)[:200]
                print(json.dumps(rows[c["i"]]), flush=True)
            continue
        try:
            if multi:
                reference_multi(fn, cases, rows)
                cfdm_reads_multi(fn, cases, rows, configs)
            else:
                reference(fn, cases, rows)
                cfdm_reads(fn, cases, rows, configs)
        except Exception as ex:
            for c in cases:
                rows[c["i"]].setdefault("harness_err", type(ex).__name__ + ": " + str(ex)[:200])
        for c in cases:
            print(json.dumps(rows[c["i"]]), flush=True)
        try:
            os.remove(fn)
        except OSError:
            pass


main()
