"""Drive cfdm reads of hand-encoded netCDF variables for C07 (PYTHONPATH=/repo).

stdin: {"scratch": dir, "groups": [{"gid": n, "cases": [case, ...]}, ...]}
One JSON line per case on stdout:
  {"i": case index, "ref": obs | {"err":..}, "raw": obs,
   "cf": {"<backend>|<mask>|<unpack>": {"whole": obs|{"err"}, "sub": .., "mask": .., "applied": .., "decl": dtype}}}

A case is one netCDF variable: {"i", "dt", "shape", "data", "fill", "attrs", "idx", "kind"}
  data / attribute values: int | "nan" | "inf" | "-inf" | float (inexact cases only)
  attrs: {name: {"t": dtype tag | "str", "v": [values] | "text", "vec": bool}}
  kind: "field" (a data variable) | "aux" (auxiliary coordinate with bounds of a carrier field)
"""
import json
import os
import sys
import warnings

import numpy as np

warnings.simplefilter("ignore")

import netCDF4  # noqa: E402

import cfdm  # noqa: E402

ERR = {IndexError: "IndexErr", ValueError: "ValueErr", TypeError: "TypeErr", KeyError: "KeyErr"}


def errclass(e):
    for k, v in ERR.items():
        if isinstance(e, k):
            return v
    return "OtherErr:" + type(e).__name__


def dec(x):
    if x == "nan":
        return float("nan")
    if x == "inf":
        return float("inf")
    if x == "-inf":
        return float("-inf")
    return x


def enc(v, kind):
    if kind == "f":
        v = float(v)
        if v != v:
            return "nan"
        if v in (float("inf"), float("-inf")):
            return "inf" if v > 0 else "-inf"
        if v.is_integer():
            return int(v)
        return v
    if kind in "iu":
        return int(v)
    if kind == "b":
        return bool(v)
    return str(v)


def obs_array(a):
    a = np.ma.asanyarray(a)
    mask = np.ma.getmaskarray(a)
    kind = a.dtype.kind
    flat = [None if m else enc(v, kind) for v, m in zip(a.data.ravel().tolist(), mask.ravel().tolist())]
    return {"dtype": a.dtype.str[1:] if kind in "iuf" else a.dtype.kind, "shape": list(a.shape), "flat": flat}


def np_vals(vals, t):
    if t in ("f4", "f8"):
        return np.array([dec(v) for v in vals], dtype=t)
    return np.array([int(v) for v in vals], dtype=t)


def set_raw_attr(v, name, a):
    """Write an attribute with exactly the given type (netCDF4-python would cast
    missing_value / valid_* to the variable's type when that is safe)."""
    if a["t"] == "str":
        val = a["v"]
    else:
        arr = np_vals(a["v"], a["t"])
        val = arr if a.get("vec") else arr[0]
    tmp = "tmp__" + name.strip("_")
    v.setncattr(tmp, val)
    v.renameAttribute(tmp, name)


def mk_index(idx):
    out = []
    for i in idx:
        if i[0] == "int":
            out.append(int(i[1]))
        elif i[0] == "slice":
            out.append(slice(i[1], i[2], i[3]))
        elif i[0] == "list":
            out.append(list(i[1]))
    return tuple(out)


def write_group(fn, cases):
    nc = netCDF4.Dataset(fn, "w", format="NETCDF4")
    dims = {}

    def dim(n):
        if n not in dims:
            nc.createDimension(f"d{n}", n)
            dims[n] = f"d{n}"
        return dims[n]

    nc.createDimension("bnd", 2)
    for c in cases:
        name = f"v{c['i']}"
        dnames = tuple(dim(n) for n in c["shape"])
        fill = c.get("fill")
        kw = {}
        if fill is not None:
            kw["fill_value"] = np_vals([fill], c["dt"])[0]
        v = nc.createVariable(name, c["dt"], dnames, **kw)
        v.set_auto_maskandscale(False)
        v.setncattr("long_name", name)
        for k, a in c["attrs"].items():
            set_raw_attr(v, k, a)
        v[...] = np_vals(c["data"], c["dt"]).reshape(c["shape"])
        if c.get("kind") == "aux":
            # carrier field + bounds; the bounds hold the same raw values twice
            b = nc.createVariable(name + "_bnds", c["dt"], dnames + ("bnd",), **kw)
            b.set_auto_maskandscale(False)
            for k, a in c["attrs"].items():
                set_raw_attr(b, k, a)
            arr = np_vals(c["data"], c["dt"]).reshape(c["shape"])
            b[...] = np.stack([arr, arr], axis=-1)
            v.setncattr("bounds", name + "_bnds")
            f = nc.createVariable(name + "_carrier", "f8", dnames)
            f.setncattr("long_name", name + "_carrier")
            f.setncattr("coordinates", name)
            f[...] = np.arange(int(np.prod(c["shape"])), dtype="f8").reshape(c["shape"])
    nc.close()


def reference(fn, cases, rows):
    nc = netCDF4.Dataset(fn, "r")
    for c in cases:
        v = nc.variables[f"v{c['i']}"]
        row = rows[c["i"]]
        try:
            v.set_auto_maskandscale(False)
            row["raw"] = obs_array(v[...])
        except Exception as ex:
            row["raw"] = {"err": errclass(ex)}
        try:
            v.set_auto_maskandscale(True)
            row["ref"] = obs_array(v[...])
        except Exception as ex:
            row["ref"] = {"err": errclass(ex), "msg": str(ex)[:120]}
        try:
            v.set_auto_maskandscale(False)
            v.set_auto_mask(True)
            row["ref_mask_only"] = obs_array(v[...])
        except Exception as ex:
            row["ref_mask_only"] = {"err": errclass(ex), "msg": str(ex)[:120]}
    nc.close()


def attempt(fun):
    try:
        return obs_array(fun())
    except Exception as ex:
        return {"err": errclass(ex), "msg": (type(ex).__name__ + ": " + str(ex))[:160]}


def observe(x, c, mask, out):
    """x: a construct with data read from the case's variable."""
    out["whole"] = attempt(lambda: x.array)
    try:
        out["decl"] = x.data.dtype.str[1:]
    except Exception as ex:
        out["decl"] = "err:" + errclass(ex)
    if c.get("idx") is not None and c["shape"]:
        idx = mk_index(c["idx"])
        out["sub"] = attempt(lambda: x[idx].array)
        out["subd"] = attempt(lambda: x.data[idx].array)
    out["mask"] = attempt(lambda: x.data.mask.array)
    if hasattr(x, "has_bounds") and x.has_bounds():
        out["bwhole"] = attempt(lambda: x.bounds.array)


def cfdm_reads(fn, cases, rows, configs):
    for (backend, mask, unpack) in configs:
        key = f"{backend}|{int(mask)}|{int(unpack)}"
        try:
            fs = cfdm.read(fn, netcdf_backend=backend, mask=mask, unpack=unpack)
            byname = {f.nc_get_variable(): f for f in fs}
            rerr = None
        except Exception as ex:
            byname = {}
            rerr = {"err": errclass(ex), "msg": ("read: " + type(ex).__name__ + ": " + str(ex))[:160]}
        for c in cases:
            name = f"v{c['i']}"
            out = {}
            rows[c["i"]]["cf"][key] = out
            if rerr is not None:
                out["whole"] = rerr
                out["read_failed"] = True
                continue
            if c.get("kind") == "aux":
                f = byname.get(name + "_carrier")
                if f is None:
                    out["whole"] = {"err": "Missing", "msg": "carrier field not found"}
                    continue
                x = None
                for k, a in f.auxiliary_coordinates(todict=True).items():
                    if a.nc_get_variable(None) == name:
                        x = a
                if x is None:
                    out["whole"] = {"err": "Missing", "msg": "auxiliary coordinate not found"}
                    continue
                observe(x, c, mask, out)
                if not mask:
                    def app():
                        g = f.apply_masking()
                        for k, a in g.auxiliary_coordinates(todict=True).items():
                            if a.nc_get_variable(None) == name:
                                return a
                    try:
                        y = app()
                        out["applied"] = attempt(lambda: y.array)
                        out["bapplied"] = attempt(lambda: y.bounds.array)
                        out["unchanged"] = attempt(lambda: x.array) == out["whole"]

                        def app_in():
                            g = f.copy()
                            g.apply_masking(inplace=True)
                            for k, a in g.auxiliary_coordinates(todict=True).items():
                                if a.nc_get_variable(None) == name:
                                    return a
                        z = app_in()
                        out["applied_inplace"] = attempt(lambda: z.array)
                    except Exception as ex:
                        out["applied"] = {"err": errclass(ex), "msg": (type(ex).__name__ + ": " + str(ex))[:160]}
                        out["bapplied"] = out["applied"]
                continue
            f = byname.get(name)
            if f is None:
                out["whole"] = {"err": "Missing", "msg": "field not found"}
                continue
            observe(f, c, mask, out)
            if not mask:
                out["applied"] = attempt(lambda: f.apply_masking().array)
                out["applied_inplace"] = attempt(lambda: (lambda g: (g.apply_masking(inplace=True), g)[1])(f.copy()).array)
                out["unchanged"] = attempt(lambda: f.array) == out["whole"]


def main():
    p = json.load(sys.stdin)
    scratch = p["scratch"]
    configs = [tuple(x) for x in p["configs"]]
    for g in p["groups"]:
        cases = g["cases"]
        rows = {c["i"]: {"i": c["i"], "cf": {}} for c in cases}
        fn = os.path.join(scratch, f"c07_{os.getpid()}_{g['gid']}.nc")
        try:
            write_group(fn, cases)
        except Exception as ex:
            for c in cases:
                rows[c["i"]]["harness_err"] = "write: " + type(ex).__name__ + ": " + str(ex)[:200]
                print(json.dumps(rows[c["i"]]), flush=True)
            continue
        try:
            reference(fn, cases, rows)
            cfdm_reads(fn, cases, rows, configs)
        except Exception as ex:
            for c in cases:
                rows[c["i"]].setdefault("harness_err", type(ex).__name__ + ": " + str(ex)[:200])
        for c in cases:
            print(json.dumps(rows[c["i"]]), flush=True)
        try:
            os.remove(fn)
        except OSError:
            pass


main()
