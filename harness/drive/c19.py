"""Drive cfdm inspection (repr/str/dump) and creation_commands for C19 (PYTHONPATH=/repo).

stdin : {"mode": "cases", "scratch": dir, "cases": [recipe, ...]}   -> one JSON line per case
        {"mode": "classes"}                                          -> one JSON line: reflection inventory
A recipe is {"i": n, "base": [...], "mods": [[op, ...], ...], "select": [[step, ...], ...], "kws": [kw, ...]}
(see build()).  Everything is done through the public API of cfdm.
"""
import inspect
import json
import os
import re
import sys
import textwrap

import numpy as np

import cfdm

ERR = {IndexError: "IndexErr", ValueError: "ValueErr", TypeError: "TypeErr", KeyError: "KeyErr"}


def errclass(e):
    for k, v in ERR.items():
        if isinstance(e, k):
            return v
    return "OtherErr:" + type(e).__name__


def where(e):
    import traceback
    tb = traceback.extract_tb(e.__traceback__)
    for fr in reversed(tb):
        if "/cfdm/" in fr.filename:
            return fr.filename.split("/cfdm/", 1)[1] + ":" + str(fr.lineno)
    return tb[-1].filename + ":" + str(tb[-1].lineno) if tb else ""


# ---------------------------------------------------------------------------
# canonical values and fingerprints (independent of cfdm's equals)
# ---------------------------------------------------------------------------
def canon_value(v):
    """JSON-able canonical form of a property / parameter value (numpy
    scalars and python scalars of the same value coincide; arrays are lists)."""
    if isinstance(v, cfdm.Data):
        return ["Data", fp_data(v)]
    if isinstance(v, np.ndarray):
        return canon_value(v.tolist())
    if isinstance(v, np.generic):
        v = v.item()
    if isinstance(v, bool):
        return ["b", v]
    if isinstance(v, int):
        return ["n", float(v)] if abs(v) < 2 ** 53 else ["I", str(v)]
    if isinstance(v, float):
        if v != v:
            return ["nan"]
        if v in (float("inf"), float("-inf")):
            return ["inf", v > 0]
        return ["n", v]
    if isinstance(v, str):
        return ["s", v]
    if isinstance(v, bytes):
        return ["y", v.decode("latin1")]
    if v is None:
        return ["none"]
    if isinstance(v, (list, tuple)):
        return ["l", [canon_value(x) for x in v]]
    if isinstance(v, dict):
        return ["d", sorted([str(k), canon_value(x)] for k, x in v.items())]
    if isinstance(v, (set, frozenset)):
        return ["set", sorted(json.dumps(canon_value(x)) for x in v)]
    return ["o", type(v).__name__, repr(v)[:200]]


def fp_data(d):
    try:
        a = np.ma.asanyarray(d.array)
    except Exception as e:  # no array
        return {"noarray": type(e).__name__}
    mask = np.ma.getmaskarray(a).ravel().tolist()
    vals = a.data.ravel().tolist() if a.dtype.kind != "O" else [str(x) for x in a.data.ravel()]
    flat = [None if m else canon_value(v) for v, m in zip(vals, mask)]
    out = {"shape": list(a.shape), "kind": a.dtype.kind, "isz": a.dtype.itemsize if a.dtype.kind in "iufb" else 0,
           "flat": flat, "units": canon_value(d.get_units(None)), "cal": canon_value(d.get_calendar(None)),
           "fill": canon_value(d.get_fill_value(None))}
    # the array was recorded: overwrite it in place, so that an array that aliases the
    # object's internal state shows up as a change of the object on the next look
    try:
        raw = np.ma.getdata(a)
        if raw.size and raw.flags.writeable and raw.dtype.kind != "O":
            raw[...] = np.zeros((), raw.dtype)
        if np.ma.isMA(a) and a.mask is not np.ma.nomask and a.mask.flags.writeable:
            a.mask[...] = True
    except Exception:
        pass
    return out


SCALAR_GETTERS = [
    ("props", lambda x: x.properties()),
    ("ncvar", lambda x: x.nc_get_variable(None)),
    ("ncdim", lambda x: x.nc_get_dimension(None)),
    ("unlim", lambda x: x.nc_is_unlimited()),
    ("size", lambda x: x.get_size(None)),
    ("method", lambda x: x.get_method(None)),
    ("axes", lambda x: x.get_axes(None)),
    ("quals", lambda x: x.qualifiers()),
    ("coords", lambda x: sorted(x.coordinates())),
    ("measure", lambda x: x.get_measure(None)),
    ("external", lambda x: bool(x.nc_get_external())),
    ("geometry", lambda x: x.get_geometry(None)),
    ("clim", lambda x: bool(x.get_climatology(None))),
    ("cell", lambda x: x.get_cell(None)),
    ("conn", lambda x: x.get_connectivity(None)),
    ("globals", lambda x: x.nc_global_attributes()),
    ("nodecoord", lambda x: x.nc_get_node_coordinate_variable(None)),
    ("mesh_id", lambda x: x.get_mesh_id(None)),
    ("datum", lambda x: x.datum.parameters()),
    ("conv", lambda x: x.coordinate_conversion.parameters()),
    ("convanc", lambda x: x.coordinate_conversion.domain_ancillaries()),
    ("params", lambda x: x.parameters()),
    ("danc", lambda x: x.domain_ancillaries()),
]
SUB_GETTERS = [
    ("data", lambda x: x.get_data(None)),
    ("bounds", lambda x: x.get_bounds(None)),
    ("ring", lambda x: x.get_interior_ring(None)),
    ("node_count", lambda x: x.get_node_count(None)),
    ("part_node_count", lambda x: x.get_part_node_count(None)),
]


def fingerprint(x, names_only=False):
    if isinstance(x, cfdm.Data):
        return {"cls": "Data"} if names_only else dict(fp_data(x), cls="Data")
    if isinstance(x, np.ndarray):
        return {"cls": "ndarray", "v": canon_value(x)}
    out = {"cls": type(x).__name__}
    if isinstance(x, cfdm.core.abstract.Container) or hasattr(x, "nc_get_variable") or hasattr(x, "parameters"):
        for name, g in SCALAR_GETTERS:
            if names_only and name not in ("ncvar", "ncdim"):
                continue
            try:
                v = g(x)
            except (AttributeError, TypeError):
                continue
            except Exception as e:
                v = "EXC:" + type(e).__name__
            out[name] = canon_value(v)
        for name, g in SUB_GETTERS:
            try:
                v = g(x)
            except (AttributeError, TypeError):
                continue
            except Exception as e:
                out[name] = "EXC:" + type(e).__name__
                continue
            if v is not None:
                out[name] = fingerprint(v, names_only)
    elif isinstance(x, cfdm.core.abstract.Container) is False and hasattr(x, "shape"):
        # array objects: their realised values
        try:
            out["array"] = canon_value(np.ma.asanyarray(x.array).tolist()) if not names_only else None
        except Exception as e:
            out["array"] = "EXC:" + type(e).__name__
    if isinstance(x, (cfdm.Field, cfdm.Domain)):
        cons = {}
        try:
            da = x.constructs.data_axes()
        except Exception:
            da = {}
        for k, c in x.constructs.items():
            if c.construct_type == "cell_method":
                continue
            cons[k] = {"t": c.construct_type, "fp": fingerprint(c, names_only), "axes": canon_value(da.get(k))}
        out["constructs"] = cons
        # cell methods are inserted by creation commands without their keys: what counts is
        # the order in which they are applied
        out["cell_methods"] = [fingerprint(c, names_only)
                               for c in x.constructs.filter_by_type("cell_method", todict=True).values()]
        if isinstance(x, cfdm.Field):
            out["data_axes"] = canon_value(x.get_data_axes(default=None))
    return out


def J(o):
    return json.dumps(o, sort_keys=True)


def H(o):
    """short stable token of a canonical value (what the Coq model carries)"""
    import hashlib
    return hashlib.sha1(J(o).encode()).hexdigest()[:13]


# ---------------------------------------------------------------------------
# building objects from recipes
# ---------------------------------------------------------------------------
def mk_data(spec):
    """spec: {"shape": [...], "kind": "f8"|"i4"|"i1"|"u2"|"b1"|"str"|"f4", "units":..., "calendar":..., "mask": [flat idx], "fill":...}"""
    shape = tuple(spec.get("shape", [3]))
    n = int(np.prod(shape)) if shape else 1
    kind = spec.get("kind", "f8")
    start = spec.get("start", 0)
    if kind == "str":
        vals = np.array([("s%d" % (start + i)) * (1 + i % 3) for i in range(n)])
    elif kind == "b1":
        vals = np.array([(start + i) % 2 == 0 for i in range(n)])
    elif kind.startswith("f"):
        vals = np.array([(start + i) * 0.5 - 1 for i in range(n)], dtype=kind)
    else:
        vals = np.array([(start + i) % 100 for i in range(n)], dtype=kind)
    if spec.get("inf") and kind.startswith("f") and n:
        vals[0] = np.inf
    SPECIAL = {"nan": np.nan, "inf": np.inf, "-inf": -np.inf, "huge": 1e20, "-huge": -1e20}
    for i, v in (spec.get("special") or {}).items():
        # special values at given flat positions (float data only)
        if kind.startswith("f") and n:
            vals[int(i) % n] = SPECIAL[v]
    vals = vals.reshape(shape)
    m = spec.get("mask")
    if m:
        mask = np.zeros(n, dtype=bool)
        for i in m:
            if n:
                mask[i % n] = True
        vals = np.ma.array(vals, mask=mask.reshape(shape))
    kw = {}
    if spec.get("units") is not None:
        kw["units"] = spec["units"]
    if spec.get("calendar") is not None:
        kw["calendar"] = spec["calendar"]
    if spec.get("fill") is not None:
        kw["fill_value"] = spec["fill"]
    if isinstance(kw.get("units"), dict):
        kw["units"] = mk_param(kw["units"])      # units that are not a string
    if isinstance(kw.get("calendar"), dict):
        kw["calendar"] = mk_param(kw["calendar"])
    return cfdm.Data(vals, **kw)


CLS = {
    "dimension_coordinate": "DimensionCoordinate", "auxiliary_coordinate": "AuxiliaryCoordinate",
    "cell_measure": "CellMeasure", "domain_ancillary": "DomainAncillary", "field_ancillary": "FieldAncillary",
    "domain_topology": "DomainTopology", "cell_connectivity": "CellConnectivity",
}


def mk_construct(spec):
    """spec: {"type":..., "props": {...}, "ncvar":..., "data": dataspec|None, "bounds": dataspec|None,
              "bprops":..., "bncvar":..., "measure":..., "geometry":..., "clim": bool, "cell":..., "conn":...}"""
    c = getattr(cfdm, CLS[spec["type"]])()
    if spec.get("props"):
        c.set_properties({k: mk_param(v) for k, v in spec["props"].items()})
    if spec.get("ncvar") is not None:
        c.nc_set_variable(spec["ncvar"])
    if spec.get("data") is not None:
        c.set_data(mk_data(spec["data"]))
    if spec.get("bounds") is not None:
        b = cfdm.Bounds()
        if spec.get("bprops"):
            b.set_properties(spec["bprops"])
        if spec.get("bncvar") is not None:
            b.nc_set_variable(spec["bncvar"])
        b.set_data(mk_data(spec["bounds"]))
        c.set_bounds(b)
    if spec.get("measure") is not None:
        c.set_measure(spec["measure"])
    if spec.get("external"):
        c.nc_set_external(True)
    if spec.get("geometry") is not None:
        c.set_geometry(spec["geometry"])
    if spec.get("clim"):
        try:
            c.set_climatology(True)
        except (ValueError, TypeError):
            pass  # only reference-time coordinates can be climatological
    if spec.get("cell") is not None:
        c.set_cell(spec["cell"])
    if spec.get("conn") is not None:
        c.set_connectivity(spec["conn"])
    return c


def mk_cell_method(spec):
    c = cfdm.CellMethod()
    if spec.get("method") is not None:
        c.set_method(spec["method"])
    if spec.get("axes") is not None:
        c.set_axes(spec["axes"])
    for k, v in (spec.get("quals") or {}).items():
        if k == "interval":
            v = [cfdm.Data(x[0], x[1]) if isinstance(x, list) else x for x in v]
            if spec.get("interval_tuple"):
                v = tuple(v)
        c.set_qualifier(k, v)
    return c


def mk_param(v):
    if isinstance(v, dict) and "np" in v:
        return getattr(np, v["np"])(v["v"])
    if isinstance(v, dict) and "data" in v:
        return cfdm.Data(v["data"], v.get("units"))
    if isinstance(v, dict) and "arr" in v:
        return np.array(v["arr"])
    return v


def mk_cref(spec):
    c = cfdm.CoordinateReference()
    if spec.get("ncvar") is not None:
        c.nc_set_variable(spec["ncvar"])
    if spec.get("coords"):
        c.set_coordinates(spec["coords"])
    for k, v in (spec.get("datum") or {}).items():
        c.datum.set_parameter(k, mk_param(v))
    for k, v in (spec.get("conv") or {}).items():
        c.coordinate_conversion.set_parameter(k, mk_param(v))
    if spec.get("convanc"):
        c.coordinate_conversion.set_domain_ancillaries(spec["convanc"])
    return c


def mk_skeleton(sk):
    """Ab initio field or domain.
    sk: {"domain": bool, "props":..., "ncvar":..., "axes": [{"size": n|None, "ncdim":..., "key":..., "unlim":...}],
         "data": {"axes": [i..]|None, ...dataspec} | None, "constructs": [cspec + {"axes": [i..]|None, "key":...}],
         "cell_methods": [...], "crefs": [...], "globals": {...}}"""
    f = cfdm.Domain() if sk.get("domain") else cfdm.Field()
    if sk.get("props"):
        f.set_properties({k: mk_param(v) for k, v in sk["props"].items()})
    if sk.get("ncvar") is not None:
        f.nc_set_variable(sk["ncvar"])
    keys = []
    for a in sk.get("axes", []):
        ax = cfdm.DomainAxis()
        if a.get("size") is not None:
            ax.set_size(a["size"])
        if a.get("ncdim") is not None:
            ax.nc_set_dimension(a["ncdim"])
        if a.get("unlim"):
            ax.nc_set_unlimited(True)
        keys.append(f.set_construct(ax, key=a.get("key")))
    sizes = [a.get("size") for a in sk.get("axes", [])]
    d = sk.get("data")
    if d is not None and not sk.get("domain"):
        spec = dict(d)
        if d.get("axes") is not None:
            spec["shape"] = [sizes[i] for i in d["axes"]]
            f.set_data(mk_data(spec), axes=[keys[i] for i in d["axes"]])
        else:
            f.set_data(mk_data(spec), axes=None, inplace=True) if False else f.set_data(mk_data(spec))
            if d.get("drop_axes"):
                f.del_data_axes(default=None)
    for c in sk.get("constructs", []):
        spec = dict(c)
        if c.get("axes") is not None:
            shp = [sizes[i] for i in c["axes"]]
            if spec.get("data") is not None:
                spec["data"] = dict(spec["data"], shape=shp + list(spec["data"].get("trail", [])))
            if spec.get("bounds") is not None:
                spec["bounds"] = dict(spec["bounds"], shape=shp + list(spec["bounds"].get("trail", [2])))
        con = mk_construct(spec)
        axes = None if c.get("axes") is None else [keys[i] for i in c["axes"]]
        f.set_construct(con, key=c.get("key"), axes=axes)
    for c in sk.get("cell_methods", []):
        spec = dict(c)
        if spec.get("axes") is not None:
            spec["axes"] = [keys[a] if isinstance(a, int) else a for a in spec["axes"]]
        f.set_construct(mk_cell_method(spec), key=c.get("key"))
    for c in sk.get("crefs", []):
        f.set_construct(mk_cref(c))
    if sk.get("globals") and not sk.get("domain"):
        f.nc_set_global_attributes(sk["globals"])
    return f


def target(f, key):
    return f if key is None else f.constructs[key]


def apply_mod(f, m, scratch):
    op = m[0]
    if op == "del_data":
        target(f, m[1]).del_data(None)
    elif op == "del_axes":
        f.del_data_axes(m[1], None) if m[1] is not None else f.del_data_axes(default=None)
    elif op == "clear_props":
        target(f, m[1]).clear_properties()
    elif op == "del_prop":
        target(f, m[1]).del_property(m[2], None)
    elif op == "set_prop":
        target(f, m[1]).set_property(m[2], mk_param(m[3]))
    elif op == "del_nc":
        t = target(f, m[1])
        t.nc_del_variable(None) if hasattr(t, "nc_del_variable") else t.nc_del_dimension(None)
    elif op == "set_nc":
        t = target(f, m[1])
        t.nc_set_variable(m[2]) if hasattr(t, "nc_set_variable") else t.nc_set_dimension(m[2])
    elif op == "del_bounds":
        target(f, m[1]).del_bounds(None)
    elif op == "del_size":
        f.constructs[m[1]].del_size(None)
    elif op == "insert":
        spec = dict(m[1])
        f.set_construct(mk_construct(spec), key=spec.get("key"), axes=spec.get("axes_keys"))
    elif op == "insert_cm":
        f.set_construct(mk_cell_method(m[1]), key=m[2] if len(m) > 2 else None)
    elif op == "del_cms":
        for k in list(f.cell_methods(todict=True)):
            f.del_construct(k)
    elif op == "copy":
        return f.copy()
    elif op == "cm_qualifier":
        # edit a cell method of the field in place
        list(f.cell_methods(todict=True).values())[m[1]].set_qualifier(m[2], m[3])
    elif op == "insert_cref":
        f.set_construct(mk_cref(m[1]))
    elif op == "set_data":
        t = target(f, m[1])
        old = t.get_data(None)
        spec = dict(m[2])
        if old is not None and "shape" not in spec:
            spec["shape"] = list(old.shape)
        t.set_data(mk_data(spec), copy=False) if m[1] is not None else t.set_data(mk_data(spec), axes=f.get_data_axes(default=None), copy=False)
    elif op == "mask":
        d = target(f, m[1]).data
        idx = tuple(0 for _ in d.shape)
        d[idx] = cfdm.masked
    elif op == "globals":
        f.nc_set_global_attributes(m[1])
    elif op == "squeeze":
        f.squeeze(inplace=True)
    elif op == "compress":
        return f.compress(m[1])
    elif op == "subspace0":
        # first element along every axis: size-1 data everywhere
        return f[tuple([0] * f.ndim)]
    else:
        raise RuntimeError("unknown mod " + op)
    return f


_rb = {}


def build(rec, scratch):
    base = rec["base"]
    kind = base[0]
    if kind == "example":
        x = cfdm.example_field(base[1])
    elif kind == "readback":
        key = J(base)
        if key not in _rb:
            g = cfdm.example_field(base[1])
            for m in (base[2] if len(base) > 2 else []):
                g = apply_mod(g, m, scratch) or g
            fn = os.path.join(scratch, f"c19_{os.getpid()}_{len(_rb)}.nc")
            cfdm.write(g, fn)
            _rb[key] = fn
        x = cfdm.read(_rb[key])[0]
    elif kind == "skeleton":
        x = mk_skeleton(base[1])
    elif kind == "empty":
        x = getattr(cfdm, base[1])()
    elif kind == "construct":
        x = mk_construct(base[1])
    elif kind == "cell_method":
        x = mk_cell_method(base[1])
    elif kind == "cref":
        x = mk_cref(base[1])
    elif kind == "data":
        x = mk_data(base[1])
    elif kind == "axis":
        x = cfdm.DomainAxis()
        if base[1].get("size") is not None:
            x.set_size(base[1]["size"])
        if base[1].get("ncdim") is not None:
            x.nc_set_dimension(base[1]["ncdim"])
        if base[1].get("unlim"):
            x.nc_set_unlimited(True)
    else:
        raise RuntimeError("unknown base " + kind)
    for m in rec.get("mods", []):
        try:
            x = apply_mod(x, m, scratch) or x
        except Exception:
            pass  # a modification that does not apply to this object is skipped
    parent = None
    for st in rec.get("select", []):
        parent = x
        if st[0] == "domain":
            x = x.domain
        elif st[0] == "construct":
            x = x.constructs[st[1]]
        elif st[0] == "nth":  # n-th construct of a type (robust to keys)
            ks = sorted(x.constructs.filter_by_type(st[1], todict=True))
            x = x.constructs[ks[st[2] % len(ks)]]
        elif st[0] == "bounds":
            x = x.bounds
        elif st[0] == "data":
            x = x.data
        elif st[0] == "ring":
            x = x.get_interior_ring()
        elif st[0] == "attr":
            x = getattr(x, st[1])
        elif st[0] == "call":
            x = getattr(x, st[1])()
        elif st[0] == "source":
            x = x.source()
        else:
            raise RuntimeError("unknown select " + st[0])
    return x, parent


# ---------------------------------------------------------------------------
# abstract value of an object for the creation-commands model
# ---------------------------------------------------------------------------
def dtok(d):
    a = np.ma.asanyarray(d.array)
    return {"tok": H(fp_data(d)), "masked": bool(np.ma.getmaskarray(a).any())}


def a1(setter, v):
    return ["A1", setter, H(canon_value(v))]


def a2(setter, key, v):
    return ["A2", setter, key, H(canon_value(v))]


def abs_var(x):
    head = []
    try:
        p = x.properties()
        if p:
            head.append(a1("set_properties", p))
    except AttributeError:
        pass
    nc = x.nc_get_variable(None) if hasattr(x, "nc_get_variable") else None
    if nc is not None:
        head.append(a1("nc_set_variable", nc))
    d = x.get_data(None) if hasattr(x, "get_data") else None
    tail = []
    if isinstance(x, (cfdm.Bounds, cfdm.InteriorRing)) and x.nc_get_dimension(None) is not None:
        tail.append(a1("nc_set_dimension", x.nc_get_dimension()))
    return {"cls": type(x).__name__, "head": head, "data": None if d is None else dtok(d), "tail": tail}


def abs_con(x):
    v = abs_var(x)
    pre, post = [], []
    if isinstance(x, cfdm.DomainAxis):
        if x.get_size(None) is not None:
            post.append(a1("set_size", x.get_size()))
        if x.nc_get_dimension(None) is not None:
            post.append(a1("nc_set_dimension", x.nc_get_dimension()))
        if x.nc_is_unlimited():
            post.append(a1("nc_set_unlimited", True))
    elif isinstance(x, cfdm.CellMethod):
        if x.get_method(None) is not None:
            post.append(a1("set_method", x.get_method()))
        if x.get_axes(None) is not None:
            post.append(a1("set_axes", x.get_axes()))
        for k, q in x.qualifiers().items():
            post.append(a2("set_qualifier", k, q))
    elif isinstance(x, cfdm.CoordinateReference):
        if x.coordinates():
            post.append(a1("set_coordinates", x.coordinates()))
        for k, q in x.datum.parameters().items():
            post.append(a2("datum.set_parameter", k, q))
        for k, q in x.coordinate_conversion.parameters().items():
            post.append(a2("coordinate_conversion.set_parameter", k, q))
        if x.coordinate_conversion.domain_ancillaries():
            post.append(a1("coordinate_conversion.set_domain_ancillaries", x.coordinate_conversion.domain_ancillaries()))
    else:
        if hasattr(x, "get_geometry") and x.get_geometry(None) is not None:
            pre.append(a1("set_geometry", x.get_geometry()))
        if isinstance(x, (cfdm.DimensionCoordinate, cfdm.AuxiliaryCoordinate)) and x.get_climatology(False):
            pre.append(a1("set_climatology", True))
        if hasattr(x, "get_measure") and x.get_measure(None) is not None:
            post.append(a1("set_measure", x.get_measure()))
        if hasattr(x, "nc_get_external") and x.nc_get_external():
            post.append(a1("nc_set_external", True))
        if hasattr(x, "get_cell") and x.get_cell(None) is not None:
            post.append(a1("set_cell", x.get_cell()))
        if hasattr(x, "get_connectivity") and x.get_connectivity(None) is not None:
            post.append(a1("set_connectivity", x.get_connectivity()))
        if hasattr(x, "nc_get_node_coordinate_variable") and x.nc_get_node_coordinate_variable(None) is not None:
            post.append(a1("nc_set_node_coordinate_variable", x.nc_get_node_coordinate_variable()))
    b = x.get_bounds(None) if hasattr(x, "get_bounds") else None
    r = x.get_interior_ring(None) if hasattr(x, "get_interior_ring") else None
    fam = ("bounds" if hasattr(x, "get_bounds") else "data" if hasattr(x, "get_data") else "plain")
    if isinstance(x, (cfdm.DimensionCoordinate, cfdm.AuxiliaryCoordinate)):
        fam = "coord"
    return {"var": v, "fam": fam, "pre": pre, "bounds": None if b is None else abs_var(b),
            "ring": None if r is None else abs_var(r), "post": post}


def abs_fld(f):
    v = abs_var(f)
    mid, post, items = [], [], []
    isf = isinstance(f, cfdm.Field)
    if isf and f.get_mesh_id(None) is not None:
        mid.append(a1("set_mesh_id", f.get_mesh_id()))
    if f.nc_global_attributes():
        mid.append(a1("nc_set_global_attributes", f.nc_global_attributes()))
    da = f.constructs.data_axes()
    order = []
    order += list(f.domain_axes(todict=True))
    order += list(f.constructs.filter_by_type(
        "dimension_coordinate", "auxiliary_coordinate", "cell_measure", "domain_ancillary",
        "domain_topology", "cell_connectivity", todict=True))
    keyed = set(order)
    order += list(f.coordinate_references(todict=True))
    if isf:
        fa = list(f.field_ancillaries(todict=True))
        keyed |= set(fa)
        order += fa
        order += list(f.cell_methods(todict=True))
    for k in order:
        c = f.constructs[k]
        axes = da.get(k)
        items.append({"con": abs_con(c), "axes": None if axes is None else list(axes),
                      "key": k if k in keyed else None,
                      "array": c.construct_type not in ("domain_axis", "cell_method", "coordinate_reference")})
    if isf:
        ax = f.get_data_axes(default=None)
        if ax is not None:
            post.append(a1("set_data_axes", ax))
    return {"var": v, "mid": mid, "items": items, "post": post}


# ---------------------------------------------------------------------------
# parsing the text returned by creation_commands into the model's commands
# ---------------------------------------------------------------------------
def parse_commands(lines, nsprefix, ns):
    """lines: command lines (no indent).  Returns (cmds, problems)."""
    cmds, problems = [], []
    P = re.escape(nsprefix)

    def ev(txt):
        try:
            return H(canon_value(eval(txt, ns)))
        except Exception as e:
            return "EVALERR:" + type(e).__name__ + ":" + txt[:80]

    for ln in lines:
        if ln.startswith("#"):
            continue
        m = re.match(rf"^(\w+) = {P}Data\((.*)\)$", ln)
        if m:
            try:
                d = eval(ln.split(" = ", 1)[1], ns)
                cmds.append(["data", m.group(1), dtok(d)])
            except Exception as e:
                cmds.append(["data", m.group(1), {"tok": "EVALERR:" + type(e).__name__, "masked": False}])
            continue
        m = re.match(rf"^(\w+) = {P}(\w+)\(\)$", ln)
        if m:
            cmds.append(["new", m.group(1), m.group(2)])
            continue
        m = re.match(r"^(\w+)\.set_(data|bounds|interior_ring)\((\w+)\)$", ln)
        if m:
            cmds.append(["sub", m.group(1), "set_" + m.group(2), m.group(3)])
            continue
        m = re.match(r"^(\w+)\.set_construct\((\w+)(.*)\)$", ln)
        if m:
            rest = m.group(3)
            axes = key = None
            ma = re.search(r", axes=(\(.*?\)|\[.*?\]|None)(,|$)", rest)
            if ma and ma.group(1) != "None":
                axes = list(eval(ma.group(1), {}))
            mk = re.search(r", key=('(?:[^'\\]|\\.)*'|\"(?:[^\"\\]|\\.)*\")", rest)
            if mk:
                key = eval(mk.group(1), {})
            cmds.append(["insert", m.group(1), m.group(2), axes, key])
            continue
        m = re.match(r"^(\w+)\.((?:datum|coordinate_conversion)\.set_parameter|set_qualifier)\(('(?:[^'\\]|\\.)*'), (.*)\)$", ln)
        if m:
            cmds.append(["attr", m.group(1), ["A2", m.group(2), eval(m.group(3), {}), ev(m.group(4))]])
            continue
        m = re.match(r"^(\w+)\.([\w.]+)\((.*)\)$", ln)
        if m:
            cmds.append(["attr", m.group(1), ["A1", m.group(2), ev(m.group(3))]])
            continue
        problems.append(ln[:200])
    return cmds, problems


def fresh_ns(namespace):
    ns = {}
    if namespace is None:
        exec("import cfdm", ns)
        prefix = "cfdm."
    elif namespace == "":
        exec("from cfdm import *", ns)
        prefix = ""
    else:
        mod = namespace[:-1] if namespace.endswith(".") else namespace
        exec(f"import cfdm as {mod}", ns)
        prefix = mod + "."
    return ns, prefix


DEFAULT_NAME = {"Field": "field", "Domain": "domain", "Data": "data"}


def run_cc(x, kw, parent):
    """One creation_commands variant: text, exec, comparison."""
    out = {"kw": kw}
    kwargs = dict(kw)
    name = kwargs.get("name", DEFAULT_NAME.get(type(x).__name__, "c"))
    try:
        txt = x.creation_commands(**kwargs)
    except Exception as e:
        out["cc_err"] = errclass(e)
        out["cc_msg"] = str(e)[:200]
        out["where"] = where(e)
        return out
    string = kwargs.get("string", True)
    indent = kwargs.get("indent", 0)
    if string:
        if not isinstance(txt, str):
            out["shape_err"] = "string=True did not return str"
            return out
        raw = txt.split("\n")
        pad = " " * indent
        if not all(r.startswith(pad) for r in raw):
            out["shape_err"] = "a line lacks the requested indent"
        lines = [r[len(pad):] if r.startswith(pad) else r.lstrip() for r in raw]
    else:
        if not isinstance(txt, list):
            out["shape_err"] = "string=False did not return list"
            return out
        lines = list(txt)
    out["nlines"] = len(lines)
    ns, prefix = fresh_ns(kwargs.get("namespace"))
    try:
        exec("\n".join(lines), ns)
    except Exception as e:
        out["exec_err"] = type(e).__name__ + ": " + str(e)[:160]
    else:
        y = ns.get(name)
        if y is None or type(y) is not type(x):
            out["exec_err"] = f"name {name!r} not bound to a {type(x).__name__}"
        else:
            xx, yy = x, y
            if isinstance(x, cfdm.Bounds) and parent is not None and hasattr(parent, "set_bounds"):
                # a Bounds taken from its parent reports the parent's units by inheritance:
                # compare in the parent's context
                xx = parent
                yy = parent.copy()
                yy.set_bounds(y)
            try:
                out["equal"] = bool(yy.equals(xx)) and bool(xx.equals(yy))
            except Exception as e:
                out["equal"] = None
                out["equals_err"] = type(e).__name__ + ": " + str(e)[:120]
            out["nc_equal"] = fingerprint(y, True) == fingerprint(x, True)
            out["fp_equal"] = fingerprint(yy) == fingerprint(xx)
    # the model's view: parsed commands (evaluated in a namespace that also knows numpy, so
    # that literal printing problems are reported by the exec above and not twice)
    ns2, _ = fresh_ns(kwargs.get("namespace"))
    ns2.setdefault("np", np)
    cmds, problems = parse_commands(lines, prefix, ns2)
    out["cmds"] = cmds
    out["unparsed"] = problems
    out["name"] = name
    return out


# ---------------------------------------------------------------------------
# the state the description methods look at, and what their text mentions
# ---------------------------------------------------------------------------
CT = ["dimension_coordinate", "auxiliary_coordinate", "cell_measure", "domain_ancillary",
      "domain_topology", "cell_connectivity", "field_ancillary"]


def describe_state(f):
    axes = []
    for k, a in f.domain_axes(todict=True).items():
        s = a.get_size(None)
        axes.append({"key": k, "id": f.constructs.domain_axis_identity(k), "size": None if s is None else str(s)})
    cons = []
    for k, c in f.constructs.filter_by_type(*CT, todict=True).items():
        d = c.get_data(None)
        b = c.get_bounds(None) if hasattr(c, "get_bounds") else None
        bd = b.get_data(None) if b is not None else None
        cons.append({"key": k, "type": c.construct_type, "id": c.identity(""),
                     "shape": None if d is None else [str(n) for n in d.shape],
                     "bshape": None if bd is None else [str(n) for n in bd.shape]})
    da = f.constructs.data_axes()
    st = {"axes": axes, "cons": cons,
          "caxes": [[k, list(v)] for k, v in da.items() if k in {c["key"] for c in cons}],
          "field": isinstance(f, cfdm.Field)}
    if isinstance(f, cfdm.Field):
        st["has_data"] = f.has_data()
        ax = f.get_data_axes(default=None)
        st["data_axes"] = None if ax is None else list(ax)
    return st


def split_top(s):
    """split 'a(1), b{2}(3), 4' at top-level commas"""
    out, depth, cur = [], 0, ""
    for ch in s:
        if ch == "(":
            depth += 1
        elif ch == ")":
            depth -= 1
        if ch == "," and depth == 0:
            out.append(cur.strip())
            cur = ""
        else:
            cur += ch
    if cur.strip():
        out.append(cur.strip())
    return out


def parse_header(h):
    """'ident(ax1, ax2) (external...)' -> [ident, [ax...]] ; 'ident' -> [ident, None]"""
    h = h.strip()
    i = h.find("(")
    if i < 0:
        return [h, None]
    depth = 0
    for j in range(i, len(h)):
        if h[j] == "(":
            depth += 1
        elif h[j] == ")":
            depth -= 1
            if depth == 0:
                return [h[:i], split_top(h[i + 1:j])]
    return [h, None]


SECTIONS = {"Dimension coords": "dim", "Auxiliary coords": "aux", "Cell measures": "msr",
            "Domain ancils": "danc", "Field ancils": "fanc", "Topologies": "topo",
            "Connectivities": "conn", "Data": "data"}


def parse_str(txt):
    out = []
    sec = None
    for ln in txt.split("\n"):
        m = re.match(r"^([A-Za-z ]{15}) : (.*)$", ln) or re.match(r"^([A-Za-z ]+?)\s*: (.*)$", ln)
        if ln.startswith("                : "):
            body = ln[18:]
        elif m and m.group(1).strip() in SECTIONS:
            sec = SECTIONS[m.group(1).strip()]
            body = m.group(2)
        elif m and m.group(1).strip() in ("Cell methods", "Coord references"):
            sec = None
            continue
        else:
            continue
        if sec is None:
            continue
        head = body.split(" = ", 1)[0]
        head = re.sub(r"\s*\(external variable[^)]*\)\s*$", "", head)
        if sec == "data":
            # 'ident(ax, ax) units'
            out.append([sec] + parse_header(head))
        else:
            out.append([sec] + parse_header(head))
    return out


TITLES = {"Dimension coordinate": "dim", "Auxiliary coordinate": "aux", "Domain ancillary": "danc",
          "Cell measure": "msr", "Field ancillary": "fanc", "Field Ancillary": "fanc",
          "Domain topology": "topo", "Cell connectivity": "conn", "Domain Axis": "axis"}


def parse_dump(txt):
    out = []
    cur = None
    for ln in txt.split("\n"):
        m = re.match(r"^\s*([A-Z][A-Za-z ]+?): (.*)$", ln)
        if m and m.group(1) in TITLES:
            cur = [TITLES[m.group(1)], re.sub(r"\s*\(external variable[^)]*\)\s*$", "", m.group(2)), None, None]
            out.append(cur)
            if cur[0] == "axis":
                cur = None
            continue
        if m and m.group(1) in ("Coordinate reference", "Cell Method", "Coordinate Reference"):
            cur = None
            continue
        if cur is None:
            m = re.match(r"^Data\((.*?)\) = ", ln)
            if m:
                out.append(["data", "", split_top(m.group(1)), None])
            continue
        m = re.match(r"^\s+Data\((.*?)\) = ", ln)
        if m:
            cur[2] = split_top(m.group(1))
        m = re.match(r"^\s+Bounds:Data\((.*?)\) = ", ln)
        if m:
            cur[3] = split_top(m.group(1))
    return out


def data_paren(ln):
    return ln


# ---------------------------------------------------------------------------
# the state Data.__str__ looks at (Model.ddata), read off the object with numpy
# ---------------------------------------------------------------------------
CERR = {ValueError: "XValue", OverflowError: "XOverflow", AttributeError: "XAttr", TypeError: "XType"}


def conv(values, mask, units, calendar, pair):
    """Outcome of the date-time conversion of a scalar / of the pair [first, last]: the texts, or
    the class of the exception (netCDF4.num2date is an input of the model)."""
    try:
        r = cfdm.Data(np.ma.array(values, mask=mask), units, calendar).datetime_array
        if pair:
            a, b = r
            return ["ok", [f"{a}", f"{b}"]]
        return ["ok", f"{r}"]
    except Exception as e:
        for k, v in CERR.items():
            if isinstance(e, k):
                return ["err", v]
        return ["err", "XOther"]


def ddata_state(d):
    units = d.get_units(None)
    calendar = d.get_calendar(None)
    st = {"array": True, "units": ["none"] if units is None else (["str", units] if isinstance(units, str) else ["other"]),
          "cal": None if calendar is None else f"{calendar}", "cal_truthy": bool(calendar),
          "shape": [], "elems": [], "c1": ["ok", ""], "c2": ["ok", ["", ""]], "cm": ["ok", ""]}
    try:
        a = np.ma.asanyarray(d.array)
    except Exception:
        st["array"] = False
        return st
    st["shape"] = list(a.shape)
    flat = a.ravel()
    m = np.ma.getmaskarray(flat)
    items = [None if m[i] else flat.data[i].item() for i in range(flat.size)]
    st["elems"] = [None if x is None else f"{x}" for x in items]
    if isinstance(units, str) and "since" in units and flat.size:
        val = lambda i: (0 if items[i] is None else items[i])
        msk = lambda i: items[i] is None
        if flat.size == 1:
            st["c1"] = conv(val(0), msk(0), units, calendar, False)
        else:
            st["c2"] = conv([val(0), val(-1)], (msk(0), msk(-1)), units, calendar, True)
            st["cm"] = conv(val(1), msk(1), units, calendar, False)
    return st


def datas_of(x):
    """every Data object the descriptions of x format"""
    out = []
    if isinstance(x, cfdm.Data):
        return [x]
    if isinstance(x, (cfdm.Field, cfdm.Domain)):
        if isinstance(x, cfdm.Field) and x.get_data(None) is not None:
            out.append(x.get_data())
        for c in x.constructs.filter_by_data(todict=True).values():
            out.extend(datas_of(c))
        return out
    for g in ("get_data", "get_bounds", "get_interior_ring"):
        if hasattr(x, g):
            try:
                v = getattr(x, g)(None)
            except Exception:
                v = None
            if v is not None:
                out.extend([v] if isinstance(v, cfdm.Data) else datas_of(v))
    return out


def data_rows(x):
    rows = []
    for d in datas_of(x)[:12]:
        try:
            st = ddata_state(d)
        except Exception as e:
            rows.append({"state_err": type(e).__name__ + ": " + str(e)[:200]})
            continue
        try:
            obs = ["ok", str(d)]
        except Exception as e:
            obs = ["err", errclass(e)]
        rows.append({"st": st, "obs": obs})
    return rows


# ---------------------------------------------------------------------------
def observe(rec, scratch):
    row = {"i": rec["i"]}
    try:
        x, parent = build(rec, scratch)
    except Exception as e:
        row["build_err"] = type(e).__name__ + ": " + str(e)[:200]
        return row
    row["cls"] = type(x).__name__
    fp0 = J(fingerprint(x))
    insp = {}
    texts = {}
    ops = [("repr", lambda: repr(x)), ("str", lambda: str(x))]
    if hasattr(x, "dump"):
        ops.append(("dump", lambda: x.dump(display=False)))
    for name, fn in ops:
        try:
            t = fn()
            if not isinstance(t, str):
                insp[name] = "notstr"
            else:
                insp[name] = None
                texts[name] = t
        except Exception as e:
            insp[name] = errclass(e) + "@" + where(e)
    row["insp"] = insp
    row["unchanged"] = (J(fingerprint(x)) == fp0)
    try:
        row["datas"] = data_rows(x)
    except Exception as e:
        row["datas_err"] = type(e).__name__ + ": " + str(e)[:200]
    if isinstance(x, (cfdm.Field, cfdm.Domain)):
        try:
            row["state"] = describe_state(x)
            idents = [a["id"] for a in row["state"]["axes"]] + [c["id"] for c in row["state"]["cons"]] + [x.identity("")]
            if any(ch in str(i) for i in idents for ch in "\n\r"):
                # a line break inside an identity: the text cannot be split into items again
                row["state"] = None
                row["state_skipped"] = "line break in an identity"
            row["str_items"] = parse_str(texts["str"]) if "str" in texts else None
            row["dump_items"] = parse_dump(texts["dump"]) if "dump" in texts else None
        except Exception as e:
            row["state_err"] = type(e).__name__ + ": " + str(e)[:200]
    if hasattr(x, "creation_commands"):
        # baseline: is the object equal to its own copy under cfdm's equals?  (if not, or if
        # equals raises, equality of a rebuilt object cannot be judged by equals: C05's property)
        try:
            row["self_equal"] = bool(x.equals(x.copy()))
        except Exception as e:
            row["self_equal"] = None
        try:
            if isinstance(x, (cfdm.Field, cfdm.Domain)):
                row["abs"] = ["fld", abs_fld(x)]
            elif isinstance(x, cfdm.Data):
                row["abs"] = ["data", dtok(x)]
            else:
                row["abs"] = ["con", abs_con(x)]
        except Exception as e:
            row["abs_err"] = type(e).__name__ + ": " + str(e)[:200]
        row["cc"] = []
        for kw in rec.get("kws", [{}]):
            row["cc"].append(run_cc(x, kw, parent))
        row["unchanged_after_cc"] = (J(fingerprint(x)) == fp0)
    row["sample"] = texts.get("repr", "")[:120]
    return row


def class_inventory():
    """Every class in the cfdm namespace that exports a description method of its own
    (repr/str defined in cfdm, or dump / creation_commands)."""
    out = []
    for n in sorted(dir(cfdm)):
        o = getattr(cfdm, n)
        if not inspect.isclass(o) or not o.__module__.startswith("cfdm"):
            continue
        exports = []
        for meth in ("__repr__", "__str__", "dump", "creation_commands"):
            fn = getattr(o, meth, None)
            if fn is not None and getattr(fn, "__module__", "").startswith("cfdm"):
                exports.append(meth)
        if exports:
            try:
                o()
                empty_ok = True
            except Exception:
                empty_ok = False
            out.append({"name": n, "exports": exports, "empty_ok": empty_ok,
                        "construct_type": getattr(o, "construct_type", None) if isinstance(getattr(o, "construct_type", None), str) else None,
                        "is_array": issubclass(o, cfdm.core.abstract.Container) and issubclass(o, cfdm.core.data.abstract.Array) if hasattr(cfdm.core.data, "abstract") else False})
    return out


def main():
    p = json.load(sys.stdin)
    cfdm.log_level("DISABLE")
    import warnings
    warnings.simplefilter("ignore")
    if p["mode"] == "classes":
        print(json.dumps(class_inventory()), flush=True)
        return
    for rec in p["cases"]:
        try:
            row = observe(rec, p["scratch"])
        except Exception as e:  # harness-level problem, reported as such
            import traceback
            row = {"i": rec["i"], "harness_err": traceback.format_exc()[-600:]}
        print(json.dumps(row), flush=True)


main()
