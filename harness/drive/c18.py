"""Drive the real cfdm construct-selection code for C18 (PYTHONPATH = the tree under test).

stdin : {"cases": [{"spec": <field spec>, "queries": [<query>, ...]}, ...]}
stdout: one JSON line per case:
        {"report": [...construct self-reports...], "fda": [...], "results": [...], "pure": bool, "why": str}
Only the public API is used to build the fields and to observe them.
"""
import json
import re
import sys

import numpy as np

import cfdm

ARRAY = {
    "dimension_coordinate": cfdm.DimensionCoordinate,
    "auxiliary_coordinate": cfdm.AuxiliaryCoordinate,
    "domain_ancillary": cfdm.DomainAncillary,
    "field_ancillary": cfdm.FieldAncillary,
    "cell_measure": cfdm.CellMeasure,
    "domain_topology": cfdm.DomainTopology,
    "cell_connectivity": cfdm.CellConnectivity,
}


# ---------------------------------------------------------------- building
def build(spec):
    """Return (field_or_domain, axis keys)."""
    if spec.get("base") is not None:
        f = cfdm.example_field(spec["base"])
        akeys = sorted(f.domain_axes(todict=True))
    else:
        f = cfdm.Field(properties=spec.get("props", {}))
        akeys = []
        for ax in spec["axes"]:
            d = cfdm.DomainAxis(ax["size"])
            if ax.get("ncdim") is not None:
                d.nc_set_dimension(ax["ncdim"])
            akeys.append(f.set_construct(d))
        da = spec.get("data_axes")
        if da is not None:
            shape = tuple(spec["axes"][i]["size"] for i in da)
            f.set_data(cfdm.Data(np.zeros(shape)), axes=[akeys[i] for i in da])
    made = []
    for c in spec.get("constructs", []):
        t = c["type"]
        if t in ARRAY:
            axes = [akeys[i] for i in c["axes"]]
            sizes = [f.domain_axis(a).get_size() for a in axes]
            shape = tuple(sizes)
            kw = {"properties": dict(c.get("props", {}))}
            if t == "cell_measure" and c.get("comp") is not None:
                kw["measure"] = c["comp"]
            if t == "domain_topology":
                if c.get("comp") is not None:
                    kw["cell"] = c["comp"]
                shape = shape + (3,)
            if t == "cell_connectivity":
                if c.get("comp") is not None:
                    kw["connectivity"] = c["comp"]
                shape = shape + (3,)
            dtype = int if t in ("domain_topology", "cell_connectivity") else float
            x = ARRAY[t](data=cfdm.Data(np.zeros(shape, dtype=dtype)), **kw)
            if c.get("ncvar") is not None:
                x.nc_set_variable(c["ncvar"])
            b = c.get("bounds")
            if b is not None:
                bb = cfdm.Bounds(properties=dict(b.get("props", {})),
                                 data=cfdm.Data(np.zeros(shape + (2,))))
                if b.get("ncvar") is not None:
                    bb.nc_set_variable(b["ncvar"])
                x.set_bounds(bb)
            made.append(f.set_construct(x, axes=axes))
        elif t == "cell_method":
            axes = [akeys[a] if isinstance(a, int) else a for a in c.get("maxes", [])]
            kw = {"axes": axes}
            if c.get("comp") is not None:
                kw["method"] = c["comp"]
            made.append(f.set_construct(cfdm.CellMethod(**kw)))
        elif t == "coordinate_reference":
            coords = [made[i] for i in c.get("coords", []) if i < len(made)]
            x = cfdm.CoordinateReference(
                coordinate_conversion=cfdm.CoordinateConversion(parameters=dict(c.get("cc", {}))),
                coordinates=coords)
            if c.get("ncvar") is not None:
                x.nc_set_variable(c["ncvar"])
            made.append(f.set_construct(x))
    # mutations of existing constructs (used with the example fields)
    for m in spec.get("mutations", []):
        keys = sorted(f.constructs.filter_by_type(*m["types"], todict=True)) if m.get("types") else sorted(f.constructs.todict())
        if not keys:
            continue
        x = f.constructs[keys[m["pick"] % len(keys)]]
        op = m["op"]
        try:
            if op == "set_prop":
                x.set_property(m["name"], m["value"])
            elif op == "del_prop":
                x.del_property(m["name"], None)
            elif op == "bounds_prop":
                b = x.get_bounds(None)
                if b is not None:
                    b.set_property(m["name"], m["value"])
            elif op == "ncvar":
                x.nc_set_variable(m["value"])
            elif op == "del_ncvar":
                x.nc_del_variable(None)
            elif op == "ncdim":
                x.nc_set_dimension(m["value"])
            elif op == "measure":
                x.set_measure(m["value"])
            elif op == "method":
                x.set_method(m["value"])
        except AttributeError:
            pass
    if spec.get("domain"):
        f = f.domain
    return f


# -------------------------------------------------------------- self-report
def sprops(x):
    return {str(k): str(v) for k, v in x.properties().items()}


def report(f):
    c = f.constructs
    axes = c.data_axes()
    out = []
    for key in sorted(c.todict()):
        x = c[key]
        t = c.construct_type(key)
        r = {"key": key, "type": t, "axes": list(axes[key]) if key in axes else None,
             "size": None, "comp": None, "ncdim": None, "props": {}, "ncvar": None,
             "bounds": None, "cc": {}, "maxes": [], "identities": [str(i) for i in x.identities()]}
        if t == "domain_axis":
            r["size"] = x.get_size(None)
            r["ncdim"] = x.nc_get_dimension(None)
        r["nonstr"] = []
        if hasattr(x, "properties"):
            r["props"] = sprops(x)
            r["nonstr"] = sorted(str(k) for k, v in x.properties().items() if not isinstance(v, str))
        if hasattr(x, "nc_get_variable"):
            r["ncvar"] = x.nc_get_variable(None)
        for g in ("get_measure", "get_method", "get_cell", "get_connectivity"):
            if hasattr(x, g):
                r["comp"] = getattr(x, g)(None)
        if hasattr(x, "get_bounds"):
            b = x.get_bounds(None)
            if b is not None:
                r["bounds"] = {"props": sprops(b), "ncvar": b.nc_get_variable(None)}
        if t == "coordinate_reference":
            cc = x.coordinate_conversion
            for p in ("standard_name", "grid_mapping_name"):
                v = cc.get_parameter(p, None)
                if v is not None:
                    r["cc"][p] = str(v)
        if t == "cell_method":
            r["maxes"] = [str(a) for a in x.get_axes(())]
        out.append(r)
    return out


def fingerprint(f):
    c = f.constructs
    return json.dumps([report(f), list(c.filters_applied()), getattr(c, "_prefiltered", None) is None,
                       list(f.get_data_axes(default=None) or []) if hasattr(f, "get_data_axes") else None,
                       sorted(sprops(f).items())], sort_keys=True, default=str)


# ------------------------------------------------------------------ queries
def val(v):
    k = v[0]
    if k == "s":
        return v[1]
    if k == "re":
        return re.compile(("^" if v[1] else "") + re.escape(v[3]) + ("$" if v[2] else ""))
    if k == "i":
        return int(v[1])
    return None


NAME = {"type": "filter_by_type", "data": "filter_by_data", "naxes": "filter_by_naxes",
        "ncvar": "filter_by_ncvar", "ncdim": "filter_by_ncdim", "measure": "filter_by_measure",
        "method": "filter_by_method", "cell": "filter_by_cell", "conn": "filter_by_connectivity",
        "size": "filter_by_size", "key": "filter_by_key", "identity": "filter_by_identity",
        "axis": "filter_by_axis", "property": "filter_by_property", "unknown": "filter_by_nothing"}


def fargs(fs):
    k = fs[0]
    if k == "type":
        return tuple(fs[1])
    if k in ("data", "unknown"):
        return ()
    if k == "property":
        return {n: (None if q[0] == "any" else val(q)) for n, q in fs[1]}
    return tuple(val(v) for v in fs[1])


def call_method(c, fs, am, pm, todict):
    """c.filter_by_x(...) - the public single-filter method."""
    k = fs[0]
    a = fargs(fs)
    m = getattr(c, NAME[k])
    if k == "property":
        if todict:
            raise NotImplementedError
        return m(*pm, **a)
    if k == "axis":
        return m(*a, axis_mode=am, todict=todict)
    if k == "data":
        return m(todict=todict)
    return m(*a, todict=todict)


def filter_kwargs(fss):
    kw = {}
    for fs in fss:
        kw[NAME[fs[0]]] = fargs(fs)
    return kw


def run_chain(c, q):
    form = q["form"]
    am, pm, todict = q.get("am", "and"), q.get("pm", ["and"]), q.get("todict", False)
    if form == "filter":
        kw = filter_kwargs(q["fs"])
        if "am" in q:
            kw["axis_mode"] = am
        if "pm" in q:
            kw["property_mode"] = pm[0] if pm else None
        return c.filter(todict=todict, **kw)
    if form == "call":
        ids = ()
        rest = []
        for fs in q["fs"]:
            if fs[0] == "identity" and not ids:
                ids = fargs(fs)
            else:
                rest.append(fs)
        return c(*ids, todict=todict, **filter_kwargs(rest))
    out = c
    n = len(q["fs"])
    for i, fs in enumerate(q["fs"]):
        out = call_method(out, fs, am, pm, todict and i == n - 1)
    return out


def keys_of(x):
    return sorted(x.keys() if isinstance(x, dict) else x.todict().keys())


def errclass(e):
    for cls, name in ((ValueError, "ValueErr"), (IndexError, "IndexErr"), (KeyError, "KeyErr"),
                      (TypeError, "TypeErr")):
        if isinstance(e, cls):
            return name
    return "OtherErr:" + type(e).__name__


DEFAULTS = {"none": None, "value": "the-default"}


def run_accessor(f, q):
    m = q["method"]
    ids = tuple(val(v) for v in q.get("ids", []))
    kw = filter_kwargs(q.get("fs", []))
    d = q.get("default", "raise")
    if m == "has_construct":
        return {"has": bool(f.has_construct(*ids, **kw))}
    if d != "raise":
        kw["default"] = DEFAULTS[d]
    elif q.get("exc"):
        kw["default"] = KeyError("custom")
    if m == "domain_axis_key":
        r = f.domain_axis_key(*ids, **kw)
        if r is None or r == "the-default":
            return {"default": d}
        return {"found": r}
    if m == "construct_key":
        r = f.construct_key(*ids, **kw)
        if r is None or r == "the-default":
            return {"default": d}
        return {"found": r}
    if m == "construct_item":
        r = f.construct_item(*ids, **kw)
        if r is None or r == "the-default":
            return {"default": d}
        same = f.constructs[r[0]] is r[1]
        return {"found": r[0], "same": same}
    how = q.get("how", "construct")
    if how == "key":
        kw["key"] = True
    elif how == "item":
        kw["item"] = True
    r = getattr(f, m)(*ids, **kw)
    if r is None or (isinstance(r, str) and r == "the-default"):
        return {"default": d}
    if how == "key":
        return {"found": r}
    if how == "item":
        return {"found": r[0], "same": f.constructs[r[0]] is r[1]}
    for k, x in f.constructs.todict().items():
        if x is r:
            return {"found": k, "same": True}
    return {"found": None, "same": False}


def run_query(f, q):
    c = f.constructs
    kind = q["kind"]
    if kind == "chain":
        r = run_chain(c, q)
        out = {"keys": keys_of(r), "isdict": isinstance(r, dict)}
        if not isinstance(r, dict):
            out["nfa"] = len(r.filters_applied())
            # the dictionary form holds the same members
            out["todict_keys"] = sorted(r.todict())
            out["values_ok"] = all(c[k] is v for k, v in r.todict().items())
        else:
            out["values_ok"] = all(c[k] is v for k, v in r.items())
        return out
    if kind == "ops":
        out = c
        for p in q["ops"]:
            if p[0] == "filter":
                out = run_chain(out, p[1])
            elif p[0] == "inverse":
                out = out.inverse_filter(p[1]) if p[1] is not None else out.inverse_filter()
            elif p[0] == "unfilter":
                out = out.unfilter(p[1]) if p[1] is not None else out.unfilter()
        return {"keys": keys_of(out), "nfa": len(out.filters_applied()),
                "rootkeys": keys_of(out.unfilter())}
    if kind == "plural":
        ids = tuple(val(v) for v in q.get("ids", []))
        kw = filter_kwargs(q.get("fs", []))
        if q.get("ids_kw"):
            kw2 = {"filter_by_identity": ids}
            kw2.update(kw)
            if q["ids_kw"] == "last":
                kw2 = dict(kw)
                kw2["filter_by_identity"] = ids
            r = getattr(f, q["method"])(todict=q.get("todict", False), **kw2)
        else:
            r = getattr(f, q["method"])(*ids, todict=q.get("todict", False), **kw)
        return {"keys": keys_of(r), "isdict": isinstance(r, dict)}
    if kind == "accessor":
        return run_accessor(f, q)
    if kind == "axis_method":
        return {"by_id": axis_method(f, q["method"], val(q["id"])),
                "by_key": axis_method(f, q["method"], q["key"]) if q.get("key") is not None else None}
    raise ValueError(kind)


def axis_method(f, m, axis):
    """A Field method that takes an axis by identity, on a copy; canonical outcome."""
    g = f.copy()
    try:
        if m == "insert_dimension":
            h = g.insert_dimension(axis)
            return {"axes": list(h.get_data_axes(default=())), "shape": list(h.data.shape)}
        if m == "indices":
            r = g.indices(**{axis: slice(0, 1)})
            return {"indices": [str(x) for x in r]}
        if m == "nc_set_hdf5_chunksizes":
            g.nc_set_hdf5_chunksizes({axis: 1})
            return {"chunks": str(g.nc_hdf5_chunksizes())}
    except Exception as e:
        return {"err": errclass(e)}
    raise ValueError(m)


def main():
    payload = json.load(sys.stdin)
    for case in payload["cases"]:
        try:
            f = build(case["spec"])
        except Exception as e:  # a spec the API refuses: reported, not a crash
            print(json.dumps({"build_error": f"{type(e).__name__}: {e}"}))
            sys.stdout.flush()
            continue
        rep = report(f)
        before = fingerprint(f)
        copy = f.copy()
        fda = list(f.get_data_axes(default=None) or []) if hasattr(f, "get_data_axes") else []
        results = []
        for q in case["queries"]:
            try:
                results.append(run_query(f, q))
            except NotImplementedError:
                results.append({"skip": True})
            except Exception as e:
                results.append({"err": errclass(e), "msg": str(e)[:200]})
        after = fingerprint(f)
        pure = before == after
        why = ""
        if not pure:
            why = "fingerprint changed"
        try:
            if not f.equals(copy):
                pure = False
                why = "field no longer equals the copy taken before"
        except Exception as e:
            pure = False
            why = f"equals raised {type(e).__name__}"
        print(json.dumps({"report": rep, "fda": fda, "results": results, "pure": pure, "why": why}))
        sys.stdout.flush()


if __name__ == "__main__":
    main()
