"""Drive cfdm.write(mode='a') for C17 (PYTHONPATH=/repo or VERIF_REPO).

stdin: {"scratch": dir, "cases": [case, ...]};  one JSON line per case on stdout,
written as soon as the case has finished (a worker may die in the middle of a
case: the harness then re-runs the unfinished cases one per process).

case = {"id": str, "s0": [fieldspec], "appends": [[fieldspec], ...], "fmt": "NETCDF4"}
fieldspec = {"syn": {...}}  synthetic field built from a skeleton (see build_syn)
          | {"ex": n, "mods": [[op, args...], ...]}   a cfdm example field, modified
          plus optional "via_file": true  (the field is first written to its own
          file and read back, so that its data are lazy file arrays)

Observations (per append step): the file seen through netCDF4-python before
and after (dimensions, variables with attributes and a hash of their values,
global attributes, sha256), the skeletons of the fields cfdm reads from the
file before the append and of the fields appended, the outcome of the call,
and the property oracle evaluated with cfdm's own `equals` on re-read fields.
"""
import hashlib
import json
import os
import sys

import numpy as np

import cfdm
import netCDF4

cfdm.log_level("DISABLE")

REF_ATTRS = ("coordinates", "bounds", "climatology", "cell_measures", "formula_terms",
             "ancillary_variables", "grid_mapping", "geometry", "nodes", "node_count",
             "part_node_count", "interior_ring", "sample_dimension", "instance_dimension",
             "compress", "node_coordinates")


# ---------------------------------------------------------------------------
# building fields
# ---------------------------------------------------------------------------
def arr(shape, v):
    n = int(np.prod(shape)) if shape else 1
    return (np.arange(n, dtype="f8") + 100.0 * v).reshape(shape)


def set_common(c, spec):
    if spec.get("ncvar") is not None:
        c.nc_set_variable(spec["ncvar"])
    for k, val in spec.get("props", {}).items():
        c.set_property(k, val)


def mk_bounds(spec, shape, v):
    b = cfdm.Bounds()
    base = arr(shape, v)
    w = 0.5 - 0.01 * spec["v"]
    data = np.stack([base - w, base + w], axis=-1)
    b.set_data(cfdm.Data(data))
    if spec.get("ncvar") is not None:
        b.nc_set_variable(spec["ncvar"])
    if spec.get("ncdim") is not None:
        b.nc_set_dimension(spec["ncdim"])
    for k, val in spec.get("props", {}).items():
        b.set_property(k, val)
    return b


def build_syn(s):
    f = cfdm.Field()
    set_common(f, s)
    keys = []
    for a in s["axes"]:
        da = cfdm.DomainAxis(a["size"])
        if a.get("ncdim") is not None:
            da.nc_set_dimension(a["ncdim"])
        if a.get("unlim"):
            da.nc_set_unlimited(True)
        keys.append(f.set_construct(da))
    daxes = [i for i, a in enumerate(s["axes"]) if a.get("data", True)]
    shape = [s["axes"][i]["size"] for i in daxes]
    data = arr(shape, s["v"])
    if s.get("fill") is not None:
        data = np.ma.array(data)
        if data.size > 1:
            data[(0,) * data.ndim] = np.ma.masked
        f.set_property("_FillValue", float(s["fill"]))
    f.set_data(cfdm.Data(data), axes=[keys[i] for i in daxes])
    for name, val in s.get("gl", {}).items():
        f.nc_set_global_attribute(name, val)
    if s.get("groups"):
        f.nc_set_variable_groups(s["groups"])
    dimkeys = {}
    for d in s.get("dim", []):
        c = cfdm.DimensionCoordinate()
        set_common(c, d)
        shp = [s["axes"][d["axis"]]["size"]]
        c.set_data(cfdm.Data(arr(shp, d["v"])))
        if d.get("bnd"):
            c.set_bounds(mk_bounds(d["bnd"], shp, d["v"]))
        dimkeys[d["axis"]] = f.set_construct(c, axes=[keys[d["axis"]]])
    for a in s.get("aux", []):
        c = cfdm.AuxiliaryCoordinate()
        set_common(c, a)
        shp = [s["axes"][i]["size"] for i in a["axes"]]
        c.set_data(cfdm.Data(arr(shp, a["v"])))
        if a.get("bnd"):
            c.set_bounds(mk_bounds(a["bnd"], shp, a["v"]))
        f.set_construct(c, axes=[keys[i] for i in a["axes"]])
    for m in s.get("msr", []):
        c = cfdm.CellMeasure(measure=m.get("measure", "area"))
        set_common(c, m)
        shp = [s["axes"][i]["size"] for i in m["axes"]]
        c.set_data(cfdm.Data(arr(shp, m["v"])))
        f.set_construct(c, axes=[keys[i] for i in m["axes"]])
    vert = s.get("vert")
    if vert:
        terms = {}
        for t in vert["terms"]:
            c = cfdm.DomainAncillary()
            set_common(c, t)
            shp = [s["axes"][i]["size"] for i in t["axes"]]
            c.set_data(cfdm.Data(arr(shp, t["v"])))
            if t.get("bnd"):
                c.set_bounds(mk_bounds(t["bnd"], shp, t["v"]))
            terms[t["term"]] = f.set_construct(c, axes=[keys[i] for i in t["axes"]])
        cc = cfdm.CoordinateConversion(
            parameters={"standard_name": vert["sn"], "computed_standard_name": vert["csn"]},
            domain_ancillaries=terms)
        cr = cfdm.CoordinateReference(coordinate_conversion=cc, coordinates=[dimkeys[vert["axis"]]])
        f.set_construct(cr)
    return f


def shift_construct(c):
    d0 = c.data
    if d0.dtype.kind in "iuf":
        c.set_data(cfdm.Data(np.ma.asanyarray(d0.array) + 1.0, units=d0.get_units(None),
                             calendar=d0.get_calendar(None)), copy=False)
        if c.has_bounds():
            b0 = c.bounds.data
            c.bounds.set_data(cfdm.Data(np.ma.asanyarray(b0.array) + 1.0, units=b0.get_units(None),
                                        calendar=b0.get_calendar(None)), copy=False)
    else:
        c.set_data(cfdm.Data(np.array([str(x) + "X" for x in d0.array.tolist()])), copy=False)


def apply_mod(f, m):
    op = m[0]
    if op == "external_cm":
        # the field's (first) cell measure becomes an external variable
        cm = list(f.cell_measures(todict=True).values())[0]
        cm.nc_set_external(True)
        cm.nc_set_variable(m[1])
    elif op == "add_cm":
        # an internal cell measure over the data axes, with the given netCDF name
        a = cfdm.CellMeasure(measure=m[2] if len(m) > 2 else "area", properties={"units": "m2"},
                             data=cfdm.Data(np.arange(f.data.size, dtype="f8").reshape(f.data.shape) + 1.0))
        a.nc_set_variable(m[1])
        f.set_construct(a, axes=f.get_data_axes())
    elif op == "ncvar":
        f.nc_set_variable(m[1])
    elif op == "prop":
        f.set_property(m[1], m[2])
    elif op == "delprop":
        f.del_property(m[1], None)
    elif op == "scale":
        f.set_data(cfdm.Data(np.ma.asanyarray(f.data.array) * m[1] + m[2]), axes=f.get_data_axes(), copy=False)
    elif op == "coord_shift":
        c = f.construct(m[1])
        d = np.asanyarray(c.data.array) + m[2]
        c.set_data(cfdm.Data(d), copy=False)
        if c.has_bounds():
            c.bounds.set_data(cfdm.Data(np.asanyarray(c.bounds.data.array) + m[2]), copy=False)
    elif op == "coord_ncvar":
        f.construct(m[1]).nc_set_variable(m[2])
    elif op == "coord_prop":
        f.construct(m[1]).set_property(m[2], m[3])
    elif op == "del":
        f.del_construct(m[1])
    elif op == "global":
        f.nc_set_global_attribute(m[1], m[2])
    elif op == "groups":
        f.nc_set_variable_groups(m[1])
    elif op == "ncdim":
        f.domain_axis(m[1]).nc_set_dimension(m[2])
    elif op == "squeeze":
        f.squeeze(inplace=True)
    else:
        raise ValueError("unknown mod " + op)


_via = [0]


def build(spec, scratch, target=None):
    if "self" in spec and target is not None:
        # a field read from the very file that is appended to: its data are
        # still unread in that file (commit b49d869)
        got = cfdm.read(target)
        f = got[spec["self"] % len(got)].copy()
        for m in spec.get("mods", []):
            apply_mod(f, m)
        return f
    if "syn" in spec:
        f = build_syn(spec["syn"])
    else:
        f = cfdm.example_field(spec["ex"])
        for m in spec.get("mods", []):
            apply_mod(f, m)
    if spec.get("dsg"):
        # a ragged array whose count / index variable is that of the example
        # field; instance-level and / or element-level coordinates moved
        for key, c in f.auxiliary_coordinates(todict=True).items():
            n = len(f.get_data_axes(key))
            if ("instance" in spec["dsg"]["shift"] and n == 1) or ("element" in spec["dsg"]["shift"] and n == 2):
                shift_construct(c)
        f = f.compress(spec["dsg"]["method"])
    if spec.get("domain"):
        nv = f.nc_get_variable(None)
        f = f.domain
        if spec["domain"] != "default":
            f.nc_set_variable(spec["domain"])
    if spec.get("via_file"):
        _via[0] += 1
        p = os.path.join(scratch, f"via_{os.getpid()}_{_via[0]}.nc")
        cfdm.write(f, p)
        g = cfdm.read(p)
        if len(g) == 1:
            f = g[0]
    return f


# ---------------------------------------------------------------------------
# observing
# ---------------------------------------------------------------------------
def sha(path):
    with open(path, "rb") as fh:
        return hashlib.sha256(fh.read()).hexdigest()


def canon_val(v):
    if isinstance(v, str):
        return v
    a = np.asarray(v)
    if a.dtype.kind in "SU":
        return " ".join(str(x) for x in a.ravel().tolist())
    return "num:" + str(a.dtype.kind) + ":" + json.dumps(a.ravel().tolist())


def data_hash(var):
    try:
        var.set_auto_maskandscale(False)
        a = var[...]
        a = np.asarray(a)
        if a.dtype == object:
            b = json.dumps([str(x) for x in a.ravel().tolist()]).encode()
        else:
            b = a.tobytes()
        return hashlib.sha1(str(a.shape).encode() + str(a.dtype).encode() + b).hexdigest()[:16]
    except Exception as e:  # noqa
        return "unreadable:" + type(e).__name__


def walk(nc, prefix=""):
    yield prefix, nc
    for name, grp in nc.groups.items():
        yield from walk(grp, prefix + name + "/")


def ads(path):
    """The dataset through netCDF4-python."""
    nc = netCDF4.Dataset(path, "r")
    try:
        dims, vars_ = [], []
        for prefix, g in walk(nc):
            for n, d in g.dimensions.items():
                dims.append([prefix + n, int(d.size), bool(d.isunlimited())])
            for n, v in g.variables.items():
                attrs = {a: canon_val(v.getncattr(a)) for a in v.ncattrs()}
                vars_.append({"name": prefix + n, "dims": list(v.dimensions), "dtype": str(v.dtype),
                              "attrs": attrs, "hash": data_hash(v)})
        gatts = {a: canon_val(nc.getncattr(a)) for a in nc.ncattrs()}
        # every global attribute with its type and shape (the comparison of
        # the property oracle; `gatts` is the coarser view the model reads)
        graw = {}
        for prefix, g in walk(nc):
            for a in g.ncattrs():
                x = g.getncattr(a)
                if isinstance(x, str):
                    graw[prefix + a] = ["str", [], x]
                else:
                    x = np.asarray(x)
                    graw[prefix + a] = [str(x.dtype), list(x.shape), x.ravel().tolist()]
        ngroups = sum(1 for _ in walk(nc)) - 1
        return {"dims": dims, "vars": vars_, "gatts": gatts, "graw": graw, "ngroups": ngroups}
    finally:
        nc.close()


class Toks:
    """Small integers naming distinct arrays (shape, dtype kind, values)."""

    def __init__(self):
        self.t = {}

    def of(self, data):
        if data is None:
            return None
        a = np.ma.asanyarray(data.array)
        m = np.ma.getmaskarray(a)
        key = (a.shape, str(np.ma.getdata(a).astype("f8").tolist()) if a.dtype.kind in "iuf" else str(a.tolist()),
               str(m.tolist()) if m.any() else "")
        if key not in self.t:
            self.t[key] = len(self.t) + 1
        return self.t[key]


def strprops(c):
    out = {}
    for k, v in c.properties().items():
        out[k] = canon_val(v)
    return out


def skel(f, toks):
    """Abstract skeleton of a field, with the reasons why it is outside the
    fragment that the Coq model covers (oom)."""
    oom = []
    if not isinstance(f, cfdm.Field):
        return {"oom": ["domain"]}
    akeys = sorted(f.domain_axes(todict=True))
    aidx = {k: i for i, k in enumerate(akeys)}
    das = f.domain_axes(todict=True)
    s = {"ncvar": f.nc_get_variable(None), "props": strprops(f),
         "gl": {k: (None if v is None else canon_val(v)) for k, v in f.nc_global_attributes().items()},
         "groups": list(f.nc_variable_groups()),
         "axes": [{"size": int(das[k].get_size()), "ncdim": das[k].nc_get_dimension(None),
                   "unlim": bool(das[k].nc_is_unlimited())} for k in akeys],
         "daxes": [aidx[a] for a in f.get_data_axes()],
         "tok": toks.of(f.data)}
    if f.data.get_compression_type():
        oom.append("compressed")
    if any("/" in (n or "") for n in [s["ncvar"]] + [a["ncdim"] for a in s["axes"]]):
        oom.append("group-names")

    def cons(key, c, kind):
        d = c.get_data(None)
        out = {"kind": kind, "ncvar": c.nc_get_variable(None), "props": strprops(c),
               "axes": [aidx[a] for a in f.get_data_axes(key)],
               "shape": list(d.shape) if d is not None else None, "tok": toks.of(d), "bnd": None}
        if d is None:
            oom.append("no-data:" + kind)
        elif d.get_compression_type():
            oom.append("compressed-construct")
        elif d.dtype.kind not in "iuf":
            oom.append("string-data")
        if "/" in (out["ncvar"] or ""):
            oom.append("group-names")
        if kind == "msr":
            out["measure"] = c.get_measure(None)
            if c.nc_get_external():
                oom.append("external")
        if hasattr(c, "get_bounds"):
            b = c.get_bounds(None)
            if b is not None and b.get_data(None) is not None:
                bp = strprops(b)
                # the data of bounds carry the units / calendar of the parent
                # coordinate, and Data.equals compares them
                for name, val in (("units", b.data.get_units(None)), ("calendar", b.data.get_calendar(None))):
                    if val is not None and name not in bp:
                        bp[name] = canon_val(val)
                out["bnd"] = {"ncvar": b.nc_get_variable(None), "props": bp,
                              "ncdim": b.nc_get_dimension(None), "shape": list(b.data.shape),
                              "tok": toks.of(b.data)}
            if getattr(c, "get_geometry", lambda d=None: None)(None) is not None:
                oom.append("geometry")
            if hasattr(c, "is_climatology") and c.is_climatology():
                oom.append("climatology")
            if getattr(c, "get_interior_ring", lambda d=None: None)(None) is not None:
                oom.append("geometry")
        return out

    pos = {}
    s["dim"], s["aux"], s["msr"], s["anc"] = [], [], [], []
    for key, c in f.dimension_coordinates(todict=True).items():
        pos[key] = ("dim", len(s["dim"]))
        s["dim"].append(cons(key, c, "dim"))
    for key, c in sorted(f.auxiliary_coordinates(todict=True).items()):
        pos[key] = ("aux", len(s["aux"]))
        s["aux"].append(cons(key, c, "aux"))
    for key, c in sorted(f.domain_ancillaries(todict=True).items()):
        pos[key] = ("anc", len(s["anc"]))
        s["anc"].append(cons(key, c, "anc"))
    for key, c in sorted(f.cell_measures(todict=True).items()):
        s["msr"].append(cons(key, c, "msr"))
    if f.field_ancillaries(todict=True):
        oom.append("field-ancillary")
    if f.cell_methods(todict=True):
        oom.append("cell-methods")
    if getattr(f, "domain_topologies", None) and f.domain_topologies(todict=True):
        oom.append("ugrid")
    s["refs"] = []
    for key, cr in f.coordinate_references(todict=True).items():
        par = cr.coordinate_conversion.parameters()
        if par.get("grid_mapping_name", False):
            oom.append("grid-mapping")
        if cr.datum.parameters():
            oom.append("datum")
        if par.get("standard_name", False):
            others = [k for k, v in par.items() if k not in ("standard_name", "computed_standard_name") and v is not None]
            if others:
                oom.append("scalar-formula-terms")
            s["refs"].append({
                "sn": canon_val(par.get("standard_name")),
                "csn": None if par.get("computed_standard_name") is None else canon_val(par["computed_standard_name"]),
                "coords": [list(pos[k]) for k in cr.coordinates() if k in pos],
                "terms": [[t, (None if k is None or k not in pos else pos[k][1])]
                          for t, k in cr.coordinate_conversion.domain_ancillaries().items()]})
    if len(s["refs"]) > 1:
        oom.append("several-formula-terms")
    s["oom"] = sorted(set(oom))
    return s


# ---------------------------------------------------------------------------
# the property oracle (with cfdm's own equals, on fields brought into memory)
# ---------------------------------------------------------------------------
def read_all(path):
    """Everything that can be read from the dataset: the fields, and the
    domains defined by domain variables."""
    return [in_memory(h) for h in cfdm.read(path)] + [in_memory(h) for h in cfdm.read(path, domain=True)]


def in_memory(f):
    f = f.copy()
    try:
        f.to_memory(inplace=True)
    except Exception:
        pass
    if isinstance(f, cfdm.Field):
        f.data.array  # noqa
    for c in f.constructs.filter_by_data(todict=True).values():
        try:
            c.to_memory(inplace=True)
        except Exception:
            c.data.array  # noqa
    return f


def match_all(wanted, have, ignore=()):
    """Greedy one-to-one matching of `wanted` fields into `have`; returns
    the indices of `wanted` left unmatched and the used indices of `have`."""
    used = set()
    missing = []
    for i, w in enumerate(wanted):
        hit = None
        for j, h in enumerate(have):
            if j in used:
                continue
            try:
                if h.equals(w, ignore_properties=list(ignore), verbose=0):
                    hit = j
                    break
            except Exception:
                continue
        if hit is None:
            missing.append(i)
        else:
            used.add(hit)
    return missing, used


def why_not(w, have, ignore, used):
    """Short reasons: per unmatched candidate, the properties that differ and
    the numbers of constructs of each type."""
    out = []
    wp = w.properties()
    for j, h in enumerate(have):
        if j in used:
            continue
        hp = h.properties()
        diff = sorted(k for k in set(wp) | set(hp)
                      if k not in ignore and canon_val(wp.get(k, "<absent>")) != canon_val(hp.get(k, "<absent>")))
        counts = {}
        for x, tag in ((w, 0), (h, 1)):
            for c in x.constructs.values():
                t = c.construct_type
                counts.setdefault(t, [0, 0])[tag] += 1
        out.append({"properties": diff, "constructs": {t: v for t, v in counts.items() if v[0] != v[1]}})
    return out[:4]


def write_kw(kw):
    """JSON options -> keyword arguments of cfdm.write."""
    out = {}
    for k, v in (kw or {}).items():
        if k == "file_descriptors":
            out[k] = {a: attr_value(x) for a, x in v.items()}
        else:
            out[k] = v
    return out


def attr_value(x):
    """A JSON attribute value: text, or {"i4"|"f8"|...: [numbers]}."""
    if isinstance(x, dict):
        (dt, vals), = x.items()
        a = np.array(vals, dtype=dt)
        return a if a.size != 1 else a[0]
    return x


def norm_opts(kw):
    """The options as the model reads them."""
    kw = kw or {}
    conv = kw.get("Conventions") or []
    if isinstance(conv, str):
        conv = [conv]

    def aslist(x):
        return [x] if isinstance(x, str) else list(x or [])
    return {"conv": list(conv),
            "desc": {a: canon_val(attr_value(x)) for a, x in (kw.get("file_descriptors") or {}).items()},
            "glob": aslist(kw.get("global_attributes")), "vatt": aslist(kw.get("variable_attributes"))}


def classify_exc(e):
    msg = str(e)
    if isinstance(e, ValueError) and "unable to append fields" in msg and "groups" in msg:
        return "refused:groups"
    if isinstance(e, ValueError) and "incompatible 'featureType'" in msg:
        return "refused:featureType"
    if isinstance(e, ValueError) and "mode parameter must be one of" in msg:
        return "badmode:ValueError"
    return "raised:" + type(e).__name__


def run_case(case, scratch):
    fmt = case.get("fmt", "NETCDF4")
    fmt_append = case.get("fmt_append", fmt)
    path = os.path.join(scratch, f"c17_{case['id']}_{os.getpid()}.nc")
    if os.path.exists(path):
        os.remove(path)
    out = {"id": case["id"], "steps": [], "setup": "ok"}
    try:
        s0 = [build(sp, scratch) for sp in case["s0"]]
        kw0 = write_kw(case.get("w_kw"))
        if case.get("external"):
            kw0["external"] = os.path.join(scratch, f"c17_{case['id']}_{os.getpid()}_external.nc")
        cfdm.write(s0, path, fmt=fmt, **kw0)
        out["created"] = ads(path)
        if case.get("foreign"):
            # global attributes put there by another tool
            nc = netCDF4.Dataset(path, "a")
            try:
                for name, val in case["foreign"]:
                    nc.setncattr(name, attr_value(val))
            finally:
                nc.close()
        tk0 = Toks()
        out["s0"] = [skel(f, tk0) for f in s0]
        out["w_opts"] = norm_opts(case.get("w_kw"))
    except Exception as e:  # noqa
        out["setup"] = "setup-failed:" + type(e).__name__ + ":" + str(e)[:200]
        return out
    a_kws = case.get("a_kw") or []
    for k, app in enumerate(case["appends"]):
        step = {"k": k}
        out["steps"].append(step)
        try:
            new = [build(sp, scratch, target=path) for sp in app]
        except Exception as e:  # noqa
            step["outcome"] = "build-failed:" + type(e).__name__ + ":" + str(e)[:200]
            break
        toks = Toks()
        before = ads(path)
        sha0 = sha(path)
        try:
            old = read_all(path)
            step["r"] = [skel(h, toks) for h in old]
        except Exception as e:  # noqa
            step["outcome"] = "read-before-failed:" + type(e).__name__ + ":" + str(e)[:200]
            break
        step["s1"] = [skel(g, toks) for g in new]
        # the constructs as they are before the call: the comparison must not
        # depend on what the writer may do to the objects it is given
        new_ref = [g.copy() for g in new]
        a_kw = a_kws[k] if k < len(a_kws) else None
        step["opts"] = norm_opts(a_kw)
        a_modes = case.get("a_mode") or []
        spelling = a_modes[k] if k < len(a_modes) else "a"
        step["mode"] = spelling
        step["before"] = before
        step["n_old"] = len(old)
        step["n_new"] = len(new)
        # the documented-unsupported decision, from the request itself
        step["want_groups"] = bool(any(g.nc_variable_groups() for g in new))
        fts = set()
        for g in new:
            ft = g.nc_global_attributes().get("featureType")
            if ft is None:
                ft = g.get_property("featureType", None)
            if ft is not None:
                fts.add(ft)
        step["new_fts"] = sorted(fts)
        step["old_ft"] = before["gatts"].get("featureType")
        sys.stdout.write(json.dumps({"id": case["id"], "starting": k}) + "\n")
        sys.stdout.flush()
        try:
            cfdm.write(new if len(new) != 1 or case.get("as_list") else new[0], path, fmt=fmt_append, mode=spelling,
                       **write_kw(a_kw))
            step["outcome"] = "ok"
        except Exception as e:  # noqa
            step["outcome"] = classify_exc(e)
            step["message"] = str(e)[:300]
        step["sha_same"] = sha(path) == sha0
        try:
            after = ads(path)
        except Exception as e:  # noqa
            step["after"] = None
            step["oracle"] = {"file_unreadable": type(e).__name__}
            break
        step["after"] = after
        orc = {}
        # netCDF4-level preservation
        orc["gatts_same"] = after["gatts"] == before["gatts"] and after["graw"] == before["graw"]
        orc["gatts_diff"] = sorted(a for a in set(before["graw"]) | set(after["graw"])
                                   if before["graw"].get(a) != after["graw"].get(a))
        bdims = {d[0]: d for d in before["dims"]}
        adims = {d[0]: d for d in after["dims"]}
        orc["dims_lost"] = sorted(n for n, d in bdims.items() if adims.get(n) != d)
        avars = {v["name"]: v for v in after["vars"]}
        orc["vars_changed"] = sorted(v["name"] for v in before["vars"] if avars.get(v["name"]) != v)
        # field-level preservation and the new fields
        try:
            got = read_all(path)
            orc["n_after"] = len(got)
            # an appended domain: the NEW variables of its own constructs (those that the new
            # domain variables name, directly or through bounds / coordinates attributes) are
            # read, in field mode, as fields of their own - which of them depends on the
            # alphabetical order of their netCDF names - by a plain write / read too (the
            # reader's business): they are neither old fields nor extra fields of the append
            if step["outcome"] == "ok" and any(not isinstance(g0, cfdm.Field) for g0 in new_ref):
                old_names = {v["name"] for v in before["vars"]}
                byname = {v["name"]: v for v in after["vars"]}
                todo = [v["name"] for v in after["vars"]
                        if v["name"] not in old_names and "dimensions" in v["attrs"]]
                own_names = set()
                while todo:
                    n = todo.pop()
                    for k2, x in byname.get(n, {"attrs": {}})["attrs"].items():
                        if k2 in REF_ATTRS or k2 == "dimensions":
                            for t in str(x).split():
                                if not t.endswith(":") and t not in own_names:
                                    own_names.add(t)
                                    todo.append(t)
                own_names -= old_names
                orc["own_metadata_variables"] = sorted(own_names)
                got = [h for h in got if not (isinstance(h, cfdm.Field) and h.nc_get_variable(None) in own_names)]
            missing, used = match_all(old, got)
            orc["old_missing"] = [repr(old[i]) for i in missing]
            orc["old_missing_ncvars"] = [old[i].nc_get_variable(None) for i in missing]
            if step["outcome"] == "ok":
                rest = [h for j, h in enumerate(got) if j not in used]
                gl_held = sorted(before["gatts"])
                miss2, used2 = match_all(new_ref, rest, ignore=gl_held)
                left = [h for j, h in enumerate(rest) if j not in used2]
                via = []
                for i in list(miss2):
                    # is it the append, or does the field not survive a
                    # plain write / read either (C01's business)?
                    try:
                        _via[0] += 1
                        p = os.path.join(scratch, f"rt_{os.getpid()}_{_via[0]}.nc")
                        cfdm.write(new_ref[i].copy(), p, fmt=fmt)
                        rt = read_all(p)
                        os.remove(p)
                    except Exception:
                        continue
                    if len(rt) != 1:
                        continue
                    m3, u3 = match_all(rt, left, ignore=gl_held)
                    if not m3:
                        left.pop(list(u3)[0])
                        miss2.remove(i)
                        via.append(i)
                orc["new_matched_via_roundtrip"] = via
                orc["new_missing"] = [repr(new_ref[i]) for i in miss2]
                orc["input_changed"] = [repr(g) for g, c in zip(new, new_ref) if not g.equals(c, verbose=0)]
                orc["new_missing_idx"] = miss2
                if miss2:
                    orc["why"] = why_not(new_ref[miss2[0]], left, gl_held, set())
                orc["extra_fields"] = [repr(h) for h in left]
        except Exception as e:  # noqa
            orc["read_after_failed"] = type(e).__name__ + ":" + str(e)[:200]
        step["oracle"] = orc
        if step["outcome"] != "ok" and not step["outcome"].startswith("refused"):
            break
    try:
        os.remove(path)
    except OSError:
        pass
    return out


def main():
    payload = json.load(sys.stdin)
    scratch = payload["scratch"]
    for case in payload["cases"]:
        res = run_case(case, scratch)
        sys.stdout.write(json.dumps(res) + "\n")
        sys.stdout.flush()


if __name__ == "__main__":
    main()
