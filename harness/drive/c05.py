"""Drive the real cfdm `equals` methods for C05 (runs with PYTHONPATH=<repo>).

stdin : {"cases": [{"x": desc, "y": desc, "opts": {...}, "extra": bool}, ...]}
stdout: one JSON line per case:
        {"r": bool | null, "exc": null | "TypeError" | ..., "msg": str,
         "self": ..., "copy": ..., "rev": ...}   (the last three only when "extra")

The objects are built from abstract descriptions through the public API only
(see harness/props/c05.py for the description format).
"""
import hashlib
import json
import logging
import sys

import numpy as np

import cfdm

DT = {"i1": "i1", "i2": "i2", "i4": "i4", "i8": "i8", "f4": "f4", "f8": "f8"}


def code_str(k):
    # strings of string-valued arrays: codes < 50 have two characters
    return ("a%d" % k) if 0 <= k < 10 else ("b" + chr(97 + (k - 10) % 26)) if k < 50 else ("long%03d" % k)


def mk_np(a):
    shape = tuple(a["shape"])
    vals = a["vals"]
    mask = [v is None for v in vals]
    if a["dt"] == "U":
        filled = [code_str(0) if v is None else code_str(v) for v in vals]
        if a.get("w"):
            # a string array held in memory wider than its longest element
            arr = np.array(filled, dtype="U%d" % a["w"]).reshape(shape)
        else:
            arr = np.array(filled, dtype=str).reshape(shape) if filled else np.empty(shape, dtype="U2")
    else:
        filled = [0 if v is None else v for v in vals]
        if a.get("ticks"):
            # value + ticks * 2**-60: differences far below the default tolerances
            # (only generated where the sum is exactly representable in float64)
            filled = [float(v) + t * 2.0 ** -60 for v, t in zip(filled, a["ticks"])]
        arr = np.array(filled, dtype=DT[a["dt"]]).reshape(shape)
    if any(mask) or a.get("ma"):
        arr = np.ma.array(arr, mask=np.array(mask, dtype=bool).reshape(shape))
    return arr


def mk_pval(p):
    if p is None:
        return None
    if "s" in p:
        return p["s"]
    arr = mk_np(p)
    if p.get("py") and arr.shape == () and not np.ma.isMA(arr):
        return arr.item()
    return arr


def mk_data(d):
    kw = {}
    if d.get("units") is not None:
        kw["units"] = d["units"]
    if d.get("cal") is not None:
        kw["calendar"] = d["cal"]
    if d.get("fill") is not None:
        kw["fill_value"] = d["fill"]
    if d.get("comp"):
        c = d["comp"]
        src = cfdm.RaggedContiguousArray(
            compressed_array=cfdm.NumpyArray(mk_np(c["carr"])), shape=tuple(d["arr"]["shape"]),
            count_variable=cfdm.Count(data=cfdm.Data(np.array(c["counts"], dtype="i4"))))
        return cfdm.Data(src, **kw)
    return cfdm.Data(mk_np(d["arr"]), **kw)


def props_of(plist):
    return {k: mk_pval(v) for k, v in plist}


def fill_pd(obj, p):
    obj.set_properties(props_of(p["props"]))
    if p.get("data") is not None:
        obj.set_data(mk_data(p["data"]), copy=False)
    if p.get("ncvar") is not None:
        obj.nc_set_variable(p["ncvar"])
    return obj


CLS = {"dim": cfdm.DimensionCoordinate, "aux": cfdm.AuxiliaryCoordinate,
       "domanc": cfdm.DomainAncillary, "meas": cfdm.CellMeasure,
       "fanc": cfdm.FieldAncillary, "dtop": cfdm.DomainTopology,
       "cconn": cfdm.CellConnectivity}


def mk_cons(c):
    obj = CLS[c["cls"]]()
    fill_pd(obj, c["pd"])
    if c["pd"].get("ext"):
        obj.nc_set_external(True)
    if c.get("bounds") is not None:
        obj.set_bounds(fill_pd(cfdm.Bounds(), c["bounds"]), copy=False)
    if c.get("geom") is not None:
        obj.set_geometry(c["geom"])
    if c.get("iring") is not None:
        obj.set_interior_ring(fill_pd(cfdm.InteriorRing(), c["iring"]), copy=False)
    if c.get("meas") is not None:
        obj.set_measure(c["meas"])
    if c["cls"] == "dtop":
        obj.set_cell("face")
    if c["cls"] == "cconn":
        obj.set_connectivity("edge")
    return obj


def mk_cm(c):
    q = {k: v for k, v in c["quals"]}
    if c["intervals"]:
        q["interval"] = [mk_data(d) for d in c["intervals"]]
    cm = cfdm.CellMethod(axes=list(c["axes"]), qualifiers=q)
    if c.get("method") is not None:
        cm.set_method(c["method"])
    return cm


def mk_cr(r):
    return cfdm.CoordinateReference(
        coordinates=list(r["coords"]),
        datum=cfdm.Datum(parameters={k: mk_pval(v) for k, v in r["dparams"]}),
        coordinate_conversion=cfdm.CoordinateConversion(
            parameters={k: mk_pval(v) for k, v in r["cparams"]},
            domain_ancillaries={k: v for k, v in r["cdas"]}))


def mk_field(f):
    obj = cfdm.Field() if f["isfield"] else cfdm.Domain()
    obj.set_properties(props_of(f["props"]))
    for key, size in f["axes"]:
        obj.set_construct(cfdm.DomainAxis(size) if size is not None else cfdm.DomainAxis(), key=key, copy=False)
    for key, axes, c in f["cons"]:
        obj.set_construct(mk_cons(c), key=key, axes=list(axes), copy=False)
    if f["isfield"] and f.get("data") is not None:
        obj.set_data(mk_data(f["data"]), axes=list(f["daxes"]), copy=False)
    for key, c in f["cms"]:
        obj.set_construct(mk_cm(c), key=key, copy=False)
    for key, r in f["crs"]:
        obj.set_construct(mk_cr(r), key=key, copy=False)
    return obj


def build(t):
    k = t["k"]
    if k == "cons":
        return mk_cons(t["v"])
    if k == "bounds":
        return fill_pd(cfdm.Bounds(), t["v"])
    if k in ("iring", "count", "index", "list"):
        cls = {"iring": cfdm.InteriorRing, "count": cfdm.Count, "index": cfdm.Index, "list": cfdm.List}[k]
        return fill_pd(cls(), t["v"])
    if k == "axis":
        return cfdm.DomainAxis(t["v"]) if t["v"] is not None else cfdm.DomainAxis()
    if k == "cm":
        return mk_cm(t["v"])
    if k == "cr":
        return mk_cr(t["v"])
    if k == "data":
        return mk_data(t["v"])
    if k == "field":
        return mk_field(t["v"])
    if k == "py":
        return {"str": "a string", "none": None, "int": 3, "list": [1, 2], "nparr": np.arange(3.0),
                "dict": {"a": 1}}[t["v"]]
    raise RuntimeError("bad kind " + k)


def conv_opts(obj, o):
    """The options of the case (already restricted by the harness to those the
    class documents) as keyword arguments."""
    kw = {}
    for name, key in (("rtol", "rtol"), ("atol", "atol")):
        if o.get(key) is not None:
            n, d = o[key]
            kw[name] = n / d if d != 1 else n
    for name, key in (("ignore_data_type", "idt"), ("ignore_fill_value", "ifv"),
                      ("ignore_compression", "icomp"), ("ignore_type", "itype"),
                      ("verbose", "verbose")):
        if o.get(key) is not None:
            kw[name] = o[key]
    if o.get("ip") is not None:
        ip = o["ip"]
        kw["ignore_properties"] = ip if isinstance(ip, str) else (tuple(ip) if o.get("ip_tuple") else list(ip))
    return kw


# ---- fingerprints: everything observable about an operand, to show that equals is pure --------
def _fpv(v):
    if isinstance(v, np.ndarray):
        m = np.ma.getmaskarray(v).ravel().tolist()
        d = np.ma.getdata(v).ravel().tolist()
        return ("nd", str(v.dtype), tuple(v.shape), [None if mm else repr(x) for x, mm in zip(d, m)])
    if isinstance(v, cfdm.Data):
        return _fp_data(v)
    if isinstance(v, (list, tuple)):
        return [_fpv(x) for x in v]
    if isinstance(v, dict):
        return sorted((str(k), _fpv(x)) for k, x in v.items())
    return repr(v)


def _fp_data(d):
    if d is None:
        return None
    return ("D", _fpv(d.array), d.get_units(None), d.get_calendar(None), repr(d.get_fill_value(None)),
            d.get_compression_type())


def _fp(o):
    if isinstance(o, cfdm.Data):
        return _fp_data(o)
    if isinstance(o, (cfdm.Field, cfdm.Domain)):
        da = o.constructs.data_axes()
        cons = sorted((k, c.construct_type, repr(da.get(k)), _fp(c)) for k, c in o.constructs.todict().items())
        dat, dax = None, None
        if isinstance(o, cfdm.Field):
            dat = _fp_data(o.get_data(None))
            dax = repr(o.get_data_axes(default=None))
        return ("F", type(o).__name__, _fpv(o.properties()), dat, dax, cons)
    if isinstance(o, cfdm.CellMethod):
        return ("cm", repr(o.get_axes(None)), repr(o.get_method(None)), _fpv(o.qualifiers()))
    if isinstance(o, cfdm.CoordinateReference):
        return ("cr", sorted(o.coordinates()), _fpv(o.datum.parameters()),
                _fpv(o.coordinate_conversion.parameters()), _fpv(o.coordinate_conversion.domain_ancillaries()))
    if isinstance(o, cfdm.DomainAxis):
        return ("ax", repr(o.get_size(None)))
    if hasattr(o, "properties"):
        out = ["pd", type(o).__name__, _fpv(o.properties()), _fp_data(o.get_data(None)) if hasattr(o, "get_data") else None]
        for name in ("get_bounds", "get_interior_ring"):
            if hasattr(o, name):
                b = getattr(o, name)(None)
                out.append(None if b is None else _fp(b))
        for name in ("get_geometry", "get_measure", "nc_get_variable", "get_cell", "get_connectivity"):
            if hasattr(o, name):
                out.append(repr(getattr(o, name)(None)))
        if hasattr(o, "nc_get_external"):
            out.append(repr(o.nc_get_external()))
        return out
    return repr(o)


def fp(o):
    try:
        return hashlib.sha1(repr(_fp(o)).encode()).hexdigest()[:16]
    except Exception as e:  # noqa
        return "FPERR:" + type(e).__name__ + ":" + str(e)[:80]


def sequence(x, y, kw):
    """Repeated and reversed comparisons on the SAME two objects; equals must be pure."""
    out = {}
    hasy = hasattr(y, "equals")
    xc = x.copy()
    yc = y.copy() if hasy and type(y) is type(x) else None
    f0 = (fp(x), fp(y))
    out["first"] = call(lambda: x.equals(y, **kw))
    f1 = (fp(x), fp(y))
    if hasy and type(y) is type(x):
        out["rev"] = call(lambda: y.equals(x, **kw))
    f2 = (fp(x), fp(y))
    out["again"] = call(lambda: x.equals(y, **kw))
    f3 = (fp(x), fp(y))
    out["xcopy"] = call(lambda: x.equals(xc, **kw))
    if yc is not None:
        out["ycopy"] = call(lambda: y.equals(yc, **kw))
        out["rev2"] = call(lambda: y.equals(x, **kw))
    f4 = (fp(x), fp(y))
    changed = []
    for name, f in (("first", f1), ("rev", f2), ("again", f3), ("copies", f4)):
        if f[0] != f0[0]:
            changed.append(name + ":self")
        if f[1] != f0[1]:
            changed.append(name + ":other")
    out["changed"] = changed
    out["fperr"] = [f for f in f0 if f.startswith("FPERR")]
    return out


def call(fn):
    try:
        r = fn()
        if r is True or r is False:
            return {"r": r, "exc": None}
        return {"r": None, "exc": "NotBool", "msg": repr(r)[:100]}
    except Exception as e:  # noqa
        return {"r": None, "exc": type(e).__name__, "msg": str(e)[:160]}


def main():
    payload = json.loads(sys.stdin.read())
    cfdm.log_level("DISABLE")
    for c in payload["cases"]:
        row = {}
        try:
            x = build(c["x"])
            y = build(c["y"])
        except Exception as e:  # noqa - a description the public API refuses
            print(json.dumps({"r": None, "exc": "BUILD:" + type(e).__name__, "msg": str(e)[:200]}))
            sys.stdout.flush()
            continue
        kw = conv_opts(x, c["opts"])
        row = call(lambda: x.equals(y, **kw))
        row["kw"] = sorted(kw)
        if c.get("conv"):
            # what ignore_type=True is documented to mean: compare with type(x)(source=y)
            kw2 = {k: v for k, v in kw.items() if k != "ignore_type"}
            try:
                yc = type(x)(source=y, copy=False)
            except Exception as e:  # noqa
                row["conv"] = {"r": None, "exc": "CONV:" + type(e).__name__, "msg": str(e)[:120]}
            else:
                row["conv"] = call(lambda: x.equals(yc, **kw2))
        if c.get("seq"):
            row["seq"] = sequence(x, y, kw)
        if c.get("extra"):
            row["self"] = call(lambda: x.equals(x, **kw))
            row["copy"] = call(lambda: x.equals(x.copy(), **kw))
            if hasattr(y, "equals") and type(y) is type(x):
                row["rev"] = call(lambda: y.equals(x, **kw))
        # equals must not leave the log level changed
        lvl = str(cfdm.log_level().value)
        if lvl != "DISABLE":
            row["loglevel"] = lvl
            cfdm.log_level("DISABLE")
        print(json.dumps(row))
        sys.stdout.flush()


if __name__ == "__main__":
    main()
