"""Drive cfdm's group handling for C11 (PYTHONPATH=<repo under test>).

stdin: {"mode": ..., "scratch": dir, "cases": [...]};  one JSON line per case on stdout.

modes
  refs    hand-encoded grouped datasets (netCDF4-python, diskless) -> netcdf_flatten;
          observed: every probe attribute in the flattened dataset, the name maps
  coord   hand-encoded grouped files -> cfdm.read; observed: which variable became the
          dimension coordinate of the data variable's axis
  fields  generated fields x group assignments -> cfdm.write(group=True/False), cfdm.read,
          re-write; observed: acceptance, layouts (netCDF4 raw view), equality, recorded groups
  names   the netCDF-name/group accessors of cfdm.mixin.netcdf
  gattrs  same-named group attributes at several nested levels (hand-encoded and cfdm-written),
          read with both backends, re-written grouped and flat
  fterms  a bounded parametric vertical coordinate, its bounds and terms in a non-root group; the
          written files are stripped of the term variables' own `bounds` attributes (another
          producer's file: CF 7.1 route only) and read back, grouped against flat
"""
import json
import os
import sys
import warnings

import numpy as np

warnings.simplefilter("ignore")

import netCDF4  # noqa: E402

import cfdm  # noqa: E402

cfdm.log_level("DISABLE")

ERR = {IndexError: "IndexErr", ValueError: "ValueErr", TypeError: "TypeErr", KeyError: "KeyErr",
       AttributeError: "AttributeErr", RuntimeError: "RuntimeErr"}


def errclass(e):
    for k, v in ERR.items():
        if isinstance(e, k):
            return v
    return "OtherErr:" + type(e).__name__


# --------------------------------------------------------------------------- raw views
def raw_tree(g):
    """The group tree as netCDF4-python iterates it (the order the flattener sees)."""
    return {
        "name": "" if g.parent is None else g.name,
        "dims": [d for d in g.dimensions],
        "vars": [[v, g.variables[v].ndim] for v in g.variables],
        "subs": [raw_tree(c) for c in g.groups.values()],
    }


REF_ATTRS = ("coordinates", "bounds", "ancillary_variables", "cell_measures", "grid_mapping",
             "formula_terms", "cell_methods", "compress", "geometry", "node_count",
             "part_node_count", "nodes", "node_coordinates", "interior_ring",
             "sample_dimension", "instance_dimension", "climatology")


def raw_layout(fn):
    """Independent view of a written file: per group its attributes, dimensions and variables
    (with the group in which each of a variable's dimensions really lives)."""
    nc = netCDF4.Dataset(fn, "r")
    out = {}

    def walk(g):
        path = g.path
        out[path] = {
            "attrs": {a: str(g.getncattr(a)) for a in sorted(g.ncattrs())},
            "dims": {d.name: [len(d), bool(d.isunlimited())] for d in g.dimensions.values()},
            "vars": {
                v.name: {
                    "dims": [[d.group().path, d.name] for d in v.get_dims()],
                    "refs": {a: str(v.getncattr(a)) for a in v.ncattrs() if a in REF_ATTRS},
                }
                for v in g.variables.values()
            },
        }
        for c in g.groups.values():
            walk(c)

    walk(nc)
    nc.close()
    return out


# --------------------------------------------------------------------------- hand-encoded datasets
def build_dataset(nc, tree, data=False):
    """Create the dimensions, variables and groups of `tree` (a nested dict) in `nc`."""

    def rec(g, t):
        for name, size in t["dims"]:
            g.createDimension(name, size)
        for v in t["vars"]:
            if v.get("dtype") == "str":
                var = g.createVariable(v["name"], str, tuple(v["dims"]))
            else:
                var = g.createVariable(v["name"], v.get("dtype", "f8"), tuple(v["dims"]))
            for k, val in v.get("attrs", {}).items():
                var.setncattr(k, val)
            if data and v.get("values") is not None:
                if v.get("dtype") == "str":
                    var[...] = np.array(v["values"], dtype=object).reshape(var.shape)
                else:
                    var[...] = np.array(v["values"], dtype="f8").reshape(var.shape)
        for c in t["subs"]:
            rec(g.createGroup(c["name"]), c)

    rec(nc, tree)


_n = [0]


def mem_dataset(tag):
    _n[0] += 1
    return netCDF4.Dataset(f"c11_{tag}_{os.getpid()}_{_n[0]}.nc", "w", diskless=True, persist=False)


def group_at(nc, path):
    g = nc
    for p in path:
        g = g.groups[p]
    return g


def alias_probe(label, get):
    """Record the array `get()` returns, overwrite it in place, read again: a difference means the
    caller was handed internal state.  Returns a description of the difference or None."""
    try:
        a = get()
    except Exception:  # noqa
        return None                                # no array to hand out (e.g. a geometry coordinate without data)
    a = np.asanyarray(a)
    keep = np.ma.array(a, copy=True)
    try:
        if a.dtype.kind in "US":
            a[...] = "clobbered"
        elif a.dtype.kind == "O":
            a[...] = None
        else:
            a[...] = 0
            a[...] = a - 7
        if np.ma.isMA(a):
            a.mask = ~np.ma.getmaskarray(a)
    except (ValueError, TypeError):
        return None                                # read-only: nothing can leak
    try:
        b = np.ma.array(get(), copy=True)
    except Exception as e:  # noqa
        return f"{label}: {type(e).__name__} on second read"
    same = (b.shape == keep.shape and b.dtype == keep.dtype
            and np.array_equal(np.ma.getmaskarray(b), np.ma.getmaskarray(keep))
            and np.array_equal(b.filled(0) if b.dtype.kind not in "USO" else b.astype(str).filled(""),
                               keep.filled(0) if keep.dtype.kind not in "USO" else keep.astype(str).filled("")))
    return None if same else f"{label}: {keep.tolist()!r} became {b.tolist()!r}"


def alias_field(f):
    """alias_probe over the data of a field and of every construct (and bounds) with data."""
    out = []
    x = alias_probe("field data", lambda: f.data.array)
    if x:
        out.append(x)
    for key, c in sorted(f.constructs.filter_by_data(todict=True).items()):
        x = alias_probe(f"{c.construct_type} {c.nc_get_variable(None)}", lambda c=c: c.data.array)
        if x:
            out.append(x)
        if hasattr(c, "has_bounds") and c.has_bounds() and c.bounds.has_data():
            x = alias_probe(f"bounds of {c.nc_get_variable(None)}", lambda c=c: c.bounds.data.array)
            if x:
                out.append(x)
    return out


def run_refs(case):
    from cfdm.read_write.netcdf.flatten import netcdf_flatten

    src = mem_dataset("in")
    try:
        build_dataset(src, case["tree"])
        out = {"i": case["i"], "tree": raw_tree(src), "probes": []}
        first = True
        for pr in case["probes"]:
            var = group_at(src, pr["group"]).variables[pr["var"]]
            var.setncattr(pr["attr"], pr["value"])
            if pr.get("coords") is not None:
                var.setncattr("coordinates", pr["coords"])
            row = {}
            for strict in (False, True):
                dst = mem_dataset("out")
                key = "strict" if strict else "lax"
                try:
                    netcdf_flatten(src, dst, strict=strict, omit_data=True)
                    vmap = dst.getncattr("_flattener_variable_map")
                    dmap = dst.getncattr("_flattener_dimension_map")
                    vmap = [vmap] if isinstance(vmap, str) else list(vmap)
                    dmap = [dmap] if isinstance(dmap, str) else list(dmap)
                    pairs = dict(x.split(": ") for x in vmap)
                    absname = "/" + "/".join(list(pr["group"]) + [pr["var"]])
                    flat = [k for k, v in pairs.items() if v == absname]
                    row[key] = {"ok": str(dst.variables[flat[0]].getncattr(pr["attr"]))}
                    if first and not strict:
                        out["varmap"] = vmap
                        out["dimmap"] = dmap
                        first = False
                except Exception as e:  # noqa
                    row[key] = {"exc": type(e).__name__, "msg": str(e)[:200]}
                finally:
                    try:
                        dst.close()
                    except Exception:
                        pass
            var.delncattr(pr["attr"])
            if pr.get("coords") is not None:
                var.delncattr("coordinates")
            out["probes"].append(row)
        # the same tree as a file, every probe attribute set at once, flattened (lax) through the
        # netCDF4 and the h5netcdf backend
        if case.get("scratch"):
            out["backends"] = flatten_file_backends(case, case["scratch"])
        return out
    finally:
        try:
            src.close()
        except Exception:
            pass


def flatten_file_backends(case, scratch):
    import h5netcdf
    from cfdm.read_write.netcdf.flatten import netcdf_flatten

    fn = os.path.join(scratch, f"c11_refs_{os.getpid()}_{case['i']}.nc")
    nc = netCDF4.Dataset(fn, "w", format="NETCDF4")
    build_dataset(nc, case["tree"])
    for pr in case["probes"]:
        var = group_at(nc, pr["group"]).variables[pr["var"]]
        var.setncattr(pr["attr"], pr["value"])
        if pr.get("coords") is not None and pr["attr"] != "coordinates":
            var.setncattr("coordinates", pr["coords"])
    nc.close()
    res = {}
    for backend in ("netCDF4", "h5netcdf"):
        src = dst = None
        try:
            src = netCDF4.Dataset(fn, "r") if backend == "netCDF4" else h5netcdf.File(fn, "r")
            dst = mem_dataset("bk")
            netcdf_flatten(src, dst, strict=False, omit_data=True)
            vmap = dst.getncattr("_flattener_variable_map")
            dmap = dst.getncattr("_flattener_dimension_map")
            vmap = [vmap] if isinstance(vmap, str) else list(vmap)
            dmap = [dmap] if isinstance(dmap, str) else list(dmap)
            ab = dict(x.split(": ") for x in vmap)
            res[backend] = {
                "varmap": vmap, "dimmap": dmap,
                "dimsizes": {d: len(dst.dimensions[d]) for d in dst.dimensions},
                "vardims": {ab[v]: list(dst.variables[v].dimensions) for v in dst.variables},
                "refattrs": {ab[v]: {a: str(dst.variables[v].getncattr(a)) for a in dst.variables[v].ncattrs()}
                             for v in dst.variables if dst.variables[v].ncattrs()},
            }
        except Exception as e:  # noqa
            import traceback
            res[backend] = {"exc": type(e).__name__, "msg": str(e)[:200], "tb": traceback.format_exc()[-700:],
                            "attrs": [[pr["attr"], pr["value"]] for pr in case["probes"]]}
        finally:
            for x in (dst, src):
                try:
                    if x is not None:
                        x.close()
                except Exception:
                    pass
    try:
        os.remove(fn)
    except OSError:
        pass
    return res


def run_coord(case, scratch):
    fn = os.path.join(scratch, f"c11_coord_{os.getpid()}_{case['i']}.nc")
    nc = netCDF4.Dataset(fn, "w", format="NETCDF4")
    nc.Conventions = "CF-1.8"
    build_dataset(nc, case["tree"], data=True)
    nc.close()
    want = "/" + "/".join(list(case["field"][0]) + [case["field"][1]])
    if not case["field"][0]:
        want = case["field"][1]
    out = {"i": case["i"]}
    try:
        fs = cfdm.read(fn)
    except Exception as e:  # noqa
        out["exc"] = type(e).__name__
        out["msg"] = str(e)[:200]
        return out
    out["nfields"] = len(fs)
    hit = [f for f in fs if f.nc_get_variable(None) == want]
    if len(hit) != 1:
        out["missing"] = [f.nc_get_variable(None) for f in fs]
        return out
    f = hit[0]
    axes = f.get_data_axes()
    dcs = f.dimension_coordinates(filter_by_axis=(axes[0],), axis_mode="exact", todict=True) if axes else {}
    out["dimcoord"] = [dc.nc_get_variable(None) for dc in dcs.values()]
    out["dimcoord_values"] = [dc.data.array.tolist() for dc in dcs.values()]
    out["alias"] = [x for x in [alias_probe("dimension coordinate", lambda dc=dc: dc.data.array) for dc in dcs.values()]
                    + [alias_probe("field data", lambda: f.data.array)] if x]
    out["dimcoord_values_again"] = [dc.data.array.tolist() for dc in dcs.values()]
    out["axis_ncdim"] = f.domain_axes(todict=True)[axes[0]].nc_get_dimension(None) if axes else None
    out["shape"] = list(f.shape)
    # the same file through the h5netcdf backend
    h5 = {}
    try:
        hs = cfdm.read(fn, netcdf_backend="h5netcdf")
        hit5 = [x for x in hs if x.nc_get_variable(None) == want]
        h5["nfields"] = len(hs)
        if len(hit5) == 1:
            h = hit5[0]
            ax5 = h.get_data_axes()
            d5 = h.dimension_coordinates(filter_by_axis=(ax5[0],), axis_mode="exact", todict=True) if ax5 else {}
            h5["dimcoord"] = [dc.nc_get_variable(None) for dc in d5.values()]
            h5["dimcoord_values"] = [dc.data.array.tolist() for dc in d5.values()]
            h5["shape"] = list(h.shape)
            h5["axis_ncdim"] = h.domain_axes(todict=True)[ax5[0]].nc_get_dimension(None) if ax5 else None
            h5["equals"] = eq(h, f) is True and eq(f, h) is True
        else:
            h5["missing"] = [x.nc_get_variable(None) for x in hs]
    except Exception as e:  # noqa
        h5["exc"] = type(e).__name__
        h5["msg"] = str(e)[:200]
    out["h5"] = h5
    os.remove(fn)
    return out


# --------------------------------------------------------------------------- generated fields
def build_field(spec):
    """A field built through the public API from an abstract skeleton."""
    f = cfdm.Field(properties=dict(spec["props"]))
    f.nc_set_variable(spec["ncvar"])
    keys = []
    for a in spec["axes"]:
        k = f.set_construct(cfdm.DomainAxis(a["size"]))
        if a.get("ncdim"):
            f.domain_axes(todict=True)[k].nc_set_dimension(a["ncdim"])
        keys.append(k)
    shape = [spec["axes"][i]["size"] for i in spec["data_axes"]]
    n = int(np.prod(shape)) if shape else 1
    f.set_data(cfdm.Data(np.arange(n, dtype="f8").reshape(shape) + 0.5), axes=[keys[i] for i in spec["data_axes"]])

    def arr(c, off):
        shp = [spec["axes"][i]["size"] for i in c["axes"]]
        m = int(np.prod(shp)) if shp else 1
        return np.arange(m, dtype="f8").reshape(shp) * 2 + off

    for j, c in enumerate(spec["constructs"]):
        t = c["type"]
        data = cfdm.Data(arr(c, 100.0 * (j + 1)))
        if c.get("strings"):
            m = int(np.prod([spec["axes"][i]["size"] for i in c["axes"]]))
            data = cfdm.Data(np.array(["st" + "a" * (i % 4) + str(i) for i in range(m)]).reshape(
                [spec["axes"][i]["size"] for i in c["axes"]]))
        if t == "dim":
            x = cfdm.DimensionCoordinate(properties=dict(c["props"]), data=data)
        elif t == "aux":
            x = cfdm.AuxiliaryCoordinate(properties=dict(c["props"]), data=data)
        elif t == "measure":
            x = cfdm.CellMeasure(properties=dict(c["props"]), data=data)
            x.set_measure("area")
        elif t == "anc":
            x = cfdm.FieldAncillary(properties=dict(c["props"]), data=data)
        elif t == "domanc":
            x = cfdm.DomainAncillary(properties=dict(c["props"]), data=data)
        else:
            raise ValueError(t)
        x.nc_set_variable(c["ncvar"])
        if c.get("bounds"):
            b = cfdm.Bounds(data=cfdm.Data(np.stack([arr(c, 100.0 * (j + 1)) - 1, arr(c, 100.0 * (j + 1)) + 1], axis=-1)))
            b.nc_set_variable(c["bounds"]["ncvar"])
            if c["bounds"].get("groups") is not None:
                b.nc_set_variable_groups(c["bounds"]["groups"])
            x.set_bounds(b)
        if c.get("groups") is not None:
            x.nc_set_variable_groups(c["groups"])
        c["key"] = f.set_construct(x, axes=[keys[i] for i in c["axes"]])
    gm = spec.get("grid_mapping")
    if gm:
        cr = cfdm.CoordinateReference(
            coordinate_conversion=cfdm.CoordinateConversion(
                parameters={"grid_mapping_name": "latitude_longitude"}),
            datum=cfdm.Datum(parameters={"earth_radius": 6371007.0}),
            coordinates=[spec["constructs"][j]["key"] for j in gm["coords"]])
        cr.nc_set_variable(gm["ncvar"])
        if gm.get("groups") is not None:
            cr.nc_set_variable_groups(gm["groups"])
        f.set_construct(cr)
    for cm in spec.get("cell_methods", []):
        f.set_construct(cfdm.CellMethod(axes=[keys[i] for i in cm["axes"]], method=cm["method"]))
    for a, k in zip(spec["axes"], keys):
        if a.get("dimgroups") is not None and a.get("ncdim"):
            f.domain_axes(todict=True)[k].nc_set_dimension_groups(a["dimgroups"])
    if spec.get("groups") is not None:
        f.nc_set_variable_groups(spec["groups"])
    if spec.get("group_attrs"):
        f.nc_set_group_attributes(dict(spec["group_attrs"]))
    return f


def assign_example_plan(f, plan):
    """Group assignment of an example field from a plan: dimension coordinates (and named
    dimensions) in chain[:r0], every other data-carrying construct in a random extension of
    it along the chain, the field in chain[:k]."""
    import random
    rng = random.Random(plan["seed"])
    chain, r0 = plan["chain"], plan["r0"]
    k = max(plan["k"], r0)
    f.nc_set_variable_groups(chain[:k])
    for key, c in sorted(f.constructs.filter_by_data(todict=True).items()):
        if c.nc_get_variable(None) is None:
            continue
        if c.construct_type == "dimension_coordinate":
            c.nc_set_variable_groups(chain[:r0])
        else:
            c.nc_set_variable_groups(chain[:rng.randint(r0, 3)])
    for key, a in sorted(f.domain_axes(todict=True).items()):
        if a.nc_get_dimension(None) is not None:
            a.nc_set_dimension_groups(chain[:r0])
    for key, c in sorted(f.coordinate_references(todict=True).items()):
        if c.nc_get_variable(None) is not None and rng.random() < 0.5:
            c.nc_set_variable_groups(chain[:rng.randint(0, 3)])
    if rng.random() < 0.5:
        f.nc_set_group_attributes({"comment": "group level"})
        f.set_property("comment", "group level")


def assign_example(f, assign):
    """Apply group assignments (identity -> groups) to an example field."""
    if "plan" in assign:
        return assign_example_plan(f, assign["plan"])
    if assign.get("field") is not None:
        f.nc_set_variable_groups(assign["field"])
    for key, groups in assign.get("constructs", {}).items():
        c = f.constructs[key]
        if c.nc_get_variable(None) is not None:
            c.nc_set_variable_groups(groups)
    for key, groups in assign.get("bounds", {}).items():
        c = f.constructs[key]
        if c.has_bounds() and c.bounds.nc_get_variable(None) is not None:
            c.bounds.nc_set_variable_groups(groups)
    for key, groups in assign.get("axes", {}).items():
        a = f.domain_axes(todict=True)[key]
        if a.nc_get_dimension(None) is not None:
            a.nc_set_dimension_groups(groups)
    if assign.get("group_attrs"):
        f.nc_set_group_attributes(dict(assign["group_attrs"]))


def names_of(f):
    """netCDF names recorded on a field: per construct (matched by position among the
    constructs of its type and identity) and per data axis."""
    out = {"field": f.nc_get_variable(None), "field_groups": list(f.nc_variable_groups()),
           "group_attrs": {k: str(v) for k, v in sorted(f.nc_group_attributes(values=True).items())}}
    cons = {}
    for key, c in sorted(f.constructs.filter_by_data(todict=True).items()):
        e = {"ncvar": c.nc_get_variable(None)}
        if hasattr(c, "has_bounds") and c.has_bounds():
            e["bounds"] = c.bounds.nc_get_variable(None)
        cons[c.construct_type + ":" + c.identity(default="") + ":" + str(c.shape)] = e
    for key, c in sorted(f.coordinate_references(todict=True).items()):
        cons["ref:" + c.identity(default="")] = {"ncvar": c.nc_get_variable(None)}
    out["constructs"] = cons
    da = f.domain_axes(todict=True)
    out["data_axes"] = [[da[k].get_size(), da[k].nc_get_dimension(None)] for k in f.get_data_axes(default=())]
    return out


def eq(a, b):
    """equals, total: an exception is an observation."""
    try:
        return bool(a.equals(b))
    except Exception as e:  # noqa
        return "raised " + type(e).__name__


def run_fields(case, scratch):
    out = {"i": case["i"]}
    base = os.path.join(scratch, f"c11_f_{os.getpid()}_{case['i']}")
    if "example" in case:
        f = cfdm.example_field(case["example"])
        assign_example(f, case["assign"])
    else:
        f = build_field(case["spec"])
    out["orig"] = names_of(f)
    # the writer's view of every variable: full netCDF name and the axes it spans
    f0 = f.copy()
    res = {}
    for tag, group in (("G", True), ("F", False)):
        fn = f"{base}_{tag}.nc"
        r = {}
        try:
            cfdm.write(f, fn, group=group)
        except Exception as e:  # noqa
            r["write_exc"] = type(e).__name__
            r["write_msg"] = str(e)[:300]
            res[tag] = r
            continue
        r["layout"] = raw_layout(fn)
        try:
            gs = cfdm.read(fn)
        except Exception as e:  # noqa
            r["read_exc"] = type(e).__name__
            r["read_msg"] = str(e)[:300]
            res[tag] = r
            continue
        r["nfields"] = len(gs)
        if len(gs) == 1:
            g = gs[0]
            r["equals_orig"] = eq(g, f0)
            r["orig_equals"] = eq(f0, g)
            r["names"] = names_of(g)
            # overwrite every array the implementation hands out, then compare again
            al = alias_field(g)
            if al:
                out[tag + "_alias"] = al
            elif eq(g, f0) is not True and r["equals_orig"] is True:
                out[tag + "_alias"] = ["the field no longer equals the original after its arrays were overwritten"]
            res[tag + "_field"] = g
            if group:
                try:
                    hs = cfdm.read(fn, netcdf_backend="h5netcdf")
                    r["h5_nfields"] = len(hs)
                    if len(hs) == 1:
                        r["h5_equals"] = eq(hs[0], f0) is True and eq(f0, hs[0]) is True
                        r["h5_names"] = names_of(hs[0]) == r["names"]
                except Exception as e:  # noqa
                    r["h5_exc"] = type(e).__name__ + ": " + str(e)[:200]
        res[tag] = r
    out["unchanged"] = eq(f, f0) is True and names_of(f) == out["orig"]
    gG, gF = res.pop("G_field", None), res.pop("F_field", None)
    if gG is not None and gF is not None:
        out["G_equals_F"] = eq(gG, gF) is True and eq(gF, gG) is True
    if gG is not None:
        # write the read-back again: the layout must be reproduced
        fn2 = f"{base}_G2.nc"
        try:
            cfdm.write(gG, fn2)
            out["rewrite_layout"] = raw_layout(fn2)
            g2 = cfdm.read(fn2)
            out["rewrite_equals"] = len(g2) == 1 and eq(g2[0], f0) is True
        except Exception as e:  # noqa
            out["rewrite_exc"] = type(e).__name__ + ": " + str(e)[:200]
        # and flat: must equal the flat file
        fn3 = f"{base}_G3.nc"
        try:
            cfdm.write(gG, fn3, group=False)
            out["rewrite_flat_layout"] = raw_layout(fn3)
        except Exception as e:  # noqa
            out["rewrite_flat_exc"] = type(e).__name__ + ": " + str(e)[:200]
    out.update(res)
    for suffix in ("_G.nc", "_F.nc", "_G2.nc", "_G3.nc"):
        try:
            os.remove(base + suffix)
        except OSError:
            pass
    return out


# --------------------------------------------------------------------------- formula terms of another producer
def _nc_find(nc, grp, name):
    """The variable a reference written by cfdm's writer denotes (absolute path, or a bare name
    searched from the referring group towards the root)."""
    if name.startswith("/"):
        g = nc
        parts = name.split("/")[1:]
        for p in parts[:-1]:
            if p not in g.groups:
                return None
            g = g.groups[p]
        return g.variables.get(parts[-1])
    g = grp
    while g is not None:
        if name in g.variables:
            return g.variables[name]
        g = g.parent
    return None


def strip_term_bounds(fn):
    """Make a cfdm-written file look like one of a producer that follows CF 7.1 to the letter: the
    formula-terms variables of a bounded parametric coordinate lose their own `bounds` attribute,
    so that their bounds are reachable only through the formula_terms attribute of the
    coordinate's bounds variable.  Returns what was removed."""
    nc = netCDF4.Dataset(fn, "a")
    removed = []

    def walk(g):
        for v in g.variables.values():
            if "formula_terms" in v.ncattrs() and "bounds" in v.ncattrs():
                for t in str(v.getncattr("formula_terms")).split()[1::2]:
                    tv = _nc_find(nc, g, t)
                    if tv is None or (tv.name == v.name and tv.group().path == g.path):
                        continue
                    if "bounds" in tv.ncattrs():
                        removed.append([tv.group().path, tv.name, str(tv.getncattr("bounds"))])
                        tv.delncattr("bounds")
        for c in g.groups.values():
            walk(c)

    walk(nc)
    nc.close()
    return removed


def run_fterms(case, scratch):
    """example_field(1) (atmosphere_hybrid_height_coordinate with bounds; terms a, b with bounds,
    orog without): the coordinate, its bounds and the terms spanning its axis in chain[:r0]
    (r0 >= 1), optionally the bounds variables one group deeper, the data variable in chain[:k],
    everything else by the seeded plan; written grouped and flat, both stripped, both read."""
    import random
    out = {"i": case["i"]}
    rng = random.Random(case["seed"])
    chain, r0, k = case["chain"], case["r0"], max(case["k"], case["r0"])
    f0 = cfdm.example_field(1)
    f = f0.copy()
    f.nc_set_variable_groups(chain[:k])
    zkey = f.dimension_coordinate("atmosphere_hybrid_height_coordinate", key=True)
    zax = f.get_data_axes(zkey)
    bdeep = chain[:r0 + 1] if case.get("bounds_deeper") and r0 + 1 <= k else chain[:r0]
    d0 = rng.randint(0, r0) if case.get("spread") else 0
    for key, c in sorted(f.constructs.filter_by_data(todict=True).items()):
        if c.nc_get_variable(None) is None:
            continue
        axes = f.get_data_axes(key)
        if key == zkey or (c.construct_type == "domain_ancillary" and axes == zax):
            c.nc_set_variable_groups(chain[:r0])
            if c.has_bounds():
                c.bounds.nc_set_variable_groups(bdeep)
        elif c.construct_type == "dimension_coordinate":
            # (its netCDF dimension goes with it)
            c.nc_set_variable_groups(chain[:d0])
        else:
            # at or below every dimension's group
            c.nc_set_variable_groups(chain[:rng.randint(r0, k)] if case.get("spread") else chain[:r0])
    out["has_bounds_orig"] = sorted(bool(c.has_bounds()) for c in f.domain_ancillaries(todict=True).values())
    base = os.path.join(scratch, f"c11_ft_{os.getpid()}_{case['i']}")
    fields = {}
    for tag, group in (("G", True), ("F", False)):
        fn = f"{base}_{tag}.nc"
        r = {}
        try:
            cfdm.write(f, fn, group=group)
            r["removed"] = strip_term_bounds(fn)
            r["layout"] = sorted(p for p, g in raw_layout(fn).items() if g["vars"])
        except Exception as e:  # noqa
            r["write_exc"] = type(e).__name__
            r["write_msg"] = str(e)[:300]
            out[tag] = r
            continue
        try:
            gs = cfdm.read(fn)
        except Exception as e:  # noqa
            r["read_exc"] = type(e).__name__
            r["read_msg"] = str(e)[:300]
            out[tag] = r
            continue
        r["nfields"] = len(gs)
        r["field_ncvars"] = [x.nc_get_variable(None) for x in gs]
        hit = [x for x in gs if x.identity() == f0.identity()]
        if hit:
            g = hit[0]
            r["equals_orig"] = eq(g, f0)
            r["orig_equals"] = eq(f0, g)
            r["has_bounds"] = sorted(bool(c.has_bounds()) for c in g.domain_ancillaries(todict=True).values())
            r["alias"] = alias_field(g)
            fields[tag] = g
        out[tag] = r
    if len(fields) == 2:
        out["G_equals_F"] = eq(fields["G"], fields["F"]) is True and eq(fields["F"], fields["G"]) is True
    for tag in ("G", "F"):
        try:
            os.remove(f"{base}_{tag}.nc")
        except OSError:
            pass
    return out


# --------------------------------------------------------------------------- group attributes at several levels
GA_NAMES = ("comment", "source", "model_id", "experiment")


def ga_view(f):
    return {
        "ncvar": f.nc_get_variable(None),
        "props": {k: str(f.get_property(k)) for k in GA_NAMES if f.has_property(k)},
        "group_attrs": sorted(f.nc_group_attributes()),
        "global_attrs": sorted(k for k in f.nc_global_attributes() if k in GA_NAMES),
    }


def ga_levels(fn):
    """attributes (of the names under test) of every group of a file, and of every variable"""
    lay = raw_layout(fn)
    nc = netCDF4.Dataset(fn, "r")
    out = {"groups": {p: {k: v for k, v in g["attrs"].items() if k in GA_NAMES} for p, g in lay.items()}, "vars": {}}

    def walk(g):
        for v in g.variables.values():
            out["vars"][(g.path.rstrip("/") + "/" + v.name) if g.path != "/" else v.name] = {
                k: str(v.getncattr(k)) for k in v.ncattrs() if k in GA_NAMES}
        for c in g.groups.values():
            walk(c)

    walk(nc)
    nc.close()
    return out


def ga_read(fn, backend):
    try:
        fs = cfdm.read(fn, netcdf_backend=backend)
    except Exception as e:  # noqa
        return {"exc": type(e).__name__, "msg": str(e)[:200]}, []
    return {"fields": sorted((ga_view(f) for f in fs), key=lambda x: str(x["ncvar"]))}, fs


def run_gattrs(case, scratch):
    """Same-named group attributes at 2-4 nested levels.  kind 'hand': netCDF4-python file (levels:
    depth -> attributes, depth 0 = global; variables: depth and own attributes).  kind 'cfdm':
    fields written together, field j in chain[:depth_j], with properties and the names marked as
    group attributes."""
    out = {"i": case["i"]}
    base = os.path.join(scratch, f"c11_ga_{os.getpid()}_{case['i']}")
    fn = base + ".nc"
    chain = case["chain"]
    if case["kind"] == "hand":
        nc = netCDF4.Dataset(fn, "w", format="NETCDF4")
        nc.Conventions = "CF-1.8"
        nc.createDimension("x", 3)
        groups = [nc]
        for name in chain:
            groups.append(groups[-1].createGroup(name))
        for d, at in case["levels"].items():
            for k, v in at.items():
                groups[int(d)].setncattr(k, v)
        for j, v in enumerate(case["variables"]):
            var = groups[v["depth"]].createVariable(v["name"], "f8", ("x",))
            var[...] = np.arange(3.0) + 10 * j
            var.standard_name = v["standard_name"]
            var.units = "K"
            for k, val in v["attrs"].items():
                var.setncattr(k, val)
        nc.close()
        originals = None
    else:
        originals = []
        for j, v in enumerate(case["variables"]):
            f = cfdm.Field(properties={"standard_name": v["standard_name"], "units": "K"})
            f.nc_set_variable(v["name"])
            ax = f.set_construct(cfdm.DomainAxis(3))
            f.domain_axes(todict=True)[ax].nc_set_dimension("x")
            f.set_data(cfdm.Data(np.arange(3.0) + 10 * j), axes=[ax])
            for k, val in v["attrs"].items():
                f.set_property(k, val)
            f.nc_set_variable_groups(chain[:v["depth"]])
            if v.get("group_attrs"):
                f.nc_set_group_attributes({k: None for k in v["group_attrs"]})
            originals.append(f)
        try:
            cfdm.write(originals, fn)
        except Exception as e:  # noqa
            out["write_exc"] = type(e).__name__ + ": " + str(e)[:200]
            return out
        out["orig"] = sorted((ga_view(f) for f in originals), key=lambda x: str(x["ncvar"]))
    out["file"] = ga_levels(fn)
    out["read"], fs = ga_read(fn, "netCDF4")
    out["read_h5"], _ = ga_read(fn, "h5netcdf")
    if originals is not None and fs:
        byname = {f.nc_get_variable(None): f for f in fs}
        out["equals_orig"] = [o.nc_get_variable(None) in byname and eq(byname[o.nc_get_variable(None)], o) is True
                              and eq(o, byname[o.nc_get_variable(None)]) is True for o in originals]
    # write what was read again, grouped and flat; read both
    for tag, group in (("G2", True), ("F2", False)):
        fn2 = f"{base}_{tag}.nc"
        r = {}
        try:
            if not fs:
                raise ValueError("nothing read")
            cfdm.write(fs, fn2, group=group)
            r["file"] = ga_levels(fn2)
            r["read"], fs2 = ga_read(fn2, "netCDF4")
            by2 = {}
            for x in fs2:
                by2.setdefault(x.identity(), []).append(x)
            r["equals_first"] = [len(by2.get(x.identity(), [])) == 1 and eq(by2[x.identity()][0], x) is True for x in fs]
        except Exception as e:  # noqa
            r["exc"] = type(e).__name__ + ": " + str(e)[:200]
        out[tag] = r
        try:
            os.remove(fn2)
        except OSError:
            pass
    try:
        os.remove(fn)
    except OSError:
        pass
    return out


def run_names(case):
    out = {"i": case["i"]}
    x = cfdm.DimensionCoordinate()
    op = case["op"]
    try:
        if op == "set":
            x.nc_set_variable(case["value"])
            out["ok"] = {"name": x.nc_get_variable(None), "groups": list(x.nc_variable_groups())}
        elif op == "set_groups":
            x.nc_set_variable(case["name"])
            old = x.nc_set_variable_groups(case["groups"])
            out["ok"] = {"name": x.nc_get_variable(None), "groups": list(x.nc_variable_groups()), "old": list(old)}
        elif op == "clear_groups":
            x.nc_set_variable(case["name"])
            old = x.nc_clear_variable_groups()
            out["ok"] = {"name": x.nc_get_variable(None), "groups": list(x.nc_variable_groups()), "old": list(old)}
        elif op == "dim_set_groups":
            a = cfdm.DomainAxis(3)
            a.nc_set_dimension(case["name"])
            old = a.nc_set_dimension_groups(case["groups"])
            out["ok"] = {"name": a.nc_get_dimension(None), "groups": list(a.nc_dimension_groups()), "old": list(old)}
    except Exception as e:  # noqa
        out["err"] = errclass(e)
    return out


def main():
    payload = json.load(sys.stdin)
    mode = payload["mode"]
    scratch = payload.get("scratch", ".")
    for case in payload["cases"]:
        try:
            if mode == "refs":
                case["scratch"] = scratch
                row = run_refs(case)
            elif mode == "coord":
                row = run_coord(case, scratch)
            elif mode == "fields":
                row = run_fields(case, scratch)
            elif mode == "names":
                row = run_names(case)
            elif mode == "fterms":
                row = run_fterms(case, scratch)
            elif mode == "gattrs":
                row = run_gattrs(case, scratch)
            else:
                row = {"i": case["i"], "harness_err": "unknown mode"}
        except Exception as e:  # noqa
            import traceback
            row = {"i": case["i"], "harness_err": type(e).__name__ + ": " + str(e)[:300],
                   "tb": traceback.format_exc()[-800:]}
        sys.stdout.write(json.dumps(row, default=str) + "\n")
        sys.stdout.flush()


if __name__ == "__main__":
    main()
