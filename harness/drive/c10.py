"""Drive the real cfdm code for C10 (runs with PYTHONPATH=<repo under test>).

stdin : {"scratch": dir, "cases": [case, ...]}
stdout: one JSON line per case (a case runs in a forked child; a child that
        dies yields {"id":..., "crash": signal}).

A case:
  {"id": int, "bases": [kind, kind], "read_via": "direct"|"symlink"|"relative",
   "ops": [ {op description}, ... ],
   "write": {"regs":[i,..], "target": "X"|"Y"|"LX"|"Z"|"Xrel", "mode": "w"|"a"|"x",
             "overwrite": bool, "fault": null|name, "as_list": bool}}

Names are interned: X=1 (read into register 0), Y=2 (register 1), LX=3
(symbolic link to X), Z=4 (does not exist), anything else is reported as text.
A twin environment is built from byte copies of X and Y and goes through the
same operations; it is never written to and supplies the expected values.
"""
import gc
import hashlib
import json
import os
import shutil
import sys
import traceback

import numpy as np

import cfdm
from cfdm.mixin.files import Files

OLD = 978307200  # 2001-01-01: mtime given to every base file before the write


# ---------------------------------------------------------------------------
# base fields
# ---------------------------------------------------------------------------
def gathered_field():
    f = cfdm.Field(properties={"standard_name": "air_temperature", "units": "K"})
    t = f.set_construct(cfdm.DomainAxis(2))
    y = f.set_construct(cfdm.DomainAxis(3))
    x = f.set_construct(cfdm.DomainAxis(2))
    lst = cfdm.List(data=cfdm.Data(np.array([1, 4, 5], dtype="int32")))
    arr = cfdm.GatheredArray(
        compressed_array=cfdm.Data(np.arange(6.0).reshape(2, 3)),
        shape=(2, 3, 2), compressed_dimensions={1: (1, 2)}, list_variable=lst)
    f.set_data(cfdm.Data(arr), axes=[t, y, x])
    dc = cfdm.DimensionCoordinate(properties={"standard_name": "time", "units": "days since 2000-01-01"},
                                  data=cfdm.Data(np.array([1.0, 2.0])))
    dc.set_bounds(cfdm.Bounds(data=cfdm.Data(np.array([[0.5, 1.5], [1.5, 2.5]]))))
    f.set_construct(dc, axes=[t])
    return f


def base_field(kind):
    if kind == "ef0":
        return cfdm.example_field(0)
    if kind == "ef1":
        return cfdm.example_field(1)
    if kind == "ef6":
        return cfdm.example_field(6)
    if kind == "dsgc":
        return cfdm.example_field(3).compress("contiguous")
    if kind == "dsgi":
        return cfdm.example_field(3).compress("indexed")
    if kind == "gath":
        return gathered_field()
    raise ValueError(kind)


# ---------------------------------------------------------------------------
# observation: the tree of a construct, its fingerprints
# ---------------------------------------------------------------------------
class Names:
    def __init__(self):
        self.ids = {}

    def add(self, path, i):
        self.ids[os.path.abspath(path)] = i

    def get(self, path):
        return self.ids.get(path, "?" + str(path))


def own_orig(x, names):
    try:
        return sorted((names.get(n) for n in Files._original_filenames(x)), key=str)
    except Exception:
        return []


def leaf_of(a, names):
    """a: an array object (or Data) -> ["mem"] | ["file", [ids]]"""
    if isinstance(a, cfdm.Data):
        a = a.source(None)
    if a is None:
        return ["mem"]
    if hasattr(a, "get_addresses") and hasattr(a, "get_filenames"):
        return ["file", [names.get(n) for n in a.get_filenames()]]
    return ["mem"]


def arr_of(d, names):
    """d: Data -> ["plain", leaf] | ["comp", leaf, [[orig, leaf], ...]]"""
    if d is None:
        return None
    ctype = d.get_compression_type()
    if not ctype:
        return ["plain", leaf_of(d, names)]
    src = d.source(None)
    inner = src.source(None) if hasattr(src, "source") else None
    ancs = []
    if ctype == "gathered":
        vs = [d.get_list(None)]
    elif ctype == "subsampled":
        vs = (list(d.get_tie_point_indices({}).values())
              + list(d.get_interpolation_parameters({}).values())
              + list(d.get_dependent_tie_points({}).values()))
    else:
        vs = [d.get_count(None), d.get_index(None)]
    for v in vs:
        if v is None:
            continue
        vd = v if isinstance(v, cfdm.Data) else v.get_data(None)
        ancs.append([own_orig(v, names) if not isinstance(v, cfdm.Data) else [],
                     leaf_of(vd, names) if vd is not None else ["mem"]])
    return ["comp", leaf_of(inner, names), ancs]


def pvar_of(p, names):
    if p is None:
        return None
    return {"orig": own_orig(p, names), "data": arr_of(p.get_data(None), names)}


def data_constructs(f):
    return dict(sorted(f.constructs.filter_by_data(todict=True).items()))


def tree_of(f, names):
    cons = []
    for k, c in data_constructs(f).items():
        ring = c.get_interior_ring(None) if hasattr(c, "get_interior_ring") else None
        bounds = c.get_bounds(None) if hasattr(c, "get_bounds") else None
        cons.append([k, {"orig": own_orig(c, names), "data": arr_of(c.get_data(None), names),
                         "bounds": pvar_of(bounds, names), "ring": pvar_of(ring, names)}])
    data = f.get_data(None) if hasattr(f, "get_data") else None
    return {"orig": own_orig(f, names), "data": arr_of(data, names), "cons": cons}


def aggs(f, names):
    return (sorted((names.get(n) for n in f.get_original_filenames()), key=str),
            sorted((names.get(n) for n in f.get_filenames()), key=str))


def jv(v):
    if isinstance(v, np.ndarray):
        return [str(v.dtype), v.tolist()]
    if isinstance(v, np.generic):
        return [str(v.dtype), v.item()]
    if isinstance(v, (str, int, float, bool)) or v is None:
        return v
    return repr(v)


def nc_of(x):
    out = {}
    for name in ("nc_get_variable", "nc_get_dimension", "nc_get_sample_dimension",
                 "nc_get_external", "nc_get_node_coordinate_variable"):
        m = getattr(x, name, None)
        if m is not None:
            try:
                out[name] = jv(m(None))
            except Exception:
                pass
    for name in ("nc_global_attributes", "nc_variable_groups", "nc_dimension_groups",
                 "nc_is_unlimited", "nc_group_attributes", "nc_hdf5_chunksizes",
                 "nc_sample_dimension_groups"):
        m = getattr(x, name, None)
        if m is not None:
            try:
                out[name] = jv(m()) if not isinstance(m(), dict) else {k: jv(v) for k, v in m().items()}
            except Exception:
                pass
    return out


def dtype_of(d):
    """dtype without touching a file (core Data.dtype realises the array)"""
    try:
        return str(d.source(None).dtype)
    except Exception:  # noqa
        return "?"


def shape_of(d):
    try:
        return list(d.source(None).shape)
    except Exception:  # noqa
        return "?"


def meta_data(d):
    if d is None:
        return None
    out = {"dtype": dtype_of(d), "shape": shape_of(d), "ctype": d.get_compression_type(),
           "src": type(d.source(None)).__name__, "units": jv(d.get_units(None)),
           "calendar": jv(d.get_calendar(None)), "fill": jv(d.get_fill_value(None)), "nc": nc_of(d)}
    for nm in ("get_count", "get_index", "get_list"):
        try:
            v = getattr(d, nm)(None)
        except Exception:
            v = None
        if v is not None:
            out[nm] = meta_var(v)
    return out


def meta_var(v):
    if v is None:
        return None
    out = {"type": type(v).__name__, "nc": nc_of(v)}
    if hasattr(v, "properties"):
        out["props"] = {k: jv(x) for k, x in sorted(v.properties().items())}
    if hasattr(v, "get_data"):
        out["data"] = meta_data(v.get_data(None))
    for nm in ("get_bounds", "get_interior_ring", "get_node_count", "get_part_node_count"):
        m = getattr(v, nm, None)
        if m is not None:
            try:
                out[nm] = meta_var(m(None))
            except Exception:
                pass
    for nm in ("get_geometry", "get_measure", "get_cell", "get_connectivity"):
        m = getattr(v, nm, None)
        if m is not None:
            try:
                out[nm] = jv(m(None))
            except Exception:
                pass
    return out


def meta_of(f, names):
    """Everything about a construct except the values of its arrays."""
    out = meta_var(f)
    out["tree"] = tree_of(f, names)
    out["aggs"] = aggs(f, names)
    if hasattr(f, "get_data_axes"):
        out["data_axes"] = list(f.get_data_axes(default=()))
    others = {}
    for k, c in sorted(f.constructs.items()):
        ent = {"axes": list(f.constructs.data_axes().get(k, ()))}
        if k in f.constructs.filter_by_data(todict=True):
            ent.update(meta_var(c))
        elif hasattr(c, "get_size"):
            ent.update({"size": c.get_size(None), "nc": nc_of(c)})
        else:
            try:
                ent["text"] = c.dump(display=False)
            except Exception:
                ent["text"] = repr(c)
            ent["nc"] = nc_of(c)
        others[k] = ent
    out["constructs"] = others
    return out


def arr_values(d):
    if d is None:
        return None
    a = d.array
    m = np.ma.getmaskarray(a)
    b = np.ma.filled(a, 0) if a.dtype.kind not in "SUO" else np.ma.filled(a, "")
    h = hashlib.sha256()
    h.update(str(a.dtype).encode())
    h.update(str(a.shape).encode())
    h.update(np.ascontiguousarray(m).tobytes())
    if b.dtype.kind in "SUO":
        h.update(repr(b.tolist()).encode())
    else:
        h.update(np.ascontiguousarray(b).tobytes())
    return h.hexdigest()[:16]


def values_of(f):
    """Realise every array reachable from the construct; per-array digests."""
    out = {}

    def put(tag, getter):
        try:
            out[tag] = arr_values(getter())
        except BaseException as e:  # noqa
            out[tag] = "ERR:" + type(e).__name__

    if hasattr(f, "get_data"):
        put("data", lambda: f.get_data(None))
    for k, c in data_constructs(f).items():
        put(k, lambda c=c: c.get_data(None))
        b = c.get_bounds(None) if hasattr(c, "get_bounds") else None
        if b is not None:
            put(k + ".bounds", lambda b=b: b.get_data(None))
        r = c.get_interior_ring(None) if hasattr(c, "get_interior_ring") else None
        if r is not None:
            put(k + ".ring", lambda r=r: r.get_data(None))
    return out


def needed_names(tree):
    out = set()

    def leaf(lf):
        if lf and lf[0] == "file":
            out.update(lf[1])

    def arr(a):
        if a is None:
            return
        leaf(a[1])
        if a[0] == "comp":
            for _o, lf in a[2]:
                leaf(lf)

    arr(tree["data"])
    for _k, c in tree["cons"]:
        arr(c["data"])
        for p in (c["bounds"], c["ring"]):
            if p is not None:
                arr(p["data"])
    return sorted(out, key=str)


# ---------------------------------------------------------------------------
# the derivation operations
# ---------------------------------------------------------------------------
class Skip(Exception):
    pass


def pick_key(f, j, want=None):
    cons = data_constructs(f)
    keys = [k for k, c in cons.items()
            if want is None
            or (want == "data" and c.has_data())
            or (want == "bounds" and hasattr(c, "has_bounds") and c.has_bounds())
            or (want == "ring" and hasattr(c, "get_interior_ring") and c.get_interior_ring(None) is not None)]
    if not keys:
        raise Skip("no construct")
    return keys[j % len(keys)]


def select_data(f, sel, j):
    """-> (model selector, Data)"""
    if sel == "field":
        if not hasattr(f, "get_data") or f.get_data(None) is None:
            raise Skip("no data")
        return ["field"], f.get_data(None)
    if sel == "cons":
        k = pick_key(f, j, "data")
        return ["cons", k], f.constructs[k].get_data()
    if sel == "bounds":
        k = pick_key(f, j, "bounds")
        d = f.constructs[k].get_bounds().get_data(None)
        if d is None:
            raise Skip("bounds without data")
        return ["bounds", k], d
    if sel == "ring":
        k = pick_key(f, j, "ring")
        d = f.constructs[k].get_interior_ring().get_data(None)
        if d is None:
            raise Skip("ring without data")
        return ["ring", k], d
    raise Skip(sel)


def wrap_data(d, how):
    if how == "wrapped":
        return cfdm.Data(d)
    if how == "source":
        return cfdm.Data(d.source())
    if how == "copy":
        return d.copy()
    return d


def new_axes(f, shape):
    return [f.set_construct(cfdm.DomainAxis(int(n))) for n in shape]


def is_field(x):
    return isinstance(x, cfdm.Field)


def apply_op(regs, o):
    """Apply one operation to the registers (in place); return
    (model op as JSON, index of the register written)."""
    kind = o["op"]
    if kind == "copy":
        f = regs[o["i"] % len(regs)]
        i = o["i"] % len(regs)
        v = o["variant"]
        if v == "copy":
            g = f.copy()
        elif v == "squeeze":
            g = f.squeeze() if is_field(f) else f.copy()
        elif v == "transpose":
            g = f.transpose() if is_field(f) else f.copy()
        elif v == "insert_dimension":
            if not is_field(f):
                raise Skip("domain")
            ax = [k for k in f.domain_axes(todict=True) if k not in f.get_data_axes(default=())]
            if not ax:
                raise Skip("no free axis")
            g = f.insert_dimension(ax[0])
        elif v == "subspace_all":
            if not is_field(f) or not f.has_data():
                raise Skip("no data")
            g = f[...]
        elif v == "subspace_part":
            if not is_field(f) or not f.has_data() or f.ndim < 1:
                raise Skip("no data")
            g = f[0:1]
        elif v == "apply_masking":
            g = f.apply_masking()
        elif v == "uncompress":
            g = f.uncompress()
        elif v == "deepcopy":
            import copy as _copy
            g = _copy.deepcopy(f)
        else:
            raise Skip(v)
        regs.append(g)
        return ["copy", i], len(regs) - 1
    if kind == "get_domain":
        i = o["i"] % len(regs)
        f = regs[i]
        if not is_field(f):
            raise Skip("domain")
        # the domain returned shares its constructs with the field (a view);
        # unless nothing follows, continue with an independent copy
        dom = f.get_domain() if o.get("variant") != "attr" else f.domain
        regs.append(dom if o.get("last") else dom.copy())
        return ["get_domain", i, list(data_constructs(regs[-1]))], len(regs) - 1
    if kind == "field_source":
        i = o["i"] % len(regs)
        regs.append(cfdm.Field(source=regs[i], copy=o.get("copy", True)) if o.get("copy", True)
                    else cfdm.Field(source=regs[i].copy(), copy=False))
        return ["field_source", i], len(regs) - 1
    if kind == "convert":
        i = o["i"] % len(regs)
        f = regs[i]
        if not is_field(f):
            raise Skip("domain")
        k = pick_key(f, o["j"], "data")
        g = f.convert(k, full_domain=bool(o.get("full", True)))
        regs.append(g)
        return ["convert", i, k, list(data_constructs(g))], len(regs) - 1
    if kind == "new_field":
        regs.append(cfdm.Field(properties={"long_name": "fresh"}))
        return ["new_field"], len(regs) - 1
    if kind == "set_data":
        dst, src = o["dst"] % len(regs), o["src"] % len(regs)
        f = regs[dst]
        if not is_field(f):
            raise Skip("domain")
        msel, d = select_data(regs[src], o["sel"], o.get("j", 0))
        d = wrap_data(d, o.get("how", "direct"))
        if f.has_data() and tuple(f.data.shape) == tuple(d.shape):
            f.set_data(d, axes=f.get_data_axes())
        else:
            if f.has_data():
                f.del_data()
                f.del_data_axes(default=None)
            f.set_data(d, axes=new_axes(f, d.shape))
        return ["set_data", dst, src, msel], dst
    if kind == "del_data":
        i = o["i"] % len(regs)
        f = regs[i]
        if not is_field(f) or not f.has_data():
            raise Skip("no data")
        f.del_data()
        return ["del_data", i], i
    if kind == "del_construct":
        i = o["i"] % len(regs)
        f = regs[i]
        k = pick_key(f, o["j"])
        try:
            f.del_construct(k)
        except ValueError:
            raise Skip("construct in use")
        return ["del_cons", i, k], i
    if kind == "set_construct":
        dst, src = o["dst"] % len(regs), o["src"] % len(regs)
        f, g = regs[dst], regs[src]
        k = pick_key(g, o["j"])
        c = g.constructs[k]
        shape = c.shape if c.has_data() else (c.get_bounds().shape[:-1] if hasattr(c, "has_bounds") and c.has_bounds() else None)
        if shape is None:
            raise Skip("shapeless")
        nk = f.set_construct(c, axes=new_axes(f, shape))
        return ["set_cons", dst, nk, src, k], dst
    if kind == "del_bounds":
        i = o["i"] % len(regs)
        f = regs[i]
        k = pick_key(f, o["j"], "bounds")
        f.constructs[k].del_bounds()
        return ["del_bounds", i, k], i
    if kind == "set_bounds":
        dst, src = o["dst"] % len(regs), o["src"] % len(regs)
        f, g = regs[dst], regs[src]
        k2 = pick_key(g, o["j2"], "bounds")
        b = g.constructs[k2].get_bounds()
        cands = [k for k, c in data_constructs(f).items()
                 if hasattr(c, "set_bounds") and c.has_data() and b.has_data() and c.shape == b.shape[:-1]]
        if not cands:
            raise Skip("no matching construct")
        k = cands[o["j"] % len(cands)]
        f.constructs[k].set_bounds(b)
        return ["set_bounds", dst, k, src, k2], dst
    if kind == "set_bounds_data":
        dst, src = o["dst"] % len(regs), o["src"] % len(regs)
        f = regs[dst]
        k = pick_key(f, o["j"], "bounds")
        parent = f.constructs[k]
        want = tuple(parent.shape) if parent.has_data() else None
        g = regs[src]
        cands = []
        for sel in ("field", "cons", "bounds", "ring"):
            for j2 in range(8):
                try:
                    ms, dd = select_data(g, sel, j2)
                except Skip:
                    break
                if want is not None and tuple(dd.shape[:-1]) == want and dd.ndim == len(want) + 1 and (ms, dd.shape) not in [(m, x.shape) for m, x in cands]:
                    cands.append((ms, dd))
                if sel == "field":
                    break
        if cands:
            msel, d = cands[o.get("j2", 0) % len(cands)]
        else:
            msel, d = select_data(g, o["sel"], o.get("j2", 0))
        d = wrap_data(d, o.get("how", "direct"))
        parent.get_bounds().set_data(d)
        return ["set_bounds_data", dst, k, src, msel], dst
    if kind == "touch":
        i = o["i"] % len(regs)
        f = regs[i]
        v = o["variant"]
        if v == "to_memory":
            if not is_field(f) or not f.has_data():
                raise Skip("no data")
            f.data.to_memory()
        elif v == "cons_to_memory":
            k = pick_key(f, o.get("j", 0), "data")
            f.constructs[k].data.to_memory()
        elif v == "assign":
            if not is_field(f) or not f.has_data() or f.data.get_compression_type():
                raise Skip("no data")
            f.data[...] = f.data.array
        elif v == "inner_to_memory":
            # bring the compressed data of a compressed array into memory,
            # keeping its count / index / list variable as it is
            if not is_field(f) or not f.has_data():
                raise Skip("no data")
            d = f.data
            ctype = d.get_compression_type()
            src = d.source(None)
            if ctype not in ("ragged contiguous", "ragged indexed", "gathered") or src is None:
                raise Skip("not compressed")
            inner = cfdm.Data(np.asanyarray(src.source()[...]))
            if ctype == "ragged contiguous":
                arr = cfdm.RaggedContiguousArray(compressed_array=inner, shape=d.shape, count_variable=d.get_count())
            elif ctype == "ragged indexed":
                arr = cfdm.RaggedIndexedArray(compressed_array=inner, shape=d.shape, index_variable=d.get_index())
            else:
                arr = cfdm.GatheredArray(compressed_array=inner, shape=d.shape,
                                         compressed_dimensions=src.compressed_dimensions(),
                                         list_variable=d.get_list())
            d2 = cfdm.Data(arr, units=d.get_units(None), calendar=d.get_calendar(None), fill_value=d.get_fill_value(None))
            f.set_data(d2, axes=f.get_data_axes())
        elif v == "array":
            if not is_field(f) or not f.has_data():
                raise Skip("no data")
            f.data.array
        elif v == "text":
            str(f)
            f.dump(display=False)
        elif v == "equals":
            f.equals(f.copy())
        else:
            raise Skip(v)
        return ["touch", i], i
    raise Skip(kind)


# ---------------------------------------------------------------------------
# the write
# ---------------------------------------------------------------------------
FAULT_KW = {
    "hdf5_chunks": ("early1", {"hdf5_chunks": "bad value"}),
    "fmt": ("early2", {"fmt": "NETCDF5"}),
    "var_attrs": ("early2", {"variable_attributes": ["Conventions"]}),
    "file_desc": ("early2", {"file_descriptors": {"Conventions": "x"}}),
    "endian": ("late", {"endian": "bad"}),
    "compress99": ("late", {"compress": 99}),
    "lsd": ("late", {"least_significant_digit": "x"}),
    "datatype": ("late", {"datatype": {np.dtype("float64"): np.dtype("complex128"),
                                       np.dtype("float32"): np.dtype("complex128"),
                                       np.dtype("int32"): np.dtype("complex128"),
                                       np.dtype("int64"): np.dtype("complex128")}}),
}
HARMLESS_KW = [
    {}, {"fmt": "NETCDF4_CLASSIC"}, {"fmt": "NETCDF3_CLASSIC"}, {"compress": 1}, {"string": False},
    {"group": False}, {"warn_valid": False}, {"Conventions": "test-1.0"}, {"coordinates": True},
    {"global_attributes": ["long_name"]}, {"omit_data": "all"},
    {"datatype": {np.dtype("float64"): np.dtype("float32")}}, {"fletcher32": True, "compress": 2},
    {"shuffle": False, "compress": 3}, {"hdf5_chunks": "contiguous"}, {"endian": "big"},
    {"verbose": 0},
]


def errclass(e):
    if isinstance(e, ValueError):
        return "ValueErr"
    if isinstance(e, TypeError):
        return "TypeErr"
    if isinstance(e, KeyError):
        return "KeyErr"
    if isinstance(e, IndexError):
        return "IndexErr"
    return "OtherErr"


def stat_of(path):
    try:
        st = os.stat(path)
    except OSError:
        return None
    with open(path, "rb") as fh:
        sha = hashlib.sha256(fh.read()).hexdigest()[:16]
    return [st.st_size, st.st_mtime_ns, sha]


def raw_vars(path):
    """Independent view of a netCDF file: every variable's values/attributes digest."""
    import netCDF4
    out = {}
    try:
        nc = netCDF4.Dataset(path, "r")
    except Exception as e:  # noqa
        return {"ERR": type(e).__name__}
    try:
        nc.set_auto_maskandscale(False)

        def walk(g, prefix):
            for n, v in g.variables.items():
                h = hashlib.sha256()
                try:
                    a = v[...]
                    h.update(repr(np.asarray(a).tolist()).encode())
                except Exception as e:  # noqa
                    h.update(("ERR" + type(e).__name__).encode())
                h.update(repr(sorted((k, repr(v.getncattr(k))) for k in v.ncattrs())).encode())
                h.update(repr(v.dimensions).encode())
                out[prefix + n] = h.hexdigest()[:12]
            for n, sub in g.groups.items():
                walk(sub, prefix + n + "/")

        walk(nc, "/")
    finally:
        nc.close()
    return out


def do_write(constructs, target, w, extra):
    try:
        return do_write1(constructs, target, w, extra)
    finally:
        # a write that raised leaves its netCDF4.Dataset to the garbage
        # collector; collect now so that the file is closed before it is
        # looked at again
        gc.collect()


def do_write1(constructs, target, w, extra):
    kw = dict(extra)
    if w["mode"] != "w":
        kw["mode"] = w["mode"]
    if not w.get("overwrite", True):
        kw["overwrite"] = False
    try:
        cfdm.write(constructs, target, **kw)
        return None
    except BaseException as e:  # noqa
        if isinstance(e, (KeyboardInterrupt, SystemExit)):
            raise
        return [errclass(e), type(e).__name__, str(e)[:160]]


def run_case(case, root):
    d = os.path.join(root, f"c{case['id']}")
    os.makedirs(d)
    cwd = os.getcwd()
    os.chdir(d)
    out = {"id": case["id"]}
    try:
        names, tnames = Names(), Names()
        paths = {"X": os.path.join(d, "x.nc"), "Y": os.path.join(d, "y.nc"),
                 "LX": os.path.join(d, "lx.nc"), "Z": os.path.join(d, "z.nc")}
        twin = {"X": os.path.join(d, "tx.nc"), "Y": os.path.join(d, "ty.nc"), "LX": os.path.join(d, "tlx.nc")}
        for i, nm in enumerate(("X", "Y", "LX", "Z"), 1):
            names.add(paths[nm], i)
        for i, nm in enumerate(("X", "Y", "LX"), 1):
            tnames.add(twin[nm], i)
        for nm, kind in zip(("X", "Y"), case["bases"]):
            cfdm.write(base_field(kind), paths[nm])
            shutil.copyfile(paths[nm], twin[nm])
        os.symlink(paths["X"], paths["LX"])
        os.symlink(twin["X"], twin["LX"])
        for p in list(paths.values()) + list(twin.values()):
            if os.path.exists(p) and not os.path.islink(p):
                os.utime(p, (OLD, OLD))

        def read_env(pp):
            via = case.get("read_via", "direct")
            px = pp["LX"] if via == "symlink" else (os.path.relpath(pp["X"]) if via == "relative" else pp["X"])
            return [cfdm.read(px)[0], cfdm.read(pp["Y"])[0]]

        regs, tregs = read_env(paths), read_env(twin)
        out["read_via"] = case.get("read_via", "direct")
        out["init"] = [{"tree": tree_of(f, names), "aggs": aggs(f, names)} for f in regs]
        steps = []
        for o in case["ops"]:
            n0 = len(regs)
            try:
                mop, reg = apply_op(regs, o)
            except Skip as s:
                steps.append({"skipped": str(s), "o": o})
                continue
            except Exception as e:  # noqa
                # an operation that raises changes nothing we rely on; drop any
                # register it appended and record it
                del regs[n0:]
                steps.append({"skipped": "raised " + type(e).__name__ + ": " + str(e)[:120], "o": o})
                continue
            try:
                apply_op(tregs, o)
            except Exception as e:  # noqa
                steps.append({"twin_diverged": type(e).__name__ + str(e)[:100], "o": o})
                out["twin_broken"] = True
            f = regs[reg]
            og, fg = aggs(f, names)
            steps.append({"op": mop, "reg": reg, "tree": tree_of(f, names), "orig": og, "files": fg, "o": o})
        out["steps"] = steps
        out["nregs"] = len(regs)

        # ---- the write ---------------------------------------------------
        w = case["write"]
        sel = [i % len(regs) for i in w["regs"]]
        constructs = [regs[i] for i in sel]
        arg = constructs if (w.get("as_list") or len(constructs) > 1) else constructs[0]
        target_key = w["target"]
        target = {"X": paths["X"], "Y": paths["Y"], "LX": paths["LX"], "Z": paths["Z"],
                  "Xrel": os.path.join("..", os.path.basename(d), ".", "x.nc")}[target_key]
        extra = dict(HARMLESS_KW[w.get("harmless", 0) % len(HARMLESS_KW)])
        injected = None
        if w.get("fault"):
            injected, kw = FAULT_KW[w["fault"]]
            extra.update(kw)
        meta_before = [meta_of(f, names) for f in regs]
        # control: the same constructs and options written to a fresh place,
        # to learn whether this write fails on its own account
        ctl_target = os.path.join(d, "control.nc")
        wctl = dict(w, overwrite=True)
        if w["mode"] in ("a", "r+"):
            tk = "X" if target_key in ("X", "LX", "Xrel") else target_key
            if tk in twin and os.path.exists(twin[tk]):
                shutil.copyfile(twin[tk], ctl_target)
        ctl_before = stat_of(ctl_target)
        try:
            ctl_arg = [c.copy() for c in constructs] if isinstance(arg, list) else constructs[0].copy()
        except Exception:  # noqa  (an inconsistent construct can not be copied: the writer will meet the same)
            ctl_arg = arg
        ctl_err = do_write(ctl_arg, ctl_target, wctl, extra)
        ctl_after = stat_of(ctl_target)
        if ctl_err is None:
            fault = ["none"]
        elif ctl_after == ctl_before:
            fault = ["early1" if injected == "early1" or w["mode"] not in ("w", "a", "r+") else "early2", ctl_err[0]]
        else:
            fault = ["late"]
        out["fault"] = fault
        out["control_error"] = ctl_err
        try:
            os.remove(ctl_target)
        except OSError:
            pass

        tracked = {nm: paths[nm] for nm in ("X", "Y", "LX", "Z")}
        before = {nm: stat_of(p) for nm, p in tracked.items()}
        raw_before = {nm: raw_vars(paths[nm]) for nm in ("X", "Y")} if w["mode"] in ("a", "r+") else None
        links_before = {nm: os.path.islink(p) for nm, p in tracked.items()}
        err = do_write(arg, target, w, extra)
        after = {nm: stat_of(p) for nm, p in tracked.items()}
        out["error"] = err
        out["before"], out["after"] = before, after
        out["links_after"] = {nm: os.path.islink(p) for nm, p in tracked.items()}
        out["links_before"] = links_before
        out["sel"] = sel
        out["needed"] = [needed_names(meta_before[i]["tree"]) for i in sel]
        out["written_aggs"] = [meta_before[i]["aggs"] for i in sel]
        meta_after = [meta_of(f, names) for f in regs]
        changed = []
        for i, (a, b) in enumerate(zip(meta_before, meta_after)):
            if a != b:
                keys = [k for k in a if a.get(k) != b.get(k)]
                sub = []
                if "constructs" in keys:
                    sub = [k for k in a["constructs"] if a["constructs"].get(k) != b["constructs"].get(k)]
                changed.append({"reg": i, "parts": keys, "constructs": sub,
                                "before": json.dumps(a, sort_keys=True, default=str)[:300],
                                "after": json.dumps(b, sort_keys=True, default=str)[:300]})
        out["inputs_changed"] = changed
        if raw_before is not None:
            lost = {}
            for nm in ("X", "Y"):
                ra = raw_vars(paths[nm])
                bad = [k for k, v in raw_before[nm].items() if ra.get(k) != v]
                if bad:
                    lost[nm] = bad
            out["append_lost"] = lost
        # values still readable and equal to the twin's
        if not out.get("twin_broken"):
            bad = []
            for i in sorted(set(sel)):
                f, t = regs[i], tregs[i]
                vf, vt = values_of(f), values_of(t)
                if vf != vt:
                    bad.append({"reg": i, "diff": sorted(k for k in set(vf) | set(vt) if vf.get(k) != vt.get(k)),
                                "got": {k: vf.get(k) for k in list(vf)[:6]}})
            out["values_bad"] = bad
    except BaseException as e:  # noqa
        if isinstance(e, (KeyboardInterrupt, SystemExit)):
            raise
        out["driver_error"] = type(e).__name__ + ": " + str(e)[:300] + " | " + traceback.format_exc()[-600:]
    finally:
        os.chdir(cwd)
        shutil.rmtree(d, ignore_errors=True)
    return out


def main():
    payload = json.load(sys.stdin)
    root = payload["scratch"]
    os.makedirs(root, exist_ok=True)
    cfdm.log_level("DISABLE")
    for case in payload["cases"]:
        rfd, wfd = os.pipe()
        pid = os.fork()
        if pid == 0:
            os.close(rfd)
            try:
                res = run_case(case, root)
                data = json.dumps(res, default=str).encode()
            except BaseException as e:  # noqa
                data = json.dumps({"id": case["id"], "driver_error": repr(e)}).encode()
            with os.fdopen(wfd, "wb") as fh:
                fh.write(data)
            os._exit(0)
        os.close(wfd)
        chunks = []
        with os.fdopen(rfd, "rb") as fh:
            while True:
                b = fh.read(65536)
                if not b:
                    break
                chunks.append(b)
        _, status = os.waitpid(pid, 0)
        data = b"".join(chunks)
        if os.WIFSIGNALED(status) or not data:
            print(json.dumps({"id": case["id"], "crash": os.WTERMSIG(status) if os.WIFSIGNALED(status) else -1}))
            shutil.rmtree(os.path.join(root, f"c{case['id']}"), ignore_errors=True)
        else:
            print(data.decode())
        sys.stdout.flush()


if __name__ == "__main__":
    main()
