"""Drive the real cfdm code for C10 (runs with PYTHONPATH=<repo under test>).

stdin : {"scratch": dir, "cases": [case, ...]}
stdout: one JSON line per case (a case runs in a forked child; a child that
        dies yields {"id":..., "crash": signal}).

A case:
  {"id": int, "bases": [kind, kind],
   "read_via": spelling of X, "read_via_y": spelling of Y  (see spell_of: direct, filelink, relative,
        alias = through a link to the parent directory, dotdot, dslash, scratch = through a link to
        the scratch directory, alias_scratch, deep = '..' after a link to a deeper directory),
   "ops": [ {op description}, ... ],
   "write": {"regs":[i,..], "target": "X"|"Y"|"Z"|"E"|"V"|"DV", "tvia": spelling, "mode": "w"|"a"|"r+"|"x",
             "overwrite": bool, "fault": null|name, "as_list": bool,
             "external": null | {"key": "E"|"EN"|"X"|"Y"|"Z", "via": spelling}}}

Layout of a case directory c<ID> (make_layout): data/x.nc (X), data/y.nc (Y), data/e.nc (E, exists),
data/z.nc data/en.nc data/v.nc (absent), v.nc (V, exists), lx.nc -> data/x.nc, alias -> data,
alias2 -> data/sub, and beside it s<ID> -> c<ID>.  File names are interned per case (Names): the
model receives every absolute name with its path components, and the links as canonical paths.
A twin layout (c<ID>/twin, t<ID>) holds byte copies of X and Y; the twin environment goes through
the same operations, is never written to and supplies the expected values.
"""
import gc
import hashlib
import json
import os
import shutil
import sys
import traceback

import numpy as np

import cfdm
from cfdm.mixin.files import Files

OLD = 978307200  # 2001-01-01: mtime given to every base file before the write


# ---------------------------------------------------------------------------
# base fields
# ---------------------------------------------------------------------------
def gathered_field(variant=0):
    """A field compressed by gathering.  variant 0: list [1, 4, 5], the list variable has no
    netCDF variable name; variant 1: another list variable, named 'landpoint'."""
    f = cfdm.Field(properties={"standard_name": "air_temperature" if not variant else "surface_temperature",
                               "units": "K"})
    t = f.set_construct(cfdm.DomainAxis(2))
    y = f.set_construct(cfdm.DomainAxis(3))
    x = f.set_construct(cfdm.DomainAxis(2))
    lst = cfdm.List(data=cfdm.Data(np.array([1, 4, 5] if not variant else [0, 2, 3], dtype="int32")))
    if variant:
        lst.nc_set_variable("landpoint")
    arr = cfdm.GatheredArray(
        compressed_array=cfdm.Data(np.arange(6.0).reshape(2, 3) + 10.0 * variant),
        shape=(2, 3, 2), compressed_dimensions={1: (1, 2)}, list_variable=lst)
    f.set_data(cfdm.Data(arr), axes=[t, y, x])
    dc = cfdm.DimensionCoordinate(properties={"standard_name": "time", "units": "days since 2000-01-01"},
                                  data=cfdm.Data(np.array([1.0, 2.0])))
    dc.set_bounds(cfdm.Bounds(data=cfdm.Data(np.array([[0.5, 1.5], [1.5, 2.5]]))))
    f.set_construct(dc, axes=[t])
    return f


def base_field(kind):
    if kind == "ef0":
        return cfdm.example_field(0)
    if kind == "ef1":
        return cfdm.example_field(1)
    if kind == "ef6":
        return cfdm.example_field(6)
    if kind == "dsgc":
        return cfdm.example_field(3).compress("contiguous")
    if kind == "dsgi":
        return cfdm.example_field(3).compress("indexed")
    if kind == "gath":
        return gathered_field()
    if kind == "gath2":
        return gathered_field(1)
    raise ValueError(kind)


# ---------------------------------------------------------------------------
# observation: the tree of a construct, its fingerprints
# ---------------------------------------------------------------------------
class Names:
    """Interns absolute (lexically normalised) file names as small integers
    and path components as positive integers; the model receives, for every
    name, its list of components (Fs.spell)."""

    def __init__(self):
        self.ids = {}
        self.comps = {}

    def comp(self, c):
        return self.comps.setdefault(c, len(self.comps) + 1)

    def path(self, p):
        """component ids of an absolute path that is already normalised"""
        return [self.comp(c) for c in p.split("/") if c]

    def add(self, path, i):
        self.ids[os.path.abspath(path)] = i

    def get(self, path):
        if not isinstance(path, str) or not path.startswith("/"):
            return "?" + str(path)
        if path not in self.ids:
            self.ids[path] = max([i for i in self.ids.values() if isinstance(i, int)] + [20]) + 1
        return self.ids[path]

    def spell(self):
        return sorted([i, self.path(p)] for p, i in self.ids.items())


def own_orig(x, names):
    try:
        return sorted((names.get(n) for n in Files._original_filenames(x)), key=str)
    except Exception:
        return []


def leaf_of(a, names):
    """a: an array object (or Data) -> ["mem"] | ["file", [ids]]"""
    if isinstance(a, cfdm.Data):
        a = a.source(None)
    if a is None:
        return ["mem"]
    if hasattr(a, "get_addresses") and hasattr(a, "get_filenames"):
        return ["file", [names.get(n) for n in a.get_filenames()]]
    return ["mem"]


def arr_of(d, names):
    """d: Data -> ["plain", leaf] | ["comp", leaf, [[orig, leaf], ...]]"""
    if d is None:
        return None
    ctype = d.get_compression_type()
    if not ctype:
        return ["plain", leaf_of(d, names)]
    src = d.source(None)
    inner = src.source(None) if hasattr(src, "source") else None
    ancs = []
    if ctype == "gathered":
        vs = [d.get_list(None)]
    elif ctype == "subsampled":
        vs = (list(d.get_tie_point_indices({}).values())
              + list(d.get_interpolation_parameters({}).values())
              + list(d.get_dependent_tie_points({}).values()))
    else:
        vs = [d.get_count(None), d.get_index(None)]
    for v in vs:
        if v is None:
            continue
        vd = v if isinstance(v, cfdm.Data) else v.get_data(None)
        ancs.append([own_orig(v, names) if not isinstance(v, cfdm.Data) else [],
                     leaf_of(vd, names) if vd is not None else ["mem"]])
    return ["comp", leaf_of(inner, names), ancs]


def pvar_of(p, names):
    if p is None:
        return None
    return {"orig": own_orig(p, names), "data": arr_of(p.get_data(None), names)}


def data_constructs(f):
    return dict(sorted(f.constructs.filter_by_data(todict=True).items()))


def tree_of(f, names):
    cons = []
    for k, c in data_constructs(f).items():
        ring = c.get_interior_ring(None) if hasattr(c, "get_interior_ring") else None
        bounds = c.get_bounds(None) if hasattr(c, "get_bounds") else None
        cons.append([k, {"orig": own_orig(c, names), "data": arr_of(c.get_data(None), names),
                         "bounds": pvar_of(bounds, names), "ring": pvar_of(ring, names)}])
    data = f.get_data(None) if hasattr(f, "get_data") else None
    return {"orig": own_orig(f, names), "data": arr_of(data, names), "cons": cons}


def aggs(f, names):
    return (sorted((names.get(n) for n in f.get_original_filenames()), key=str),
            sorted((names.get(n) for n in f.get_filenames()), key=str))


def jv(v):
    if isinstance(v, np.ndarray):
        return [str(v.dtype), v.tolist()]
    if isinstance(v, np.generic):
        return [str(v.dtype), v.item()]
    if isinstance(v, (str, int, float, bool)) or v is None:
        return v
    return repr(v)


def nc_of(x):
    """Every netCDF name the object carries: all nc_get_*(default) getters it has (variable,
    dimension, sample dimension, external, node coordinate variable, geometry / mesh container
    variable, ...), every *_groups() and the other argument-less nc_* views."""
    out = {}
    for name in sorted(n for n in dir(x) if n.startswith("nc_get_")):
        m = getattr(x, name, None)
        if callable(m):
            try:
                out[name] = jv(m(None))
            except TypeError:
                try:
                    out[name] = jv(m())
                except Exception:
                    pass
            except Exception:
                pass
    views = {"nc_global_attributes", "nc_is_unlimited", "nc_group_attributes", "nc_hdf5_chunksizes",
             "nc_variable_node_coordinate_groups"}
    views.update(n for n in dir(x) if n.startswith("nc_") and n.endswith("_groups")
                 and not n.startswith(("nc_set", "nc_clear")))
    for name in sorted(views):
        m = getattr(x, name, None)
        if callable(m):
            try:
                v = m()
                out[name] = jv(v) if not isinstance(v, dict) else {k: jv(w) for k, w in v.items()}
            except Exception:
                pass
    return out


def dtype_of(d):
    """dtype without touching a file (core Data.dtype realises the array)"""
    try:
        return str(d.source(None).dtype)
    except Exception:  # noqa
        return "?"


def shape_of(d):
    try:
        return list(d.source(None).shape)
    except Exception:  # noqa
        return "?"


def meta_data(d):
    if d is None:
        return None
    out = {"dtype": dtype_of(d), "shape": shape_of(d), "ctype": d.get_compression_type(),
           "src": type(d.source(None)).__name__, "units": jv(d.get_units(None)),
           "calendar": jv(d.get_calendar(None)), "fill": jv(d.get_fill_value(None)), "nc": nc_of(d)}
    for nm in ("get_count", "get_index", "get_list"):
        try:
            v = getattr(d, nm)(None)
        except Exception:
            v = None
        if v is not None:
            out[nm] = meta_var(v)
    for nm in ("get_tie_point_indices", "get_interpolation_parameters", "get_dependent_tie_points"):
        try:
            vs = getattr(d, nm)({})
        except Exception:
            vs = {}
        if vs:
            out[nm] = {str(k): (meta_var(v) if not isinstance(v, cfdm.Data) else meta_data(v)) for k, v in sorted(vs.items())}
    src = d.source(None)
    if src is not None and src is not d:
        out["src_nc"] = nc_of(src)
    return out


def meta_var(v):
    if v is None:
        return None
    out = {"type": type(v).__name__, "nc": nc_of(v)}
    if hasattr(v, "properties"):
        out["props"] = {k: jv(x) for k, x in sorted(v.properties().items())}
    if hasattr(v, "get_data"):
        out["data"] = meta_data(v.get_data(None))
    for nm in ("get_bounds", "get_interior_ring", "get_node_count", "get_part_node_count"):
        m = getattr(v, nm, None)
        if m is not None:
            try:
                out[nm] = meta_var(m(None))
            except Exception:
                pass
    for nm in ("get_geometry", "get_measure", "get_cell", "get_connectivity"):
        m = getattr(v, nm, None)
        if m is not None:
            try:
                out[nm] = jv(m(None))
            except Exception:
                pass
    return out


def detail_of(c):
    """Components of a construct without data: coordinate reference
    (conversion / datum parameters, domain ancillaries, coordinates, netCDF
    names), cell method (axes, method, qualifiers)."""
    out = {}
    for part in ("coordinate_conversion", "datum"):
        p = getattr(c, part, None)
        if p is None:
            continue
        ent = {}
        try:
            ent["parameters"] = {k: (meta_data(v) if isinstance(v, cfdm.Data) else jv(v))
                                 for k, v in sorted(p.parameters().items())}
        except Exception as e:  # noqa
            ent["parameters"] = "ERR" + type(e).__name__
        if hasattr(p, "domain_ancillaries"):
            ent["domain_ancillaries"] = {k: jv(v) for k, v in sorted(p.domain_ancillaries().items())}
        ent["nc"] = nc_of(p)
        out[part] = ent
    for nm in ("coordinates", "get_axes", "get_method", "qualifiers"):
        m = getattr(c, nm, None)
        if m is not None:
            try:
                v = m() if nm != "get_axes" and nm != "get_method" else m(None)
                out[nm] = sorted(map(str, v)) if isinstance(v, (set, frozenset)) else (
                    {k: jv(x) if not isinstance(x, cfdm.Data) else repr(x.array.tolist()) for k, x in sorted(v.items())}
                    if isinstance(v, dict) else jv(v))
            except Exception:
                pass
    return out


def meta_of(f, names):
    """Everything about a construct except the values of its arrays."""
    out = meta_var(f)
    out["tree"] = tree_of(f, names)
    out["aggs"] = aggs(f, names)
    if hasattr(f, "get_data_axes"):
        out["data_axes"] = list(f.get_data_axes(default=()))
    others = {}
    for k, c in sorted(f.constructs.items()):
        ent = {"axes": list(f.constructs.data_axes().get(k, ()))}
        if k in f.constructs.filter_by_data(todict=True):
            ent.update(meta_var(c))
        elif hasattr(c, "get_size"):
            ent.update({"size": c.get_size(None), "nc": nc_of(c)})
        else:
            try:
                ent["text"] = c.dump(display=False)
            except Exception:
                ent["text"] = repr(c)
            ent["nc"] = nc_of(c)
            ent["detail"] = detail_of(c)
        others[k] = ent
    out["constructs"] = others
    return out


def arr_values(d):
    if d is None:
        return None
    a = d.array
    m = np.ma.getmaskarray(a)
    b = np.ma.filled(a, 0) if a.dtype.kind not in "SUO" else np.ma.filled(a, "")
    h = hashlib.sha256()
    h.update(str(a.dtype).encode())
    h.update(str(a.shape).encode())
    h.update(np.ascontiguousarray(m).tobytes())
    if b.dtype.kind in "SUO":
        h.update(repr(b.tolist()).encode())
    else:
        h.update(np.ascontiguousarray(b).tobytes())
    return h.hexdigest()[:16]


def values_of(f):
    """Realise every array reachable from the construct; per-array digests."""
    out = {}

    def put(tag, getter):
        try:
            out[tag] = arr_values(getter())
        except BaseException as e:  # noqa
            out[tag] = "ERR:" + type(e).__name__

    if hasattr(f, "get_data"):
        put("data", lambda: f.get_data(None))
    for k, c in data_constructs(f).items():
        put(k, lambda c=c: c.get_data(None))
        b = c.get_bounds(None) if hasattr(c, "get_bounds") else None
        if b is not None:
            put(k + ".bounds", lambda b=b: b.get_data(None))
        r = c.get_interior_ring(None) if hasattr(c, "get_interior_ring") else None
        if r is not None:
            put(k + ".ring", lambda r=r: r.get_data(None))
    return out


def needed_names(tree):
    out = set()

    def leaf(lf):
        if lf and lf[0] == "file":
            out.update(lf[1])

    def arr(a):
        if a is None:
            return
        leaf(a[1])
        if a[0] == "comp":
            for _o, lf in a[2]:
                leaf(lf)

    arr(tree["data"])
    for _k, c in tree["cons"]:
        arr(c["data"])
        for p in (c["bounds"], c["ring"]):
            if p is not None:
                arr(p["data"])
    return sorted(out, key=str)


# ---------------------------------------------------------------------------
# the derivation operations
# ---------------------------------------------------------------------------
class Skip(Exception):
    pass


def pick_key(f, j, want=None):
    cons = data_constructs(f)
    keys = [k for k, c in cons.items()
            if want is None
            or (want == "data" and c.has_data())
            or (want == "bounds" and hasattr(c, "has_bounds") and c.has_bounds())
            or (want == "ring" and hasattr(c, "get_interior_ring") and c.get_interior_ring(None) is not None)]
    if not keys:
        raise Skip("no construct")
    return keys[j % len(keys)]


def select_data(f, sel, j):
    """-> (model selector, Data)"""
    if sel == "field":
        if not hasattr(f, "get_data") or f.get_data(None) is None:
            raise Skip("no data")
        return ["field"], f.get_data(None)
    if sel == "cons":
        k = pick_key(f, j, "data")
        return ["cons", k], f.constructs[k].get_data()
    if sel == "bounds":
        k = pick_key(f, j, "bounds")
        d = f.constructs[k].get_bounds().get_data(None)
        if d is None:
            raise Skip("bounds without data")
        return ["bounds", k], d
    if sel == "ring":
        k = pick_key(f, j, "ring")
        d = f.constructs[k].get_interior_ring().get_data(None)
        if d is None:
            raise Skip("ring without data")
        return ["ring", k], d
    raise Skip(sel)


def wrap_data(d, how):
    if how == "wrapped":
        return cfdm.Data(d)
    if how == "source":
        return cfdm.Data(d.source())
    if how == "copy":
        return d.copy()
    return d


def new_axes(f, shape):
    return [f.set_construct(cfdm.DomainAxis(int(n))) for n in shape]


def is_field(x):
    return isinstance(x, cfdm.Field)


COMPONENT_KINDS = ["interior_ring", "node_count", "part_node_count", "bounds", "count", "index", "list",
                   "cell_measure", "domain_ancillary", "coordref"]


def components_of(f, kind, create=False):
    """The component objects of one kind held (not copied) by construct f."""
    out = []
    cons = data_constructs(f)
    if kind in ("interior_ring", "node_count", "part_node_count", "bounds"):
        for _k, c in cons.items():
            m = getattr(c, "get_" + kind, None)
            if m is None:
                continue
            x = m(None)
            if x is None and create and kind in ("node_count", "part_node_count") and \
                    getattr(c, "get_geometry", lambda d: None)(None) is not None:
                cls = cfdm.NodeCountProperties if kind == "node_count" else cfdm.PartNodeCountProperties
                getattr(c, "set_" + kind)(cls(), copy=False)
                x = m(None)
            if x is not None:
                out.append(x)
    elif kind in ("count", "index", "list"):
        ds = [f.get_data(None)] if hasattr(f, "get_data") else []
        ds += [c.get_data(None) for c in cons.values()]
        for d in ds:
            if d is None:
                continue
            try:
                x = getattr(d, "get_" + kind)(None)
            except Exception:  # noqa
                x = None
            if x is not None:
                out.append(x)
    elif kind == "cell_measure":
        out = [c for _k, c in sorted(f.cell_measures(todict=True).items())]
    elif kind == "domain_ancillary":
        out = [c for _k, c in sorted(f.domain_ancillaries(todict=True).items())]
    elif kind == "coordref":
        out = [c.coordinate_conversion for _k, c in sorted(f.coordinate_references(todict=True).items())]
    return out


def apply_op(regs, o):
    """Apply one operation to the registers (in place); return
    (model op as JSON, index of the register written)."""
    kind = o["op"]
    if kind == "copy":
        f = regs[o["i"] % len(regs)]
        i = o["i"] % len(regs)
        v = o["variant"]
        if v == "copy":
            g = f.copy()
        elif v == "squeeze":
            g = f.squeeze() if is_field(f) else f.copy()
        elif v == "transpose":
            g = f.transpose() if is_field(f) else f.copy()
        elif v == "insert_dimension":
            if not is_field(f):
                raise Skip("domain")
            ax = [k for k in f.domain_axes(todict=True) if k not in f.get_data_axes(default=())]
            if not ax:
                raise Skip("no free axis")
            g = f.insert_dimension(ax[0])
        elif v == "subspace_all":
            if not is_field(f) or not f.has_data():
                raise Skip("no data")
            g = f[...]
        elif v == "subspace_part":
            if not is_field(f) or not f.has_data() or f.ndim < 1:
                raise Skip("no data")
            g = f[0:1]
        elif v == "apply_masking":
            g = f.apply_masking()
        elif v == "uncompress":
            g = f.uncompress()
        elif v == "deepcopy":
            import copy as _copy
            g = _copy.deepcopy(f)
        else:
            raise Skip(v)
        regs.append(g)
        return ["copy", i], len(regs) - 1
    if kind == "get_domain":
        i = o["i"] % len(regs)
        f = regs[i]
        if not is_field(f):
            raise Skip("domain")
        # the domain returned shares its constructs with the field (a view);
        # unless nothing follows, continue with an independent copy
        dom = f.get_domain() if o.get("variant") != "attr" else f.domain
        regs.append(dom if o.get("last") else dom.copy())
        return ["get_domain", i, list(data_constructs(regs[-1]))], len(regs) - 1
    if kind == "field_source":
        i = o["i"] % len(regs)
        regs.append(cfdm.Field(source=regs[i], copy=o.get("copy", True)) if o.get("copy", True)
                    else cfdm.Field(source=regs[i].copy(), copy=False))
        return ["field_source", i], len(regs) - 1
    if kind == "convert":
        i = o["i"] % len(regs)
        f = regs[i]
        if not is_field(f):
            raise Skip("domain")
        k = pick_key(f, o["j"], "data")
        g = f.convert(k, full_domain=bool(o.get("full", True)))
        regs.append(g)
        return ["convert", i, k, list(data_constructs(g))], len(regs) - 1
    if kind == "new_field":
        regs.append(cfdm.Field(properties={"long_name": "fresh"}))
        return ["new_field"], len(regs) - 1
    if kind == "set_data":
        dst, src = o["dst"] % len(regs), o["src"] % len(regs)
        f = regs[dst]
        if not is_field(f):
            raise Skip("domain")
        msel, d = select_data(regs[src], o["sel"], o.get("j", 0))
        d = wrap_data(d, o.get("how", "direct"))
        if f.has_data() and tuple(f.data.shape) == tuple(d.shape):
            f.set_data(d, axes=f.get_data_axes())
        else:
            if f.has_data():
                f.del_data()
                f.del_data_axes(default=None)
            f.set_data(d, axes=new_axes(f, d.shape))
        return ["set_data", dst, src, msel], dst
    if kind == "del_data":
        i = o["i"] % len(regs)
        f = regs[i]
        if not is_field(f) or not f.has_data():
            raise Skip("no data")
        f.del_data()
        return ["del_data", i], i
    if kind == "del_construct":
        i = o["i"] % len(regs)
        f = regs[i]
        k = pick_key(f, o["j"])
        try:
            f.del_construct(k)
        except ValueError:
            raise Skip("construct in use")
        return ["del_cons", i, k], i
    if kind == "set_construct":
        dst, src = o["dst"] % len(regs), o["src"] % len(regs)
        f, g = regs[dst], regs[src]
        k = pick_key(g, o["j"])
        c = g.constructs[k]
        shape = c.shape if c.has_data() else (c.get_bounds().shape[:-1] if hasattr(c, "has_bounds") and c.has_bounds() else None)
        if shape is None:
            raise Skip("shapeless")
        nk = f.set_construct(c, axes=new_axes(f, shape))
        return ["set_cons", dst, nk, src, k], dst
    if kind == "del_bounds":
        i = o["i"] % len(regs)
        f = regs[i]
        k = pick_key(f, o["j"], "bounds")
        f.constructs[k].del_bounds()
        return ["del_bounds", i, k], i
    if kind == "set_bounds":
        dst, src = o["dst"] % len(regs), o["src"] % len(regs)
        f, g = regs[dst], regs[src]
        k2 = pick_key(g, o["j2"], "bounds")
        b = g.constructs[k2].get_bounds()
        cands = [k for k, c in data_constructs(f).items()
                 if hasattr(c, "set_bounds") and c.has_data() and b.has_data() and c.shape == b.shape[:-1]]
        if not cands:
            raise Skip("no matching construct")
        k = cands[o["j"] % len(cands)]
        f.constructs[k].set_bounds(b)
        return ["set_bounds", dst, k, src, k2], dst
    if kind == "set_bounds_data":
        dst, src = o["dst"] % len(regs), o["src"] % len(regs)
        f = regs[dst]
        k = pick_key(f, o["j"], "bounds")
        parent = f.constructs[k]
        want = tuple(parent.shape) if parent.has_data() else None
        g = regs[src]
        cands = []
        for sel in ("field", "cons", "bounds", "ring"):
            for j2 in range(8):
                try:
                    ms, dd = select_data(g, sel, j2)
                except Skip:
                    break
                if want is not None and tuple(dd.shape[:-1]) == want and dd.ndim == len(want) + 1 and (ms, dd.shape) not in [(m, x.shape) for m, x in cands]:
                    cands.append((ms, dd))
                if sel == "field":
                    break
        if cands:
            msel, d = cands[o.get("j2", 0) % len(cands)]
        else:
            msel, d = select_data(g, o["sel"], o.get("j2", 0))
        d = wrap_data(d, o.get("how", "direct"))
        parent.get_bounds().set_data(d)
        return ["set_bounds_data", dst, k, src, msel], dst
    if kind == "comp_prop":
        # give ONE component a property / netCDF name that its siblings do not
        # have: the writer's harmonising steps then have something to do
        i = o["i"] % len(regs)
        f = regs[i]
        comps = components_of(f, o.get("kind", "interior_ring"), create=o.get("create", False))
        if not comps:
            raise Skip("no such component")
        x = comps[o.get("j", 0) % len(comps)]
        val = f"asym{o.get('val', 0)}"
        if o.get("which") == "ncvar_del" and hasattr(x, "nc_del_variable"):
            x.nc_del_variable(None)
        elif o.get("which") == "ncvar" and hasattr(x, "nc_set_variable"):
            x.nc_set_variable("nc_" + val)
        elif hasattr(x, "set_property"):
            x.set_property(o.get("name", "long_name"), val)
        elif hasattr(x, "set_parameter"):
            x.set_parameter("asym_parameter", float(o.get("val", 0)))
        else:
            raise Skip("immutable component")
        return ["touch", i], i
    if kind == "make_external":
        i = o["i"] % len(regs)
        f = regs[i]
        if not is_field(f):
            raise Skip("domain")
        cms = f.cell_measures(todict=True)
        if o.get("new") or not cms:
            if not f.has_data() or f.ndim < 1:
                raise Skip("no data axes")
            ax = list(f.get_data_axes())[-1:]
            n = f.domain_axes(todict=True)[ax[0]].get_size()
            cm = cfdm.CellMeasure(measure="area", properties={"units": "m2"},
                                  data=cfdm.Data(np.arange(float(n)) + 1.0))
            cm.nc_set_external(True)
            cm.nc_set_variable(f"ext_area{o.get('val', 0)}")
            k = f.set_construct(cm, axes=ax)
            return ["new_cons", i, k], i
        k = sorted(cms)[o.get("j", 0) % len(cms)]
        cm = cms[k]
        cm.nc_set_external(True)
        if cm.nc_get_variable(None) is None or o.get("rename"):
            cm.nc_set_variable(f"ext_area{o.get('val', 0)}")
        return ["touch", i], i
    if kind == "touch":
        i = o["i"] % len(regs)
        f = regs[i]
        v = o["variant"]
        if v == "to_memory":
            if not is_field(f) or not f.has_data():
                raise Skip("no data")
            f.data.to_memory()
        elif v == "cons_to_memory":
            k = pick_key(f, o.get("j", 0), "data")
            f.constructs[k].data.to_memory()
        elif v == "assign":
            if not is_field(f) or not f.has_data() or f.data.get_compression_type():
                raise Skip("no data")
            f.data[...] = f.data.array
        elif v == "inner_to_memory":
            # bring the compressed data of a compressed array into memory,
            # keeping its count / index / list variable as it is
            if not is_field(f) or not f.has_data():
                raise Skip("no data")
            d = f.data
            ctype = d.get_compression_type()
            src = d.source(None)
            if ctype not in ("ragged contiguous", "ragged indexed", "gathered") or src is None:
                raise Skip("not compressed")
            inner = cfdm.Data(np.asanyarray(src.source()[...]))
            if ctype == "ragged contiguous":
                arr = cfdm.RaggedContiguousArray(compressed_array=inner, shape=d.shape, count_variable=d.get_count())
            elif ctype == "ragged indexed":
                arr = cfdm.RaggedIndexedArray(compressed_array=inner, shape=d.shape, index_variable=d.get_index())
            else:
                arr = cfdm.GatheredArray(compressed_array=inner, shape=d.shape,
                                         compressed_dimensions=src.compressed_dimensions(),
                                         list_variable=d.get_list())
            d2 = cfdm.Data(arr, units=d.get_units(None), calendar=d.get_calendar(None), fill_value=d.get_fill_value(None))
            f.set_data(d2, axes=f.get_data_axes())
        elif v == "array":
            if not is_field(f) or not f.has_data():
                raise Skip("no data")
            f.data.array
        elif v == "text":
            str(f)
            f.dump(display=False)
        elif v == "equals":
            f.equals(f.copy())
        else:
            raise Skip(v)
        return ["touch", i], i
    raise Skip(kind)


# ---------------------------------------------------------------------------
# the write
# ---------------------------------------------------------------------------
FAULT_KW = {
    "hdf5_chunks": ("early1", {"hdf5_chunks": "bad value"}),
    "fmt": ("early2", {"fmt": "NETCDF5"}),
    "var_attrs": ("early2", {"variable_attributes": ["Conventions"]}),
    "file_desc": ("early2", {"file_descriptors": {"Conventions": "x"}}),
    "endian": ("late", {"endian": "bad"}),
    "compress99": ("late", {"compress": 99}),
    "lsd": ("late", {"least_significant_digit": "x"}),
    "datatype": ("late", {"datatype": {np.dtype("float64"): np.dtype("complex128"),
                                       np.dtype("float32"): np.dtype("complex128"),
                                       np.dtype("int32"): np.dtype("complex128"),
                                       np.dtype("int64"): np.dtype("complex128")}}),
}
HARMLESS_KW = [
    {}, {"fmt": "NETCDF4_CLASSIC"}, {"fmt": "NETCDF3_CLASSIC"}, {"compress": 1}, {"string": False},
    {"group": False}, {"warn_valid": False}, {"Conventions": "test-1.0"}, {"coordinates": True},
    {"global_attributes": ["long_name"]}, {"omit_data": "all"},
    {"datatype": {np.dtype("float64"): np.dtype("float32")}}, {"fletcher32": True, "compress": 2},
    {"shuffle": False, "compress": 3}, {"hdf5_chunks": "contiguous"}, {"endian": "big"},
    {"verbose": 0},
]


def errclass(e):
    if isinstance(e, ValueError):
        return "ValueErr"
    if isinstance(e, TypeError):
        return "TypeErr"
    if isinstance(e, KeyError):
        return "KeyErr"
    if isinstance(e, IndexError):
        return "IndexErr"
    return "OtherErr"


def stat_of(path):
    try:
        st = os.stat(path)
    except OSError:
        return None
    with open(path, "rb") as fh:
        sha = hashlib.sha256(fh.read()).hexdigest()[:16]
    return [st.st_size, st.st_mtime_ns, sha]


def raw_vars(path):
    """Independent view of a netCDF file: every variable's values/attributes digest."""
    import netCDF4
    out = {}
    try:
        nc = netCDF4.Dataset(path, "r")
    except Exception as e:  # noqa
        return {"ERR": type(e).__name__}
    try:
        nc.set_auto_maskandscale(False)

        def walk(g, prefix):
            for n, v in g.variables.items():
                h = hashlib.sha256()
                try:
                    a = v[...]
                    h.update(repr(np.asarray(a).tolist()).encode())
                except Exception as e:  # noqa
                    h.update(("ERR" + type(e).__name__).encode())
                h.update(repr(sorted((k, repr(v.getncattr(k))) for k in v.ncattrs())).encode())
                h.update(repr(v.dimensions).encode())
                out[prefix + n] = h.hexdigest()[:12]
            for n, sub in g.groups.items():
                walk(sub, prefix + n + "/")

        walk(nc, "/")
    finally:
        nc.close()
    return out


def do_write(constructs, target, w, extra, external=None):
    try:
        return do_write1(constructs, target, w, extra, external)
    finally:
        # a write that raised leaves its netCDF4.Dataset to the garbage
        # collector; collect now so that the file is closed before it is
        # looked at again
        gc.collect()


def do_write1(constructs, target, w, extra, external=None):
    kw = dict(extra)
    if external is not None:
        kw["external"] = external
    if w["mode"] != "w":
        kw["mode"] = w["mode"]
    if not w.get("overwrite", True):
        kw["overwrite"] = False
    try:
        cfdm.write(constructs, target, **kw)
        return None
    except BaseException as e:  # noqa
        if isinstance(e, (KeyboardInterrupt, SystemExit)):
            raise
        return [errclass(e), type(e).__name__, str(e)[:160]]


KEYFILE = {"X": "data/x.nc", "Y": "data/y.nc", "Z": "data/z.nc", "E": "data/e.nc", "EN": "data/en.nc",
           "DV": "data/v.nc", "V": "v.nc", "LX": "lx.nc", "W": "x.nc"}
KEY_ID = {"X": 1, "Y": 2, "LX": 3, "Z": 4, "E": 5, "EN": 6, "V": 7, "DV": 8, "W": 9}


def spell_of(base, slink, key, via):
    """One way of writing the name of file `key` of the layout rooted at base."""
    rel = KEYFILE[key]
    fn = os.path.basename(rel)
    if via == "filelink" and key == "X":
        return os.path.join(base, "lx.nc")
    if key in ("LX", "V", "W") or via in ("direct", "filelink"):
        return os.path.join(base, rel)
    if via == "relative":  # the working directory is the real case directory
        cwd = os.getcwd()
        return os.path.join("..", os.path.basename(cwd), ".", os.path.relpath(os.path.join(base, rel), cwd))
    if via == "alias":  # through a symbolic link to the parent directory
        return os.path.join(base, "alias", fn)
    if via == "dotdot":
        return os.path.join(base, "data", "sub", "..", fn)
    if via == "dslash":
        return base + "//data///" + fn
    if via == "scratch":  # the whole scratch directory reached through a symbolic link
        return os.path.join(slink, "data", fn)
    if via == "alias_scratch":
        return os.path.join(slink, "alias", fn)
    if via in ("envvar", "envvar-braces", "tilde"):
        # a name that cfdm must expand (os.path.expandvars / expanduser): the variable and HOME point
        # at the data directory of this layout (run_case sets them)
        var = "VERIF_C10_TWIN" if os.path.basename(base) == "twin" else "VERIF_C10_DIR"
        return {"envvar": f"${var}/{fn}", "envvar-braces": "${" + var + "}/" + fn, "tilde": f"~/{fn}"}[via]
    if via == "deep":  # '..' after a link to a deeper directory: lexically base/fn, physically base/data/fn
        return os.path.join(base, "alias2", "..", fn)
    raise ValueError(via)


def make_layout(base, slink):
    os.makedirs(os.path.join(base, "data", "sub"))
    os.symlink("data", os.path.join(base, "alias"))               # relative target
    os.symlink(os.path.join(base, "data", "sub"), os.path.join(base, "alias2"))
    os.symlink(base, slink)


def lstate(path):
    """What is at a directory entry, without following a final link."""
    try:
        st = os.lstat(path)
    except OSError:
        return None
    import stat as _stat
    if _stat.S_ISLNK(st.st_mode):
        return ["link", os.readlink(path)]
    if _stat.S_ISDIR(st.st_mode):
        return ["dir"]
    with open(path, "rb") as fh:
        sha = hashlib.sha256(fh.read()).hexdigest()[:16]
    return [st.st_size, st.st_mtime_ns, sha]


def geo_props(f, intern):
    """Per auxiliary coordinate (sorted by key): the properties of its node
    count, part node count and interior ring variables (None when absent)."""
    out = []
    if not is_field(f) and not isinstance(f, cfdm.Domain):
        return out
    for _k, c in sorted(f.auxiliary_coordinates(todict=True).items()):
        row = []
        for nm in ("get_node_count", "get_part_node_count", "get_interior_ring"):
            x = getattr(c, nm)(None) if hasattr(c, nm) else None
            row.append(None if x is None else
                       sorted([intern("p:" + str(k)), intern("v:" + repr(jv(v)))] for k, v in x.properties().items()))
        out.append(row)
    return out


OTHER_KINDS = ("list", "count", "index", "bounds", "interior_ring")


def other_props(f, intern):
    """The list / count / index / bounds / interior ring variables held by a construct: kind
    and the property list of each, the netCDF variable name included (key 'nc')."""
    out = []
    for kind in OTHER_KINDS:
        try:
            comps = components_of(f, kind)
        except Exception:  # noqa
            comps = []
        for x in comps:
            row = [[intern("p:nc"), intern("v:" + repr(x.nc_get_variable(None)))]] if hasattr(x, "nc_get_variable") else []
            if hasattr(x, "properties"):
                row += [[intern("p:" + str(k)), intern("v:" + repr(jv(v)))] for k, v in x.properties().items()]
            out.append([kind, sorted(row)])
    return out


def run_case(case, root):
    root = os.path.realpath(root)
    d = os.path.join(root, f"c{case['id']}")
    os.makedirs(d)
    cwd = os.getcwd()
    os.chdir(d)
    out = {"id": case["id"]}
    slink, tslink = os.path.join(root, f"s{case['id']}"), os.path.join(root, f"t{case['id']}")
    try:
        names = Names()
        tbase = os.path.join(d, "twin")
        make_layout(d, slink)
        make_layout(tbase, tslink)
        os.environ["VERIF_C10_DIR"] = os.path.join(d, "data")
        os.environ["VERIF_C10_TWIN"] = os.path.join(tbase, "data")
        os.environ["HOME"] = os.path.join(d, "data")
        paths = {k: os.path.join(d, rel) for k, rel in KEYFILE.items()}
        twin = {k: os.path.join(tbase, rel) for k, rel in KEYFILE.items()}
        for k, i in KEY_ID.items():
            names.add(paths[k], i)
        for nm, kind in zip(("X", "Y"), case["bases"]):
            cfdm.write(base_field(kind), paths[nm])
            shutil.copyfile(paths[nm], twin[nm])
        cfdm.write(cfdm.example_field(0), paths["E"])       # an existing file that may be named as `external`
        shutil.copyfile(paths["E"], paths["V"])             # an existing file one level up
        os.symlink(paths["X"], paths["LX"])
        os.symlink(twin["X"], twin["LX"])
        for p in list(paths.values()) + list(twin.values()):
            if os.path.exists(p) and not os.path.islink(p):
                os.utime(p, (OLD, OLD))

        via_x = {"symlink": "filelink"}.get(case.get("read_via", "direct"), case.get("read_via", "direct"))
        via_y = case.get("read_via_y", "direct")

        def read_env(base, sl):
            return [cfdm.read(spell_of(base, sl, "X", via_x))[0], cfdm.read(spell_of(base, sl, "Y", via_y))[0]]

        regs, tregs = read_env(d, slink), read_env(tbase, tslink)
        out["read_via"] = via_x + "/" + via_y
        out["init"] = [{"tree": tree_of(f, names), "aggs": aggs(f, names)} for f in regs]
        steps = []
        for o in case["ops"]:
            n0 = len(regs)
            try:
                mop, reg = apply_op(regs, o)
            except Skip as s:
                steps.append({"skipped": str(s), "o": o})
                continue
            except Exception as e:  # noqa
                # an operation that raises changes nothing we rely on; drop any
                # register it appended and record it
                del regs[n0:]
                steps.append({"skipped": "raised " + type(e).__name__ + ": " + str(e)[:120], "o": o})
                continue
            try:
                apply_op(tregs, o)
            except Exception as e:  # noqa
                steps.append({"twin_diverged": type(e).__name__ + str(e)[:100], "o": o})
                out["twin_broken"] = True
            f = regs[reg]
            og, fg = aggs(f, names)
            steps.append({"op": mop, "reg": reg, "tree": tree_of(f, names), "orig": og, "files": fg, "o": o})
        out["steps"] = steps
        out["nregs"] = len(regs)

        # ---- the write ---------------------------------------------------
        w = case["write"]
        sel = [i % len(regs) for i in w["regs"]]
        constructs = [regs[i] for i in sel]
        arg = constructs if (w.get("as_list") or len(constructs) > 1) else constructs[0]
        tkey, tvia = w["target"], w.get("tvia", "direct")
        if tkey == "Xrel":
            tkey, tvia = "X", "relative"
        if tkey == "LX":
            tkey, tvia = "X", "filelink"
        target = spell_of(d, slink, tkey, tvia)
        ext = w.get("external")
        ext_path = spell_of(d, slink, ext["key"], ext.get("via", "direct")) if ext else None

        key_of_real = {os.path.realpath(p): k for k, p in paths.items() if k != "LX"}

        def describe(p):
            pe = os.path.expanduser(os.path.expandvars(p))
            ab = os.path.abspath(pe)
            # the name as given, for the model: a variable / home token followed by literal
            # components, or the literal components of the absolute name
            if p.startswith("$VERIF_C10_DIR/") or p.startswith("${VERIF_C10_DIR}/"):
                given = [["var", 1]] + [["lit", c] for c in names.path("/" + p.split("/", 1)[1])]
            elif p.startswith("~/"):
                given = [["home"]] + [["lit", c] for c in names.path("/" + p[2:])]
            else:
                given = [["lit", c] for c in names.path(ab)]
            return {"name": names.get(ab), "path": names.path(ab), "raw": p, "given": given,
                    "real_key": key_of_real.get(os.path.realpath(pe), "?"),
                    "lexical_key": key_of_real.get(os.path.realpath(ab), "?"),
                    "modelable": os.path.realpath(pe) == os.path.realpath(ab)}

        out["target"] = describe(target)
        out["ext"] = describe(ext_path) if ext else None
        out["env"] = {"vars": [[1, names.path(os.path.join(d, "data"))]], "home": names.path(os.path.join(d, "data"))}
        extra = dict(HARMLESS_KW[w.get("harmless", 0) % len(HARMLESS_KW)])
        injected = None
        if w.get("fault"):
            injected, kw = FAULT_KW[w["fault"]]
            extra.update(kw)
        # the external fields the writer will derive (cell measures flagged
        # external that have data and a netCDF variable name)
        efsel = []
        for i in sel:
            f = regs[i]
            # a domain is converted via a field that has that domain (CFDMImplementation.convert)
            host = f if is_field(f) else None
            for k, cm in sorted(f.cell_measures(todict=True).items()):
                if cm.nc_get_external() and cm.has_data() and cm.nc_get_variable(None) is not None:
                    try:
                        if host is None:
                            host = cfdm.Field(source=f)
                        efsel.append([i, k, list(data_constructs(host.convert(k)))])
                    except Exception:  # noqa  (an inconsistent construct: the writer will meet the same)
                        pass
        interned = {}

        def intern(s):
            return interned.setdefault(s, len(interned) + 1)

        geo_before = [geo_props(regs[i], intern) for i in sel]
        oth_before = [other_props(regs[i], intern) for i in sel]
        meta_before = [meta_of(f, names) for f in regs]
        # control: the same constructs and options written to a fresh place,
        # to learn whether this write fails on its own account
        ctl_target = os.path.join(d, "control.nc")
        ctl_ext = os.path.join(d, "control_e.nc")
        wctl = dict(w, overwrite=True)
        if w["mode"] in ("a", "r+"):
            tk = tkey if tkey in ("X", "Y", "E", "V") else None
            src = twin.get(tk) if tk in ("X", "Y") else paths.get(tk)
            if src and os.path.exists(src):
                shutil.copyfile(src, ctl_target)
        ctl_before = stat_of(ctl_target)
        try:
            ctl_arg = [c.copy() for c in constructs] if isinstance(arg, list) else constructs[0].copy()
        except Exception:  # noqa  (an inconsistent construct can not be copied: the writer will meet the same)
            ctl_arg = arg
        ctl_err = do_write(ctl_arg, ctl_target, wctl, extra, ctl_ext if ext else None)
        ctl_after = stat_of(ctl_target)
        if ctl_err is None:
            fault = ["none"]
        elif ctl_after == ctl_before:
            fault = ["early1" if injected == "early1" or w["mode"] not in ("w", "a", "r+") else "early2", ctl_err[0]]
        else:
            fault = ["late"]
        out["fault"] = fault
        out["control_error"] = ctl_err
        out["ext_written_by_control"] = os.path.exists(ctl_ext)
        out["efsel"] = efsel if out["ext_written_by_control"] else []
        out["efsel_predicted"] = len(efsel)
        for p in (ctl_target, ctl_ext):
            try:
                os.remove(p)
            except OSError:
                pass

        tracked = {k: paths[k] for k in ("X", "Y", "Z", "E", "EN", "V", "DV", "W", "LX")}
        before = {nm: lstate(p) for nm, p in tracked.items()}
        # the file system as the model sees it: regular files and links by
        # canonical path (link targets given as canonical paths)
        nodes = []
        for k in ("X", "Y", "E", "V"):
            nodes.append([names.path(paths[k]), ["file", 100 + KEY_ID[k]]])
        nodes.append([names.path(paths["LX"]), ["link", names.path(paths["X"])]])
        nodes.append([names.path(os.path.join(d, "alias")), ["link", names.path(os.path.join(d, "data"))]])
        nodes.append([names.path(os.path.join(d, "alias2")), ["link", names.path(os.path.join(d, "data", "sub"))]])
        nodes.append([names.path(slink), ["link", names.path(d)]])
        raw_before = {nm: raw_vars(paths[nm]) for nm in ("X", "Y", "E", "V")} if w["mode"] in ("a", "r+") else None
        # which real file each interned name resolves to (independent of the model: os.path.realpath)
        real_of = {}
        for p, i in names.ids.items():
            real_of[str(i)] = key_of_real.get(os.path.realpath(p), "?")
        out["real_of"] = real_of
        err = do_write(arg, target, w, extra, ext_path)
        after = {nm: lstate(p) for nm, p in tracked.items()}
        out["error"] = err
        out["before"], out["after"] = before, after
        out["tracked_paths"] = {nm: names.path(p) for nm, p in tracked.items()}
        out["sel"] = sel
        out["needed"] = [needed_names(meta_before[i]["tree"]) for i in sel]
        out["all_needed"] = sorted({n for m in meta_before for n in needed_names(m["tree"])}, key=str)
        out["written_aggs"] = [meta_before[i]["aggs"] for i in sel]
        out["nodes"] = nodes
        meta_after = [meta_of(f, names) for f in regs]
        geo_after = [geo_props(regs[i], intern) for i in sel]
        out["geo"] = {"before": geo_before, "after": geo_after}
        out["others"] = {"before": oth_before, "after": [other_props(regs[i], intern) for i in sel]}
        out["kname"] = intern("p:nc")
        changed = []
        for i, (a, b) in enumerate(zip(meta_before, meta_after)):
            if a != b:
                keys = [k for k in a if a.get(k) != b.get(k)]
                sub = []
                if "constructs" in keys:
                    sub = [k for k in a["constructs"] if a["constructs"].get(k) != b["constructs"].get(k)]
                changed.append({"reg": i, "parts": keys, "constructs": sub,
                                "before": json.dumps(a, sort_keys=True, default=str)[:300],
                                "after": json.dumps(b, sort_keys=True, default=str)[:300]})
        out["inputs_changed"] = changed
        out["spell"] = names.spell()
        if raw_before is not None:
            lost = {}
            for nm in ("X", "Y", "E", "V"):
                ra = raw_vars(paths[nm])
                bad = [k for k, v in raw_before[nm].items() if ra.get(k) != v]
                if bad:
                    lost[nm] = bad
            out["append_lost"] = lost
        # values still readable and equal to the twin's
        if not out.get("twin_broken"):
            bad = []
            for i in sorted(set(sel)):
                f, t = regs[i], tregs[i]
                vf, vt = values_of(f), values_of(t)
                if vf != vt:
                    bad.append({"reg": i, "written": i in sel,
                                "diff": sorted(k for k in set(vf) | set(vt) if vf.get(k) != vt.get(k)),
                                "got": {k: vf.get(k) for k in list(vf)[:6]}})
            out["values_bad"] = bad
    except BaseException as e:  # noqa
        if isinstance(e, (KeyboardInterrupt, SystemExit)):
            raise
        out["driver_error"] = type(e).__name__ + ": " + str(e)[:300] + " | " + traceback.format_exc()[-600:]
    finally:
        os.chdir(cwd)
        for p in (slink, tslink):
            try:
                os.remove(p)
            except OSError:
                pass
        shutil.rmtree(d, ignore_errors=True)
    return out


def main():
    payload = json.load(sys.stdin)
    root = payload["scratch"]
    os.makedirs(root, exist_ok=True)
    cfdm.log_level("DISABLE")
    for case in payload["cases"]:
        rfd, wfd = os.pipe()
        pid = os.fork()
        if pid == 0:
            os.close(rfd)
            try:
                res = run_case(case, root)
                data = json.dumps(res, default=str).encode()
            except BaseException as e:  # noqa
                data = json.dumps({"id": case["id"], "driver_error": repr(e)}).encode()
            with os.fdopen(wfd, "wb") as fh:
                fh.write(data)
            os._exit(0)
        os.close(wfd)
        chunks = []
        with os.fdopen(rfd, "rb") as fh:
            while True:
                b = fh.read(65536)
                if not b:
                    break
                chunks.append(b)
        _, status = os.waitpid(pid, 0)
        data = b"".join(chunks)
        if os.WIFSIGNALED(status) or not data:
            print(json.dumps({"id": case["id"], "crash": os.WTERMSIG(status) if os.WIFSIGNALED(status) else -1}))
            shutil.rmtree(os.path.join(root, f"c{case['id']}"), ignore_errors=True)
        else:
            print(data.decode())
        sys.stdout.flush()


if __name__ == "__main__":
    main()
