"""C09 - fields sharing a file do not interfere with each other (DESIGN.md section 4, C09).

Abstract field skeletons (tokens stand for properties+data, see drive/c09.py)
are generated from a common pool so that coordinates, bounds, grid mappings,
datums, domain ancillaries, cell measures and netCDF names are equal, nearly
equal or conflicting.  Every ordering (all for <= 3 fields, sampled beyond) is
written to one file by the real cfdm and read back.

  oracle          every original has exactly one equal read-back construct,
                  with the fingerprint of its own single-file round trip; no
                  construct appears that the single files do not have; a
                  metadata variable is referenced by two data variables only
                  when the originals' constructs are equal (raw netCDF4 view);
  correspondence  C09.Run.check_case: the model's sharing partition (which
                  axes/constructs of which fields land in the same netCDF
                  dimension/variable) and its read-back view (constructs,
                  vertical references with datum and terms, grid mappings)
                  against the file and against cfdm.read.
"""
import itertools
import json
import random
import os

import lib
from lib import gz, gnat, gbool

REQ = "From CfdmV Require Import Common.Base C09.Model C09.Run.\nOpen Scope Z_scope."
MODEL_FILES = ["Model", "Spec", "Run"]
VBASE = 5          # token base of the vertical coordinate that owns formula terms


# ---- Gallina printers ------------------------------------------------------
def g_optz(x):
    return "None" if x is None else f"(Some {gz(x)})"


def beff(t, b):
    """Bounds token as the model sees it.  The data of a Bounds component inherit the units of the parent
    construct, so equal bounds arrays under parents with different units are different components: the
    parent's units (token variant 3 = 'km') are folded into the token."""
    if b is None or b < 0:
        return b
    return b * 2 + (1 if t % 4 == 3 else 0)


def g_item(it):
    return (f"(mkI [{'; '.join(gnat(a) for a in it.get('ax', []))}] {gz(it['t'])} "
            f"{g_optz(beff(it['t'], it.get('b')))})")


def g_field(sk):
    dimc = "; ".join("None" if it is None else f"Some {g_item(it)}" for it in sk["dim"])
    ft = "None"
    if sk.get("ft") is not None:
        t = sk["ft"]
        ft = f"(Some (mkF {gnat(t['z'])} {g_optz(t['d'])} [{'; '.join(gnat(x) for x in t['terms'])}]))"
    gms = "; ".join(
        f"mkG {gz(g['cc'])} {g_optz(g['d'])} [{'; '.join('(%s, %s)' % (gbool(x[0] == 'dim'), gnat(x[1])) for x in g['co'])}]"
        for g in sk.get("gm", []))

    def items(k):
        return "; ".join(g_item(it) for it in sk.get(k, []))
    return (f"(mkField [{'; '.join(gz(n) for n in sk['sizes'])}] [{dimc}] [{items('scalar')}] [{items('aux')}] "
            f"[{items('anc')}] [{items('meas')}] [{items('fanc')}] {ft} [{gms}])")


def g_rcons(c):
    return f"({gnat(c[0])}, {gz(c[1])}, {gz(beff(c[1], c[2]))}, [{'; '.join(gz(x) for x in c[3])}])"


def g_datum(d):
    return "None" if d < 0 else f"(Some {gz(d)})"


def g_view(v):
    cons = "; ".join(g_rcons(c) for c in v["cons"])
    vcr = "; ".join(f"({g_datum(x[0])}, {gz(x[1][0] if len(x[1]) == 1 else -1)}, [{'; '.join(gz(t) for t in x[2])}])"
                    for x in v["vcr"])
    gms = "; ".join(f"({gz(x[0])}, {g_datum(x[1])}, [{'; '.join(gz(t) for t in x[2])}])" for x in v["gms"])
    return f"([{cons}], [{vcr}], [{gms}])"


def g_natlists(ls):
    return "[" + "; ".join("[" + "; ".join(gnat(x) for x in l) + "]" for l in ls) + "]"


# ---- generators --------------------------------------------------------------
def tok(base, var=0):
    return base * 4 + var


def rand_bounds(rng, p=0.4):
    return rng.choice([2, 3, 4, 5, 6, 7]) if rng.random() < p else None


def rand_axes(rng, n, two=0.35):
    if n >= 2 and rng.random() < two:
        a, b = rng.sample(range(n), 2)
        return [a, b]
    return [rng.randrange(n)]


def fresh_field(rng, fid):
    n = rng.choice([1, 2, 2, 3])
    sizes = [rng.choice([2, 2, 3]) for _ in range(n)]
    sk = {"id": fid, "sizes": sizes, "dim": [], "scalar": [], "aux": [], "anc": [], "meas": [], "fanc": [],
          "ft": None, "gm": [], "cm": []}
    zaxis = rng.randrange(n) if rng.random() < 0.55 else None
    used = set()
    for i in range(n):
        if i == zaxis:
            sk["dim"].append({"t": tok(VBASE, rng.choice([0, 0, 1])), "b": rand_bounds(rng, 0.3)})
        elif rng.random() < 0.7:
            b = rng.choice([6, 7, 8])
            while (b, sizes[i]) in used:
                b += 1
            used.add((b, sizes[i]))
            sk["dim"].append({"t": tok(b, rng.choice([0, 0, 0, 1, 2, 3])), "b": rand_bounds(rng)})
        else:
            sk["dim"].append(None)
    for _ in range(rng.choice([0, 0, 1])):
        sk["scalar"].append({"t": tok(rng.choice([30, 31]), rng.choice([0, 1])), "b": rand_bounds(rng, 0.3)})
    for _ in range(rng.choice([0, 1, 1, 2, 3])):
        sk["aux"].append({"ax": rand_axes(rng, n), "t": tok(rng.choice([20, 21, 22]), rng.choice([0, 0, 1, 2])),
                          "b": rand_bounds(rng)})
    for _ in range(rng.choice([0, 0, 1])):
        sk["meas"].append({"ax": rand_axes(rng, n, 0.6), "t": tok(rng.choice([25, 20]), rng.choice([0, 3]))})
    for _ in range(rng.choice([0, 0, 1])):
        sk["fanc"].append({"ax": rand_axes(rng, n, 0.5), "t": tok(rng.choice([27, 21]), rng.choice([0, 1]))})
    if zaxis is not None and rng.random() < 0.8:
        for _ in range(rng.choice([1, 1, 2])):
            # (no bounds: the writer loses the bounds of a domain ancillary even in a file of its own - C01)
            sk["anc"].append({"ax": rand_axes(rng, n), "t": tok(rng.choice([15, 16, 20, VBASE]), rng.choice([0, 0, 1])),
                              "b": None})
        sk["ft"] = {"z": zaxis, "d": None, "terms": list(range(len(sk["anc"])))}
    r = rng.random()
    if r < 0.35:
        sk["gm"] = [{"cc": rng.choice([1, 2]), "d": rng.choice([None, 7, 7, 8]), "co": []}]
    elif r < 0.55:
        sk["gm"] = [{"cc": rng.choice([1, 2]), "d": rng.choice([None, 7, 8]), "co": None},
                    {"cc": rng.choice([4, 5]), "d": rng.choice([None, 7, 8]), "co": None}]
    if rng.random() < 0.3:
        sk["cm"] = [[rng.randrange(n), rng.choice(["mean", "maximum"])]]
    if rng.random() < 0.25:
        sk["dimnc"] = [rng.choice([None, 0, 1, 2]) for _ in range(n)]
    if rng.random() < 0.2:
        # a property with a forced global-attribute value (honoured only if all fields agree)
        sk["gattr"] = rng.choice([1, 1, 2])
    return normalise(rng, sk)


def coords_of(sk):
    return [["dim", i] for i, it in enumerate(sk["dim"]) if it is not None] + \
           [["aux", j] for j in range(len(sk["aux"]))]


def normalise(rng, sk):
    """Make the skeleton one whose single-file round trip is faithful by construction."""
    n = len(sk["sizes"])
    # unique construct descriptors inside one field
    for kind in ("aux", "anc", "meas", "fanc"):
        seen, out = set(), []
        for it in sk[kind]:
            it["ax"] = [a for a in it["ax"] if a < n] or [0]
            if len(set(it["ax"])) != len(it["ax"]):
                it["ax"] = [it["ax"][0]]
            key = (it["t"] // 4, tuple(sorted(it["ax"])))
            if key in seen:
                continue
            seen.add(key)
            out.append(it)
        if kind == "anc" and sk["ft"] is not None and len(out) != len(sk["anc"]):
            pass
        sk[kind] = out
    seen = set()
    for i, it in enumerate(sk["dim"]):
        if it is None:
            continue
        key = (it["t"], it["b"], sk["sizes"][i])
        if key in seen or (it["t"] // 4 == VBASE and any(
                j != i and o is not None and o["t"] // 4 == VBASE for j, o in enumerate(sk["dim"]))
                and (sk["ft"] is None or sk["ft"]["z"] != i)):
            sk["dim"][i] = None
            continue
        seen.add(key)
    sseen, out = set(), []
    for it in sk["scalar"]:
        if (it["t"], it["b"]) not in sseen:
            sseen.add((it["t"], it["b"]))
            out.append(it)
    sk["scalar"] = out
    # formula terms: the owner is a dimension coordinate carrying the vertical standard name,
    # every domain ancillary is one of its terms
    for it in sk["anc"]:
        it["b"] = None
    ft = sk["ft"]
    if ft is not None and (ft["z"] >= n or sk["dim"][ft["z"]] is None or sk["dim"][ft["z"]]["t"] // 4 != VBASE
                           or not sk["anc"]):
        ft = None
    if ft is None:
        sk["anc"] = []
    else:
        ft["terms"] = list(range(len(sk["anc"])))
    sk["ft"] = ft
    # no auxiliary coordinate may carry the vertical standard name
    for it in sk["aux"]:
        if it["t"] // 4 == VBASE:
            it["t"] = tok(22, it["t"] % 4)
    # grid mappings
    gms = sk["gm"][:2]
    cs = coords_of(sk)
    if ft is not None:
        # the reader moves a listed coordinate that owns formula terms out of the grid mapping (C01)
        cs = [c for c in cs if c != ["dim", ft["z"]]]
    if len(gms) == 2 and (not cs or gms[0]["cc"] == gms[1]["cc"]):
        gms = gms[:1]
    if len(gms) == 1:
        gms[0]["co"] = []
    elif len(gms) == 2:
        for g in gms:
            if not g.get("co"):
                g["co"] = rng.sample(cs, rng.randint(1, min(2, len(cs))))
            g["co"] = [c for c in g["co"] if c in cs] or [cs[0]]
    sk["gm"] = gms
    # the datum of the vertical reference must be one the file can hold for this field
    if ft is not None:
        if not gms:
            ft["d"] = None
        elif len(gms) == 1:
            ft["d"] = gms[0]["d"]
        else:
            ds = [g["d"] for g in gms]
            ok = [None] + [d for d in (7, 8, 9) if d is not None]
            if ft["d"] not in ok:
                ft["d"] = None
    sk["cm"] = [c for c in sk.get("cm", []) if c[0] < n]
    if sk.get("dimnc") is not None:
        sk["dimnc"] = (sk["dimnc"] + [None] * n)[:n]
    return sk


def mutate(rng, parent, fid, allow_ft_conflict):
    sk = json.loads(json.dumps(parent))
    sk["id"] = fid
    sk.pop("nc", None)
    ops = rng.choice([0, 1, 1, 2])
    kinds = ["same"]
    for _ in range(ops):
        op = rng.choice(["tok", "tok", "bnd", "drop", "transpose", "gm-datum", "gm-drop", "free-dim", "dup-aux",
                         "add-aux", "scalar", "anc-as-aux", "ft-datum", "gattr"] +
                        (["drop-ft", "term-change"] if allow_ft_conflict else []))
        kinds.append(op)
        pool = [(k, j) for k in ("aux", "meas", "fanc") for j in range(len(sk[k]))]
        dims = [i for i, it in enumerate(sk["dim"]) if it is not None]
        if op == "tok" and (pool or dims):
            if pool and rng.random() < 0.6:
                k, j = rng.choice(pool)
                it = sk[k][j]
            else:
                if not dims:
                    continue
                i = rng.choice(dims)
                if sk["ft"] is not None and sk["ft"]["z"] == i and not allow_ft_conflict and rng.random() < 0.5:
                    continue
                it = sk["dim"][i]
            it["t"] = tok(it["t"] // 4, rng.choice([v for v in range(4) if v != it["t"] % 4]))
        elif op == "bnd":
            cands = [sk[k][j] for k, j in pool if k == "aux"] + [sk["dim"][i] for i in dims
                                                                 if sk["ft"] is None or sk["ft"]["z"] != i]
            if cands:
                it = rng.choice(cands)
                it["b"] = rng.choice([None, 2, 3, 4, 5]) if it["b"] is None else rng.choice([None, it["b"] ^ 1])
        elif op == "drop" and pool:
            k, j = rng.choice(pool)
            del sk[k][j]
            if k == "aux":
                for g in sk["gm"]:
                    g["co"] = [c for c in (g["co"] or []) if not (c[0] == "aux" and c[1] == j)]
                    g["co"] = [[c[0], c[1] - 1] if c[0] == "aux" and c[1] > j else c for c in g["co"]]
        elif op == "transpose":
            two = [it for it in sk["aux"] + sk["meas"] if len(it["ax"]) == 2]
            if two:
                it = rng.choice(two)
                it["ax"] = it["ax"][::-1]
        elif op == "gm-datum" and sk["gm"]:
            g = rng.choice(sk["gm"])
            g["d"] = rng.choice([d for d in (None, 7, 8) if d != g["d"]])
        elif op == "gm-drop" and sk["gm"]:
            sk["gm"] = sk["gm"][:-1]
        elif op == "free-dim" and dims:
            i = rng.choice(dims)
            if sk["ft"] is None or sk["ft"]["z"] != i:
                sk["dim"][i] = None
                for g in sk["gm"]:
                    g["co"] = [c for c in (g["co"] or []) if c != ["dim", i]]
        elif op == "dup-aux" and sk["aux"]:
            it = rng.choice([a for a in sk["aux"]])
            if len(it["ax"]) == 1:
                others = [a for a in range(len(sk["sizes"])) if a != it["ax"][0]
                          and sk["sizes"][a] == sk["sizes"][it["ax"][0]]]
                if others:
                    sk["aux"].append({"ax": [rng.choice(others)], "t": it["t"], "b": it["b"]})
                else:
                    sk["sizes"].append(sk["sizes"][it["ax"][0]])
                    sk["dim"].append(None)
                    if sk.get("dimnc") is not None:
                        sk["dimnc"].append(None)
                    sk["aux"].append({"ax": [len(sk["sizes"]) - 1], "t": it["t"], "b": it["b"]})
        elif op == "add-aux":
            sk["aux"].append({"ax": rand_axes(rng, len(sk["sizes"])), "t": tok(rng.choice([20, 21, 22, 23]), rng.choice([0, 1])),
                              "b": rand_bounds(rng)})
        elif op == "scalar":
            sk["scalar"] = [] if sk["scalar"] else [{"t": tok(30, rng.choice([0, 1])), "b": None}]
        elif op == "anc-as-aux" and sk["anc"]:
            a = rng.choice(sk["anc"])
            sk["aux"].append({"ax": list(a["ax"]), "t": a["t"], "b": a["b"]})
        elif op == "ft-datum" and sk["ft"] is not None and len(sk["gm"]) == 2:
            sk["ft"]["d"] = rng.choice([None, sk["gm"][0]["d"], sk["gm"][1]["d"], 9])
        elif op == "gattr":
            sk["gattr"] = rng.choice([None, 1, 2]) if sk.get("gattr") is not None else rng.choice([1, 2])
            if sk["gattr"] is None:
                del sk["gattr"]
        elif op == "drop-ft" and sk["ft"] is not None:
            sk["ft"] = None
            sk["anc"] = []
        elif op == "term-change" and sk["anc"]:
            a = rng.choice(sk["anc"])
            a["t"] = tok(a["t"] // 4, rng.choice([v for v in range(3) if v != a["t"] % 4]))
    if rng.random() < 0.15:
        sk["nc"] = rng.randrange(6)
    for k in ("aux", "meas"):
        for it in sk[k]:
            if rng.random() < 0.08:
                it["nc"] = rng.randrange(6)
            else:
                it.pop("nc", None)
    sk["_ops"] = kinds
    return normalise(rng, sk)


def ft_signature(sk, i):
    """what this field wants written as formula_terms on the dimension coordinate of axis i"""
    ft = sk.get("ft")
    if ft is None or ft["z"] != i:
        return None
    return [(sk["anc"][a]["t"], sk["anc"][a]["b"], tuple(dimdesc(sk, x) for x in sk["anc"][a]["ax"]))
            for a in ft["terms"]]


def dimdesc(sk, a):
    it = sk["dim"][a]
    return ("free", a, sk["sizes"][a]) if it is None else ("dim", it["t"], it["b"], sk["sizes"][a])


def may_conflict_ft(fields):
    """Some pair of fields has an equal dimension coordinate for which they want different
    formula terms (F09d / F09e), judged on the skeletons (conservative: also when a term
    variable might not be shared)."""
    want = {}
    for sk in fields:
        for i, it in enumerate(sk["dim"]):
            if it is None:
                continue
            key = (it["t"], it["b"], sk["sizes"][i])
            want.setdefault(key, []).append(ft_signature(sk, i))
    for key, ws in want.items():
        if any(w is not None for w in ws) and len(ws) > 1:
            first = ws[0]
            for w in ws[1:]:
                if w != first or w is None:
                    return True
            # equal signatures still conflict when a term variable sits on an axis without
            # dimension coordinate (the two fields need not share that dimension)
            if any(d[0] == "free" for w in ws for t in w for d in t[2]):
                return True
    return False


def gen_case(rng, fid0, allow_ft_conflict):
    k = rng.choice([2, 2, 2, 3, 3, 3, 4, 5])
    fields = [fresh_field(rng, fid0)]
    for j in range(1, k):
        if rng.random() < 0.75:
            fields.append(mutate(rng, rng.choice(fields), fid0 + j, allow_ft_conflict))
        else:
            fields.append(fresh_field(rng, fid0 + j))
    if not allow_ft_conflict and may_conflict_ft(fields):
        # keep the multiset but separate the vertical coordinates
        for j, sk in enumerate(fields):
            if sk["ft"] is None:
                for i, it in enumerate(sk["dim"]):
                    if it is not None and it["t"] // 4 == VBASE:
                        sk["dim"][i] = None
                        for g in sk["gm"]:
                            g["co"] = [c for c in g["co"] if c != ["dim", i]]
                normalise(rng, sk)
        if may_conflict_ft(fields):
            z = 0
            for sk in fields:
                if sk["ft"] is not None:
                    it = sk["dim"][sk["ft"]["z"]]
                    it["t"] = tok(VBASE, z % 4)
                    it["b"] = [None, 2, 4, 6][(z // 4) % 4]
                    z += 1
    if rng.random() < 0.08:
        j = rng.randrange(len(fields))
        if not fields[j]["fanc"] and not fields[j]["cm"]:
            fields[j]["dom"] = True
    if k <= 3:
        orders = [list(p) for p in itertools.permutations(range(k))]
    else:
        perms = list(itertools.permutations(range(k)))
        orders = [list(range(k)), list(range(k))[::-1]] + [list(p) for p in rng.sample(perms, 3)]
    return {"fields": fields, "orders": orders}


def F(id, sizes, dim=None, aux=(), anc=(), meas=(), fanc=(), ft=None, gm=(), scalar=(), cm=()):
    return {"id": id, "sizes": sizes, "dim": dim or [None] * len(sizes), "aux": list(aux), "anc": list(anc),
            "meas": list(meas), "fanc": list(fanc), "ft": ft, "gm": list(gm), "scalar": list(scalar), "cm": list(cm)}


def compressed_corpus():
    """the reported defects: equal list values on compressed axes (2,3) / (3,2); equal counts / indices with
    different instance-level coordinates"""
    d = lambda t: {"t": t, "b": None}
    a = F(60001, [2, 2, 3], dim=[d(24), d(40), d(44)])
    a["cmp"] = {"kind": "gath", "t": 2, "p": 1, "n": 2}
    b = F(60002, [2, 3, 2], dim=[d(24), d(48), d(52)])
    b["cmp"] = {"kind": "gath", "t": 2, "p": 1, "n": 2}
    out = [{"fields": [a, b], "orders": [[0, 1], [1, 0]], "fam": "corpus-list-variable"}]
    for kind in ("cont", "idx"):
        a = F(60010 if kind == "cont" else 60020, [3, 3], dim=[None, None], aux=[{"ax": [0], "t": 80, "b": None}])
        a["cmp"] = {"kind": kind, "t": 0}
        b = F(60011 if kind == "cont" else 60021, [3, 3], dim=[None, None], aux=[{"ax": [0], "t": 84, "b": None}])
        b["cmp"] = {"kind": kind, "t": 0}
        out.append({"fields": [a, b], "orders": [[0, 1], [1, 0]], "fam": "corpus-" + kind + "-variable"})
    return out


def corpus():
    out = []
    # F09a: a later field's grid mapping (no coordinates listed) overwrote the datum of an
    # earlier field's vertical coordinate reference on read
    a = F(1, [3, 2], dim=[{"t": 20, "b": None}, {"t": 40, "b": 3}], anc=[{"ax": [0], "t": 60, "b": None}],
          ft={"z": 0, "d": 7, "terms": [0]}, gm=[{"cc": 1, "d": 7, "co": []}])
    b = F(2, [3], dim=[{"t": 44, "b": None}], gm=[{"cc": 1, "d": None, "co": []}])
    out.append({"fields": [a, b], "orders": [[0, 1], [1, 0]], "fam": "corpus-F09a"})
    # F09a, explicit-coordinates form: the earlier field's reference steals a coordinate
    a = F(3, [3], dim=[{"t": 20, "b": None}], anc=[{"ax": [0], "t": 60, "b": None}],
          ft={"z": 0, "d": None, "terms": [0]})
    b = F(4, [3, 2], dim=[{"t": 28, "b": None}, {"t": 32, "b": None}],
          gm=[{"cc": 1, "d": 7, "co": [["dim", 0]]}, {"cc": 4, "d": 8, "co": [["dim", 1]]}])
    out.append({"fields": [a, b], "orders": [[0, 1], [1, 0]], "fam": "corpus-F09a2"})
    # F09b: two axes of one field collapse into one netCDF dimension of an earlier field
    a = F(5, [3], aux=[{"ax": [0], "t": 80, "b": None}])
    b = F(6, [3, 3], aux=[{"ax": [0], "t": 80, "b": None}, {"ax": [1], "t": 80, "b": None}])
    out.append({"fields": [a, b], "orders": [[0, 1], [1, 0]], "fam": "corpus-F09b"})
    # F09d: formula_terms leak through a shared coordinate variable
    a = F(7, [3], dim=[{"t": 20, "b": None}], anc=[{"ax": [0], "t": 60, "b": None}],
          ft={"z": 0, "d": None, "terms": [0]})
    b = F(8, [3], dim=[{"t": 20, "b": None}])
    out.append({"fields": [a, b], "orders": [[0, 1], [1, 0]], "fam": "corpus-F09d"})
    # F09e: the later field's formula_terms replace the earlier field's
    b = F(9, [3], dim=[{"t": 20, "b": None}], anc=[{"ax": [0], "t": 61, "b": None}],
          ft={"z": 0, "d": None, "terms": [0]})
    out.append({"fields": [json.loads(json.dumps(a)), b], "orders": [[0, 1], [1, 0]], "fam": "corpus-F09e"})
    return out


EXAMPLES = [0, 1, 2, 3, 4, 5, 6, 7, 11]      # cfdm.example_field(n) that can be written (8-10 are UGRID)


def example_cases(rng, thorough):
    """cfdm's own example fields, every unordered pair in both orders (cell methods, scalar coordinates,
    formula terms, grid mappings, DSG and geometry fields mixed), plus sampled triples.  Oracle only."""
    out = []
    for a, b in itertools.combinations(EXAMPLES, 2):
        out.append({"fields": [{"id": 9000 + a, "ex": a}, {"id": 9000 + b, "ex": b}],
                    "orders": [[0, 1], [1, 0]], "fam": "example-pairs"})
    triples = list(itertools.combinations(EXAMPLES, 3))
    for t in (triples if thorough else rng.sample(triples, 10)):
        orders = [list(p) for p in itertools.permutations(range(3))]
        out.append({"fields": [{"id": 9000 + n, "ex": n} for n in t],
                    "orders": orders if thorough else rng.sample(orders, 3), "fam": "example-triples"})
    return out


def bounds_family(rng, n):
    """Two fields with an equal coordinate-with-bounds (so that the second registration of the bounds is a
    re-registration of an existing variable), then a field whose *different* coordinate sits on another
    dimension of the same size and has equal bounds: its bounds must not be taken from the first variable.
    All orderings; also with global attributes forced by some of the fields only."""
    out = []
    for j in range(n):
        size = rng.choice([2, 3])
        b = rng.choice([2, 4, 6])
        t = tok(rng.choice([20, 21, 22]), rng.choice([0, 1, 2]))
        t2 = tok(t // 4 + 1, 0) if rng.random() < 0.5 else tok(t // 4, (t % 4 + 1) % 3)
        dx = {"t": tok(6, rng.choice([0, 1])), "b": rand_bounds(rng, 0.3)}
        dy = {"t": tok(7, rng.choice([0, 1])), "b": rand_bounds(rng, 0.3)}
        kind = rng.choice(["aux", "aux", "dim", "aux2"])
        fid = 50000 + 10 * j
        f1 = F(fid, [size], dim=[dict(dx)], aux=[{"ax": [0], "t": t, "b": b}])
        f2 = F(fid + 1, [size], dim=[dict(dx)], aux=[{"ax": [0], "t": t, "b": b}])
        if rng.random() < 0.4:
            f2["meas"] = [{"ax": [0], "t": tok(25, 0)}]
        if kind == "aux":
            f3 = F(fid + 2, [size], dim=[dict(dy)], aux=[{"ax": [0], "t": t2, "b": b}])
        elif kind == "dim":
            # the different coordinate is itself the dimension coordinate of the other dimension
            f3 = F(fid + 2, [size], dim=[{"t": t2, "b": b}])
        else:
            # two same-size axes in one field: the equal one on the first, the different one on the second
            f3 = F(fid + 2, [size, size], dim=[dict(dx), dict(dy)],
                   aux=[{"ax": [0], "t": t, "b": b}, {"ax": [1], "t": t2, "b": b}])
        fields = [f1, f2, f3]
        for f in fields:
            if rng.random() < 0.3:
                f["gattr"] = rng.choice([1, 2])
        for f in fields:
            normalise(rng, f)
        out.append({"fields": fields, "orders": [list(p) for p in itertools.permutations(range(3))],
                    "fam": "equal-bounds-other-dimension"})
    return out


def g_cfield(sk):
    c = sk["cmp"]
    spec = {"gath": f"CGath {gz(c['t'])} {gnat(c.get('p', 0))} {gnat(c.get('n', 0))}",
            "cont": f"CCont {gz(c['t'])}", "idx": f"CIdx {gz(c['t'])}"}[c["kind"]]
    return f"(mkCF {g_field(sk)} (Some ({spec})))"


LISTS = {0: [0, 2], 1: [1, 3], 2: [1, 2, 3], 3: [0, 1, 3]}


def g_cfield2(sk):
    c = sk.get("cmp")
    cmp = "None" if c is None else f"(Some (CGath {gz(c['t'])} {gnat(c['p'])} {gnat(c['n'])}))"
    items = "; ".join(f"mkGI {gz(it['lt'])} {gnat(it['p'])} {gnat(it['n'])}" for it in sk.get("gcons", []))
    return f"(mkCF2 (mkCF {g_field(sk)} {cmp}) [{items}])"


def gathered_constructs_family(rng, n):
    """2-3 fields on (mostly) the same dimensions, all orderings: fields whose data are gathered, fields with
    uncompressed data that carry one or two auxiliary coordinates gathered over the same axes, fields with
    both, plain fields; list variables equal, or different with the same length ([0,2] / [1,3], [1,2,3] /
    [0,1,3]), or of other length.  A construct must be written on a list variable holding its own list: the
    per-field mapping compressed dimensions -> sample dimension must not survive from one field to the next."""
    out = []
    fid = 80000
    for j in range(n):
        k = rng.choice([2, 2, 3])
        shape = rng.choice([(2, 2), (2, 3), (3, 2)])
        lead = rng.choice([None, None, 2, 3])
        v0 = rng.choice([0, 1])
        pair = rng.choice([(0, 1), (2, 3)])
        fields = []
        kinds = [rng.choice(["gdata", "gcons", "gcons", "both", "plain"]) for _ in range(k)]
        if j % 2 == 0:
            kinds[0], kinds[1] = "gdata", "gcons"       # the order-dependent situation, then permuted
        for i, kind in enumerate(kinds):
            v = v0 if rng.random() < 0.8 else rng.choice([0, 1, 2])
            grid = [{"t": tok(10, v), "b": None}, {"t": tok(11, v), "b": None}]
            if lead is None:
                sizes, dim, p = list(shape), grid, 0
            else:
                sizes, dim, p = [lead] + list(shape), [{"t": tok(6, 0), "b": None}] + grid, 1
            lt = pair[i % 2] if rng.random() < 0.8 else rng.choice([0, 1, 2, 3])
            sk = F(fid, sizes, dim=dim)
            if kind in ("gdata", "both"):
                sk["cmp"] = {"kind": "gath", "t": lt, "p": p, "n": 2}
            if kind in ("gcons", "both"):
                sk["gcons"] = [{"lt": lt, "p": p, "n": 2, "t": tok(23, rng.choice([0, 2]))}]
                if rng.random() < 0.3:
                    sk["gcons"].append({"lt": lt, "p": p, "n": 2, "t": tok(24, 0)})
            if rng.random() < 0.3 and lead is not None:
                sk["aux"] = [{"ax": [0], "t": tok(20, rng.choice([0, 1])), "b": None}]
            sk["gfam"] = True
            fields.append(sk)
            fid += 1
        for f in fields:
            normalise(rng, f)
        out.append({"fields": fields, "orders": [list(q) for q in itertools.permutations(range(k))],
                    "fam": "gathered-constructs"})
    return out


COUNTS = {0: [2, 1, 3], 1: [1, 3, 2], 2: [2, 1], 3: [1, 2]}


def compressed_family(rng, n):
    """Fields stored compressed, 2-3 per case, all orderings: gathered fields with equal or different list
    values whose compressed axes are the same, other axes of the same sizes, or axes of swapped sizes
    ((2,3) against (3,2)); ragged fields (contiguous / indexed) with equal or different counts whose
    instance-level coordinates are equal or different.  The compression variable may be shared only between
    fields for which it refers to the same dimensions."""
    out = []
    fid = 70000
    for j in range(n):
        k = rng.choice([2, 2, 3])
        fields = []
        if rng.random() < 0.55:
            lead = rng.choice([2, 3])
            p = rng.choice([1, 1, 0])
            lt0 = rng.choice([0, 1, 2])
            shape0 = rng.choice([(2, 3), (3, 2), (2, 2), (3, 3)])
            v0 = rng.choice([0, 1])
            for i in range(k):
                r = rng.random()
                shape = shape0 if r < 0.45 else (shape0[::-1] if r < 0.8 else rng.choice([(2, 3), (3, 2), (2, 2)]))
                lt = lt0 if rng.random() < 0.75 else rng.choice([0, 1, 2])
                v = v0 if rng.random() < 0.6 else rng.choice([0, 1, 2])
                cd = [{"t": tok(10, v), "b": None}, {"t": tok(11, v), "b": rng.choice([None, None, 4])}]
                ld = {"t": tok(6, rng.choice([0, 0, 1])), "b": None} if rng.random() < 0.8 else None
                sizes = ([lead] + list(shape)) if p == 1 else (list(shape) + [lead])
                dim = ([ld] + cd) if p == 1 else (cd + [ld])
                aux = [{"ax": [0 if p == 1 else 2], "t": tok(20, rng.choice([0, 1])), "b": None}] \
                    if rng.random() < 0.4 else []
                sk = F(fid, sizes, dim=dim, aux=aux)
                sk["cmp"] = {"kind": "gath", "t": lt, "p": p, "n": 2}
                fields.append(sk)
                fid += 1
            fam = "gathered"
        else:
            ct0 = rng.choice([0, 1, 2, 3])
            at0 = tok(20, rng.choice([0, 1]))
            kind0 = rng.choice(["cont", "idx"])
            for i in range(k):
                ct = ct0 if rng.random() < 0.75 else rng.choice([0, 1, 2, 3])
                kind = kind0 if rng.random() < 0.85 else rng.choice(["cont", "idx"])
                at = at0 if rng.random() < 0.45 else tok(rng.choice([20, 21]), rng.choice([0, 1, 2]))
                counts = COUNTS[ct]
                aux = [{"ax": [0], "t": at, "b": None}]
                if rng.random() < 0.3:
                    aux.append({"ax": [0], "t": tok(22, rng.choice([0, 1])), "b": None})
                sk = F(fid, [len(counts), max(counts)], dim=[None, None], aux=aux)
                sk["cmp"] = {"kind": kind, "t": ct}
                fields.append(sk)
                fid += 1
            fam = "ragged"
        for f in fields:
            normalise(rng, f)
        out.append({"fields": fields, "orders": [list(q) for q in itertools.permutations(range(k))],
                    "fam": "compressed-" + fam})
    return out


def external_measure_cases(rng, n):
    """a field whose cell measure is external (named in external_variables, no variable in the file) with a
    field whose internal cell measure, or other variable, asks for the same netCDF name; all orders; a
    third field with the same external measure now and then.  Oracle only."""
    out = []
    for j in range(n):
        d = {"t": tok(6, rng.choice([0, 1])), "b": None}
        nc = rng.randrange(6)
        size = rng.choice([2, 3])
        a = F(85000 + 10 * j, [size], dim=[dict(d)], meas=[{"ax": [0], "t": tok(25, 0), "nc": nc}])
        a["extm"] = True
        if rng.random() < 0.6:
            b = F(85001 + 10 * j, [size], dim=[dict(d)], meas=[{"ax": [0], "t": tok(26, rng.choice([0, 1])), "nc": nc}])
        else:
            b = F(85001 + 10 * j, [size], dim=[dict(d)], aux=[{"ax": [0], "t": tok(21, 0), "b": None, "nc": nc}])
        fields = [a, b]
        if rng.random() < 0.4:
            c = F(85002 + 10 * j, [size], dim=[dict(d)], meas=[{"ax": [0], "t": tok(25, 0), "nc": nc}])
            c["extm"] = True
            fields.append(c)
        out.append({"fields": fields, "orders": [list(q) for q in itertools.permutations(range(len(fields)))],
                    "fam": "external-measure-name"})
    return out


def indexed_contiguous_cases(rng, n):
    """indexed contiguous ragged fields (stations x profiles x elements): equal or different count variables,
    equal or different index variables, equal or different station coordinates (/repo commit 48e1fc0: a count
    variable is shared only together with its index variable).  Oracle only."""
    out = []
    for j in range(n):
        k = rng.choice([2, 3])
        ct0, i0, at0 = rng.choice([0, 1]), rng.choice([0, 1, 2]), tok(20, rng.choice([0, 1]))
        fields = []
        for i in range(k):
            sk = F(86000 + 10 * j + i, [2, 2, 3], dim=[None, None, None],
                   aux=[{"ax": [0], "t": at0 if rng.random() < 0.6 else tok(21, rng.choice([0, 1])), "b": None}])
            sk["cmp"] = {"kind": "idxcont", "t": ct0 if rng.random() < 0.8 else 1 - ct0,
                         "i": i0 if rng.random() < 0.4 else rng.choice([0, 1, 2])}
            sk["extm"] = False
            sk["nomodel"] = True
            fields.append(sk)
        out.append({"fields": fields, "orders": [list(q) for q in itertools.permutations(range(k))],
                    "fam": "indexed-contiguous"})
    return out


def geometry_cases():
    """example field 6 (geometry: node count, part node count, interior ring) against variants with the same
    counts and other node coordinates / other instance-level coordinates / other interior rings (equal
    nodes, /repo commit e7327dc); oracle only"""
    out = []
    for j, var in enumerate([[], ["nodes"], ["inst"], ["nodes", "inst"], ["ring"], ["ring", "inst"]]):
        out.append({"fields": [{"id": 9100 + 2 * j, "ex": 6}, {"id": 9101 + 2 * j, "ex": 6, "exvar": var or ["same"]}],
                    "orders": [[0, 1], [1, 0]], "fam": "geometry-variants"})
    return out


# ---- oracle helpers -----------------------------------------------------------
def descriptors(sk, fview):
    """netCDF variable name -> list of (kind, token, bounds token, shape) held for this field"""
    out = {}

    def add(name, kind, it, shape):
        if name is not None:
            out.setdefault(name, []).append((kind, it["t"], it.get("b"), tuple(shape)))
    di = 0
    for i, it in enumerate(sk["dim"]):
        if it is None:
            continue
        add(fview["dim"][di][0], "dim", it, [sk["sizes"][i]])
        if fview["dim"][di][1] is not None:
            out.setdefault(fview["dim"][di][1], []).append(("bnd", beff(it["t"], it["b"]), None, (sk["sizes"][i], 2)))
        di += 1
    for kind in ("scalar", "aux", "anc", "meas", "fanc"):
        for j, it in enumerate(sk.get(kind, [])):
            shape = [sk["sizes"][a] for a in it.get("ax", [])]
            add(fview[kind][j][0], kind, it, shape)
            if fview[kind][j][1] is not None:
                out.setdefault(fview[kind][j][1], []).append(("bnd", beff(it["t"], it.get("b")), None,
                                                             tuple(shape) + (2,)))
    return out


def compatible(d1, d2):
    if d1[1:] != d2[1:]:
        return False
    return d1[0] == d2[0] or "anc" in (d1[0], d2[0])


def flat_names(sk, fv):
    """netCDF names in the order of C09.Run.flat_vars; None if one is missing"""
    cs = [x[0] for x in fv["dim"]] + [x[0] for x in fv["scalar"]] + [x[0] for x in fv["aux"]] + \
         [x[0] for x in fv["anc"]]
    its = [it for it in sk["dim"] if it is not None] + sk["scalar"] + sk["aux"] + sk["anc"]
    names = cs + [x[0] for x in fv["meas"]] + [x[0] for x in fv["fanc"]] + fv["gm"] + fv["gm_extra"]
    bn = [x[1] for x in fv["dim"]] + [x[1] for x in fv["scalar"]] + [x[1] for x in fv["aux"]] + \
         [x[1] for x in fv["anc"]]
    for it, b in zip(its, bn):
        if (it.get("b") is not None) != (b is not None):
            return None
        if b is not None:
            names.append(b)
    return None if any(n is None for n in names) else names


def number(lists):
    tbl, out = {}, []
    for l in lists:
        out.append([tbl.setdefault(n, len(tbl)) for n in l])
    return out


def nontrivial(case):
    """at least two fields that have some construct descriptor in common, or a coordinate reference"""
    if any(sk.get("ex") is not None for sk in case["fields"]):
        return True      # the example fields share latitude / longitude / time variables
    ds = []
    for sk in case["fields"]:
        s = {("dim", it["t"], it["b"]) for it in sk["dim"] if it is not None}
        for k in ("aux", "anc", "meas", "fanc", "scalar"):
            s |= {(k if k != "anc" else "aux", it["t"], it.get("b")) for it in sk.get(k, [])}
        s |= {("gm", g["cc"], g["d"]) for g in sk.get("gm", [])}
        if sk.get("cmp") is not None:
            s.add(("cmp", sk["cmp"]["kind"], sk["cmp"]["t"]))
        ds.append(s)
    return any(ds[i] & ds[j] for i in range(len(ds)) for j in range(i + 1, len(ds)))


# ---- the check -----------------------------------------------------------------
def run(chk, model_ok):
    rng = chk.rng
    thorough = chk.tier == "thorough"
    ncases = 3600 if thorough else 140
    cases = corpus() + compressed_corpus() + example_cases(rng, thorough) + geometry_cases() + \
        gathered_constructs_family(rng, 400 if thorough else 24) + \
        external_measure_cases(random.Random(rng.random()), 60 if thorough else 6) + \
        indexed_contiguous_cases(random.Random(rng.random()), 100 if thorough else 8) + \
        bounds_family(rng, 400 if thorough else 24) + compressed_family(rng, 500 if thorough else 36)
    fid = 100
    for n in range(ncases):
        allow = rng.random() < 0.06
        c = gen_case(rng, fid, allow)
        c["fam"] = "ft-conflict-allowed" if allow else "generated"
        fid += 10
        cases.append(c)

    nw = 14
    shards = [cases[i::nw] for i in range(nw)]
    payloads = [{"scratch": os.path.join(chk.scratch, f"w{w}"), "cases": [{"fields": [clean(f) for f in c["fields"]],
                                                                          "orders": c["orders"]} for c in sh]}
                for w, sh in enumerate(shards)]
    res = lib.run_workers_parallel("drive/c09.py", payloads, timeout=3000)
    rows = [None] * len(cases)
    for w, (rc, out, err) in enumerate(res):
        if rc != 0 or len(out) != len(shards[w]):
            chk.fail("correspondence", "worker-crash",
                     f"C09 worker {w} failed rc={rc} after {len(out)}/{len(shards[w])} cases: {err[-600:]}",
                     {"correspondence": "drive/c09.py"})
        for j, row in enumerate(out):
            if j < len(shards[w]):
                rows[w + j * nw] = row

    stats = {"orderings": 0, "fields_written": 0, "shared_variables": 0, "single_unfaithful": 0,
             "write_errors": 0, "with_domain": 0, "families": {}, "sizes": {}, "features": {}}
    lits, lit_src = [], []
    clits, clit_src = [], []
    glits, glit_src = [], []
    conflict_queries = []      # (case index, failure records) classified by the model afterwards
    pending = []
    for ci, (c, r) in enumerate(zip(cases, rows)):
        if r is None:
            continue
        sks = c["fields"]
        stats["families"][c["fam"]] = stats["families"].get(c["fam"], 0) + 1
        stats["sizes"][len(sks)] = stats["sizes"].get(len(sks), 0) + 1
        isex = any(sk.get("ex") is not None or sk.get("extm") or sk.get("nomodel") for sk in sks)
        iscmp = any(sk.get("cmp") is not None or sk.get("gfam") for sk in sks)
        for sk in sks:
            if sk.get("ex") is not None:
                stats["features"]["example_field"] = stats["features"].get("example_field", 0) + 1
                continue
            for k in ("aux", "anc", "meas", "fanc", "scalar", "gm", "cm"):
                if sk.get(k):
                    stats["features"][k] = stats["features"].get(k, 0) + 1
            if sk.get("ft"):
                stats["features"]["ft"] = stats["features"].get("ft", 0) + 1
            if sk.get("gcons"):
                stats["features"]["gathered_construct"] = stats["features"].get("gathered_construct", 0) + 1
            if sk.get("cmp") is not None:
                kk = "compressed_" + sk["cmp"]["kind"]
                stats["features"][kk] = stats["features"].get(kk, 0) + 1
            if sk.get("gattr") is not None:
                stats["features"]["forced_global_attribute"] = stats["features"].get("forced_global_attribute", 0) + 1
            if any(it is not None and it.get("b") is not None for it in sk["dim"] + sk["aux"]):
                stats["features"]["bounds"] = stats["features"].get("bounds", 0) + 1
        if "harness_err" in r or "build_err" in r:
            chk.fail("correspondence", "harness-error", r.get("harness_err") or r.get("build_err"),
                     {"correspondence": "drive/c09.py", "input": c})
            continue
        hasdom = any(sk.get("dom") for sk in sks)
        stats["with_domain"] += hasdom
        singles = r["single"]
        for k, s in enumerate(singles):
            if not s["faithful"]:
                stats["single_unfaithful"] += 1
        exp_extra = sum((s.get("n") or 0) for s in singles)
        for o in r["orders"]:
            stats["orderings"] += 1
            stats["fields_written"] += len(o["order"])
            order = o["order"]
            fails = []
            if "write_exc" in o:
                stats["write_errors"] += 1
                if all(s.get("exc") is None for s in singles):
                    fails.append(("write-raises", f"cfdm.write of the list raised {o['write_exc']} although every "
                                  "field can be written on its own"))
            elif "read_exc" in o:
                fails.append(("read-raises", f"cfdm.read of the shared file raised {o['read_exc']}"))
            else:
                for p in o["per"]:
                    k = p["k"]
                    s = singles[k]
                    if s["faithful"] and p["n_equal"] != 1:
                        fails.append(("not-exactly-one-equal",
                                      f"field id {sks[k]['id']}: {p['n_equal']} equal constructs in the read-back"))
                    elif s.get("n") == 1 and p["n_fp_single"] != 1:
                        fails.append(("differs-from-single-file",
                                      f"field id {sks[k]['id']}: read-back differs from its single-file round trip"))
                    elif s["faithful"] and p["n_fp_orig"] != 1:
                        fails.append(("fingerprint-differs",
                                      f"field id {sks[k]['id']}: equals() holds but the fingerprint differs"))
                if not hasdom and o["nread"][0] != exp_extra:
                    fails.append(("extra-or-missing-constructs",
                                  f"{o['nread'][0]} fields read, the single files give {exp_extra}"))
                # sharing only between equal constructs (raw netCDF4 view)
                if "file" in o and all("err" not in fv for fv in o["file"]):
                    held = {}
                    for k, fv in zip(order, o["file"]):
                        for name, ds in descriptors(sks[k], fv).items():
                            for d in ds:
                                held.setdefault(name, []).append((k, d))
                    for name, lst in held.items():
                        if len({k for k, _ in lst}) > 1:
                            stats["shared_variables"] += 1
                        for (k1, d1), (k2, d2) in itertools.combinations(lst, 2):
                            if not compatible(d1, d2):
                                fails.append(("shared-unequal",
                                              f"netCDF variable {name} holds unequal constructs {d1} (field {sks[k1]['id']}) "
                                              f"and {d2} (field {sks[k2]['id']})"))
                                break
            # gathered items (data and constructs): each must be written on a list variable that holds its own
            # list values and names its own dimensions
            if "gfile" in o:
                ok_lit = model_ok
                for k, gv in zip(order, o["gfile"]):
                    sk = sks[k]
                    if "err" in gv:
                        ok_lit = False
                        continue
                    specs = ([(sk["cmp"]["t"], "data")] if sk.get("cmp") else []) + \
                            [(it["lt"], f"auxiliary coordinate t={it['t']}") for it in sk.get("gcons", [])]
                    for (lt, what), iv in zip(specs, gv["items"]):
                        if iv.get("list") is None:
                            fails.append(("gathered-item-without-list-variable",
                                          f"field id {sk['id']}: its {what} is not written on a list variable "
                                          f"(variable {iv.get('var')} on {iv.get('dims')})"))
                            ok_lit = False
                        elif iv["values"] != LISTS[lt] or (all(x is not None for x in iv["own"])
                                                           and iv["meaning"] != iv["own"]):
                            fails.append(("compression-variable-refers-to-other-dimensions",
                                          f"field id {sk['id']}: its {what} is written on list variable {iv['list']} = "
                                          f"{iv['values']} compress {iv['meaning']}; its own list is {LISTS[lt]} on {iv['own']}"))
                        if any(x is None for x in iv.get("own", [None])):
                            ok_lit = False
                if ok_lit:
                    odims = number([[d for iv in gv["items"] for d in iv["own"]] for gv in o["gfile"]])
                    ovars = number([[iv["list"] for iv in gv["items"]] for gv in o["gfile"]])
                    glits.append(f"([{'; '.join(g_cfield2(sks[k]) for k in order)}], {g_natlists(odims)}, "
                                 f"{g_natlists(ovars)})")
                    glit_src.append((ci, o))
            # compression variables: the variable a field uses must refer to the field's own dimensions
            if "cfile" in o:
                for k, cv in zip(order, o["cfile"]):
                    if "err" in cv or cv.get("meaning") is None or any(x is None for x in cv.get("own", [None])):
                        continue
                    if cv["meaning"] != cv["own"]:
                        fails.append(("compression-variable-refers-to-other-dimensions",
                                      f"field id {sks[k]['id']}: its {sks[k]['cmp']['kind']} compression variable {cv['cvar']} "
                                      f"refers to {cv['meaning']}, the field's own coordinates are on {cv['own']}"))
                if model_ok and all("err" not in cv and cv.get("cvar") is not None and cv.get("own")
                                    and all(x is not None for x in cv["own"]) for cv in o["cfile"]):
                    odims = number([cv["own"] for cv in o["cfile"]])
                    ovars = number([[cv["cvar"]] for cv in o["cfile"]])
                    clits.append(f"([{'; '.join(g_cfield(sks[k]) for k in order)}], {g_natlists(odims)}, "
                                 f"[{'; '.join(gnat(x[0]) for x in ovars)}])")
                    clit_src.append((ci, o))
            if fails:
                pending.append((ci, o, fails))
            # correspondence literal
            if model_ok and not hasdom and not isex and not iscmp and "file" in o and "per" in o and all("err" not in fv for fv in o["file"]):
                names = [flat_names(sks[k], fv) for k, fv in zip(order, o["file"])]
                views = [p["view"] for p in o["per"]]
                if any(n is None for n in names) or any(v is None for v in views):
                    lit_src.append((ci, o, None))
                    lits.append(None)
                else:
                    odims = number([fv["dims"][:len(sks[k]["sizes"])] for k, fv in zip(order, o["file"])])
                    ovars = number(names)
                    lits.append(f"([{'; '.join(g_field(sks[k]) for k in order)}], {g_natlists(odims)}, "
                                f"{g_natlists(ovars)}, [{'; '.join(g_view(v) for v in views)}])")
                    lit_src.append((ci, o, True))

    # classify property failures; the formula_terms class is decided by the model's own predicate
    explained = set()
    sig_of = {}
    if pending:
        qs = sorted({ci for ci, _, _ in pending
                     if all(sk.get("ex") is None and sk.get("cmp") is None and not sk.get("extm")
                            and not sk.get("gfam") for sk in cases[ci]["fields"])})
        flags = {}
        if model_ok:
            # (a domain is written through the same code: it takes part in the conflict like a field)
            ql = [f"[{'; '.join(g_field(sk) for sk in cases[ci]['fields'])}]" for ci in qs]
            bad = set(lib.coq_bad_indices("C09", REQ, "fun fs => negb (existsb (ft_conflict true) (perms_ fs))", ql,
                                          chunk=100, defs=PERMS_DEF))
            flags = {ci: (i in bad) for i, ci in enumerate(qs)}
        for ci, o, fails in pending:
            if any(sk.get("ex") is not None or sk.get("cmp") is not None or sk.get("extm") or sk.get("gfam")
                   for sk in cases[ci]["fields"]):
                conflict = False
            else:
                conflict = flags.get(ci, may_conflict_ft(cases[ci]["fields"]))
            for sig, what in fails:
                generic = ("not-exactly-one-equal", "differs-from-single-file", "shared-unequal",
                           "extra-or-missing-constructs", "fingerprint-differs")
                if conflict and sig in generic:
                    sig = "formula-terms-on-shared-coordinate"
                elif sig in generic and any(sk.get("extm") for sk in cases[ci]["fields"]):
                    sig = "external-variable-name-taken-by-internal-variable"
                chk.fail("property", sig, what, {"input": {"fields": [clean(f) for f in cases[ci]["fields"]],
                                                           "order": o["order"]},
                                                 "expected": "one equal construct per original, identical to its single-file round trip",
                                                 "observed": {"per": o.get("per"), "nread": o.get("nread")}})
            explained.add((ci, tuple(o["order"])))

    ncorr = 0
    n_guard = 0
    n_ccorr = 0
    if model_ok:
        idx = [i for i, l in enumerate(lits) if l is not None]
        bad = set(lib.coq_bad_indices("C09", REQ, "check_case", [lits[i] for i in idx], chunk=150))
        ncorr = len(idx)
        nbad = 0
        for j, i in enumerate(idx):
            if j in bad:
                ci, o, _ = lit_src[i]
                if (ci, tuple(o["order"])) in explained:
                    continue
                nbad += 1
                if nbad <= 25:
                    chk.fail("correspondence", "model-vs-impl",
                             "model and implementation disagree on the sharing partition or the read-back view",
                             {"correspondence": "C09.Run.check_case",
                              "input": {"fields": [clean(f) for f in cases[ci]["fields"]], "order": o["order"]},
                              "observed": {"file": o.get("file"), "per": o.get("per")}})
        # compression variables: sharing partition of list / count / index variables and of the dimensions
        # they refer to (repaired rule)
        cbad = set(lib.coq_bad_indices("C09", REQ, "check_ccase", clits, chunk=150)) if clits else set()
        n_ccorr = len(clits)
        for j in sorted(cbad):
            ci, o = clit_src[j]
            if (ci, tuple(o["order"])) in explained:
                continue
            chk.fail("correspondence", "model-vs-impl-compression",
                     "model and implementation disagree on which fields share a list / count / index variable",
                     {"correspondence": "C09.Run.check_ccase",
                      "input": {"fields": [clean(f) for f in cases[ci]["fields"]], "order": o["order"]},
                      "observed": {"cfile": o.get("cfile")}})
        gbad = set(lib.coq_bad_indices("C09", REQ, "check_gcase", glits, chunk=150)) if glits else set()
        n_ccorr += len(glits)
        for j in sorted(gbad):
            ci, o = glit_src[j]
            if (ci, tuple(o["order"])) in explained:
                continue
            chk.fail("correspondence", "model-vs-impl-compression",
                     "model and implementation disagree on the list variables of gathered data / constructs",
                     {"correspondence": "C09.Run.check_gcase",
                      "input": {"fields": [clean(f) for f in cases[ci]["fields"]], "order": o["order"]},
                      "observed": {"gfile": o.get("gfile")}})
        # the composition theorem on the same cases: how many are under its hypotheses, and (a direct
        # reading of the theorem against the implementation) the read-back equals [map expected fs]
        sel = [lits[i] for i in idx]
        not_guard = set(lib.coq_bad_indices("C09", REQ, "guard_case", sel, chunk=150))
        bad_spec = set(lib.coq_bad_indices("C09", REQ, "spec_case", sel, chunk=150))
        n_guard = len(idx) - len(not_guard)
        for j, i in enumerate(idx):
            if j in bad_spec and j not in bad:
                ci, o, _ = lit_src[i]
                if (ci, tuple(o["order"])) in explained:
                    continue
                chk.fail("correspondence", "spec-vs-impl",
                         "under the hypotheses of C09_composition the read-back view differs from Spec.expected",
                         {"correspondence": "C09.Run.spec_case",
                          "input": {"fields": [clean(f) for f in cases[ci]["fields"]], "order": o["order"]},
                          "observed": {"per": o.get("per")}})
        for i, l in enumerate(lits):
            if l is None:
                ci, o, _ = lit_src[i]
                if (ci, tuple(o["order"])) not in explained:
                    chk.fail("correspondence", "unmatched-variable",
                             "a construct of a written field could not be located in the file",
                             {"correspondence": "drive/c09.py raw_view",
                              "input": {"fields": [clean(f) for f in cases[ci]["fields"]], "order": o["order"]},
                              "observed": {"file": o.get("file")}})

    done = [(c, r) for c, r in zip(cases, rows) if r is not None]
    distinct = {lib.canon([clean(f, True) for f in c["fields"]]) for c, r in done if nontrivial(c)}
    ops = {}
    for c, r in done:
        for sk in c["fields"]:
            for o in sk.get("_ops", []):
                ops[o] = ops.get(o, 0) + 1
    chk.coverage.update({
        "evaluations": stats["orderings"],
        "distinct_nontrivial": len(distinct),
        "rule": "a case is a multiset of 2-5 field skeletons from a common pool (fresh, or an earlier field mutated by 0-2 "
                "operators: token variant = one value / one property / units differ, bounds added / removed / one value, forced global attribute set / changed / removed, "
                "construct dropped / added / transposed / duplicated on another equal-size axis, datum or grid mapping "
                "changed, dimension coordinate removed, domain ancillary reused as auxiliary coordinate, netCDF names set); "
                "every ordering for <= 3 fields, 5 orderings beyond; plus every pair of cfdm's writable example fields in both "
                "orders and sampled triples (oracle only), and triples with equal bounds on different same-size dimensions; "
                "an evaluation is one ordering written and read back; "
                "non-trivial = at least two of its fields have an equal construct descriptor (so something can be shared); "
                "distinct = distinct canonical skeleton lists (ids removed)",
        "samples": [clean(f) for f in done[len(done) // 2][0]["fields"]][:2] if done else [],
        "traces_validated_against_impl": ncorr + n_ccorr,
        "compressed_orderings_through_correspondence": n_ccorr,
        "orderings_under_composition_theorem_hypotheses": n_guard,
        "disagreements_checked": ncorr,
        "cases": len(done),
        "fields_written": stats["fields_written"],
        "shared_variable_instances": stats["shared_variables"],
        "single_file_round_trips_not_faithful": stats["single_unfaithful"],
        "write_errors": stats["write_errors"],
        "cases_with_domain": stats["with_domain"],
        "families": stats["families"],
        "multiset_sizes": stats["sizes"],
        "fields_with_feature": stats["features"],
        "mutation_operators": ops,
        "property_failures_by_signature": count_sigs(chk),
        "exhaustive": False,
        "historical_refutations": "C09/Refuted.v: witnesses against the reader's vertical_crs registry (F09a) and the "
                                  "dimension reuse rule (F09b) as they were at the pinned commit",
    })
    chk.assumptions += [
        "implementation.equal_components coincides with equality of component descriptors (type, token, shape, bounds token): "
        "arranged by the generator and re-checked on every run through the sharing observed in the files",
        "netCDF variable and dimension names are compared only up to renaming (name allocation is C08)",
        "model fragment: data axes with/without dimension coordinates, scalar coordinates, 1-d/2-d auxiliary coordinates, domain "
        "ancillaries, cell measures, field ancillaries, bounds, one formula-terms reference, up to two grid mappings with datums; "
        "domains, cell methods and netCDF names are exercised by the oracle only; geometries, ragged/gathered compression, "
        "groups, external variables, climatology and unlimited dimensions are outside this check (C06, C08, C11, C14)",
        "the unlimited flag of a shared dimension, chunking and other file-level hints are not part of the compared state",
        "known open finding: fields that share a coordinate variable but want different formula_terms on it (signature "
        "formula-terms-on-shared-coordinate)",
    ]


PERMS_DEF = """
Fixpoint ins_ {A} (x : A) (l : list A) : list (list A) :=
  match l with [] => [[x]] | y :: r => (x :: l) :: map (cons y) (ins_ x r) end.
Fixpoint perms_ {A} (l : list A) : list (list A) :=
  match l with [] => [[]] | x :: r => flat_map (ins_ x) (perms_ r) end.
"""


def count_sigs(chk):
    out = {}
    for f in chk.failures:
        if f.kind == "property":
            out[f.signature] = out.get(f.signature, 0) + 1
    return out


def clean(sk, drop_id=False):
    d = {k: v for k, v in sk.items() if not k.startswith("_")}
    if drop_id:
        d.pop("id", None)
    return d


def replay(chk, path):
    d = json.load(open(path))
    cases = []
    for x in d.get("cases", []):
        inp = x.get("input")
        if inp and "fields" in inp:
            cases.append({"fields": inp["fields"], "orders": [inp.get("order") or list(range(len(inp["fields"])))]})
    rc, out, err = lib.run_worker("drive/c09.py", {"scratch": chk.scratch, "cases": cases})
    bad = 0
    for c, r in zip(cases, out):
        for o in r.get("orders", []):
            ok = "per" in o and all(p["n_equal"] == 1 and p["n_fp_single"] == 1 for p in o["per"]) and \
                 o["nread"][0] == sum((s.get("n") or 0) for s in r["single"])
            print(("ok   " if ok else "FAIL ") + f"order {o['order']} ids {[f['id'] for f in c['fields']]}: "
                  + json.dumps([{k: p[k] for k in ('k', 'n_equal', 'n_fp_single')} for p in o.get("per", [])])
                  + f" nread={o.get('nread')} {o.get('write_exc') or o.get('read_exc') or ''}")
            bad += not ok
    return 1 if bad else 0
