"""C19 - inspection always works and creation commands rebuild the construct
(DESIGN.md section 4, C19)."""
import json

import lib
from lib import gz, gbool, gopt, glist, gstr

REQ = "From CfdmV Require Import Common.Base C19.Model C19.Run.\nOpen Scope string_scope."
DEPENDS = []
FIXED = "true"   # the model evaluated is the one of the repaired tree (handoff/C19-fix-*.diff, C19-fix2-*.diff)

N_EXAMPLE = 12
ARRAY_TYPES = ["dimension_coordinate", "auxiliary_coordinate", "cell_measure", "domain_ancillary",
               "field_ancillary", "domain_topology", "cell_connectivity"]
RESERVED = ("c", "b", "i", "mask")


# ------------------------------------------------------------------ printers
def gs(s):
    s = "".join(ch if 32 <= ord(ch) < 127 else "?" for ch in s)
    return gstr(s)


def g_osl(x):
    return "None" if x is None else "(Some " + glist(x, gs) + ")"


def g_ostr(x):
    return "None" if x is None else f"(Some {gs(x)})"


CT = {"dimension_coordinate": "TDim", "auxiliary_coordinate": "TAux", "cell_measure": "TMsr",
      "domain_ancillary": "TDanc", "domain_topology": "TTopo", "cell_connectivity": "TConn",
      "field_ancillary": "TFanc"}


def g_state(st):
    axes = glist(st["axes"], lambda a: f"mkAx {gs(a['key'])} {gs(a['id'])} {g_ostr(a['size'])}")
    cons = glist(st["cons"], lambda c: f"mkDc {gs(c['key'])} {CT[c['type']]} {gs(c['id'])} {g_osl(c['shape'])} {g_osl(c['bshape'])}")
    cax = glist(st["caxes"], lambda kv: f"({gs(kv[0])}, {glist(kv[1], gs)})")
    return (f"(mkDs {axes} {cons} {cax} {gbool(st['field'])} {gbool(st.get('has_data', False))} "
            f"{g_osl(st.get('data_axes'))})")


def g_err(e):
    e = (e or "OtherErr").split("@")[0]
    if e.startswith("OtherErr"):
        e = "OtherErr"
    return f"(Err {e})"


def g_sitems(items, err):
    if items is None:
        return g_err(err)
    return "(Ok (" + glist(items, lambda it: f"({gs(it[0])}, {gs(it[1])}, {g_osl(it[2])})") + " : list sitem))"


def g_ditems(items, err):
    if items is None:
        return g_err(err)
    return "(Ok (" + glist(items, lambda it: f"({gs(it[0])}, {gs(it[1])}, {g_osl(it[2])}, {g_osl(it[3])})") + " : list ditem))"


def g_tok(t):
    try:
        return gz(int(t, 16))
    except (ValueError, TypeError):
        # a literal that could not be evaluated: a token no getter value can have
        return gz(-1 - (abs(hash(str(t))) % 1000003))


def g_attr(a):
    if a[0] == "A1":
        return f"A1 {gs(a[1])} {g_tok(a[2])}"
    return f"A2 {gs(a[1])} {gs(a[2])} {g_tok(a[3])}"


def g_dtok(d):
    return f"({g_tok(d['tok'])}, {gbool(d['masked'])})"


def g_var(v):
    return f"(mkV {gs(v['cls'])} {glist(v['head'], g_attr)} {gopt(v['data'], g_dtok)} {glist(v.get('tail', []), g_attr)})"


FAM = {"plain": "FPlain", "data": "FData", "bounds": "FBounds", "coord": "FCoord"}


def g_acon(a):
    fam = a["fam"]
    if a["var"]["cls"] in ("DomainAxis", "CellMethod", "CoordinateReference"):
        fam = "plain"
    return (f"(mkA {g_var(a['var'])} {FAM[fam]} {glist(a['pre'], g_attr)} {gopt(a['bounds'], g_var)} "
            f"{gopt(a['ring'], g_var)} {glist(a['post'], g_attr)})")


def g_fld(f):
    items = glist(f["items"], lambda it: f"mkI {g_acon(it['con'])} {g_osl(it['axes'])} {g_ostr(it['key'])}")
    return f"(mkF {g_var(f['var'])} {glist(f['mid'], g_attr)} {items} {glist(f['post'], g_attr)})"


def g_abs(a):
    if a[0] == "fld":
        return f"(AFld {g_fld(a[1])})"
    if a[0] == "con":
        return f"(ACon {g_acon(a[1])})"
    return f"(AData {g_dtok(a[1])})"


def g_cmd(c):
    k = c[0]
    if k == "new":
        return f"CNew {gs(c[1])} {gs(c[2])}"
    if k == "data":
        return f"CData {gs(c[1])} {g_dtok(c[2])}"
    if k == "attr":
        return f"CAttr {gs(c[1])} ({g_attr(c[2])})"
    if k == "sub":
        return f"CSub {gs(c[1])} {gs(c[2])} {gs(c[3])}"
    return f"CInsert {gs(c[1])} {gs(c[2])} {g_osl(c[3])} {g_ostr(c[4])}"


def g_names(kw, cls):
    name = kw.get("name", {"Field": "field", "Domain": "domain", "Data": "data"}.get(cls, "c"))
    return (f"(mkN {gs(name)} {gs(kw.get('data_name', 'data'))} {gs(kw.get('bounds_name', 'b'))} "
            f"{gs(kw.get('interior_ring_name', 'i'))})")


def g_cres(c, pair=False):
    if c[0] == "err":
        return f"(CErr {c[1]})"
    if pair:
        return f"(COk ({gs(c[1][0])}, {gs(c[1][1])}))"
    return f"(COk {gs(c[1])})"


def g_ddata(st):
    u = st["units"]
    units = "UNone" if u[0] == "none" else ("UOther" if u[0] == "other" else f"(UStr {gs(u[1])})")
    shape = glist(st["shape"], lambda n: f"{int(n)}%nat")
    elems = glist(st["elems"], lambda e: "EMasked" if e is None else f"(EVal {gs(e)})")
    return (f"(mkDD {gbool(st['array'])} {units} {g_ostr(st['cal'])} {shape} {elems} "
            f"{g_cres(st['c1'])} {g_cres(st['c2'], True)} {g_cres(st['cm'])})")


def g_obs_text(o):
    if o[0] == "ok":
        return f"(Ok {gs(o[1])})"
    return g_err(o[1])


# ------------------------------------------------------------------ generators
def rand_kw(rng, cls, clash=False):
    """A keyword variant of creation_commands for an object of class cls."""
    kw = {}
    if rng.random() < 0.5:
        kw["namespace"] = rng.choice(["", "cfdm", "cfdm.", "xyz", "xyz.", "my_cfdm"])
    if rng.random() < 0.4:
        kw["indent"] = rng.choice([0, 1, 4, 7])
    if rng.random() < 0.4:
        kw["string"] = rng.random() < 0.5
    if cls != "Data" and rng.random() < 0.4:
        kw["header"] = rng.random() < 0.5
    pool = ["f", "x1", "obj", "d", "dd", "bb", "ir", "data", "field", "domain", "q_9"]
    if clash:
        pool = pool + list(RESERVED) * 3
    if rng.random() < 0.5:
        kw["name"] = rng.choice(pool)
    if cls != "Data" and cls not in ("DomainAxis", "CellMethod", "CoordinateReference"):
        if rng.random() < 0.4:
            kw["data_name"] = rng.choice(pool)
        if cls in ("DimensionCoordinate", "AuxiliaryCoordinate", "DomainAncillary") and rng.random() < 0.3:
            kw["bounds_name"] = rng.choice(pool)
            if rng.random() < 0.5:
                kw["interior_ring_name"] = rng.choice(pool)
    if not clash and names_clash(kw, cls):
        return rand_kw(rng, cls, clash)
    return kw


def names_clash(kw, cls):
    """True when the variable names requested are not pairwise distinct or use
    a name that creation_commands reserves: a refusal (ValueError) is then a
    legitimate answer."""
    default = {"Field": "field", "Domain": "domain", "Data": "data"}.get(cls, "c")
    names = [kw.get("name", default)]
    if cls == "Data":
        return names[0] == "mask"
    if cls in ("DomainAxis", "CellMethod", "CoordinateReference"):
        return False
    names += [kw.get("data_name", "data"), kw.get("bounds_name", "b"), kw.get("interior_ring_name", "i")]
    if cls in ("Field", "Domain"):
        names += ["c", "mask"]
    if "mask" in names[1:2]:
        return True
    mods = ("cfdm", "xyz", "my_cfdm")
    if any(n in mods for n in names):
        return True
    return len(set(names)) != len(names)


def cls_of_type(t):
    return "".join(w.capitalize() for w in t.split("_"))


PROP_POOL = [("standard_name", "air_temperature"), ("standard_name", "latitude"), ("long_name", "thing one"),
             ("long_name", "q"), ("axis", "X"), ("cf_role", "timeseries_id"), ("comment", "it's \"quoted\""),
             ("units", "K"), ("units", "days since 2000-01-01"), ("units", "hours since 1970-1-1 00:00"),
             ("units", "not a unit"), ("units", "days since when"), ("units", ""), ("calendar", "noleap"),
             ("calendar", "360_day"), ("calendar", "martian"), ("positive", "up"),
             ("valid_range", {"arr": [0, 100]}), ("add_offset", {"np": "float32", "v": 1.5}),
             ("scale", {"np": "int16", "v": 7}), ("flag_values", {"arr": [1, 2, 4]}), ("number", 3.5), ("count", 12),
             ("long_name", "two\nlines"), ("standard_name", "a\rb"), ("units", 5), ("units", {"np": "float32", "v": 2.5}),
             ("calendar", 7), ("valid_max", {"np": "float64", "v": "inf"}), ("valid_min", {"np": "float32", "v": "-inf"})]


def rand_props(rng, pmax=3):
    out = {}
    for _ in range(rng.choice([0, 0, 1, 1, 2, pmax])):
        k, v = rng.choice(PROP_POOL)
        out[k] = v
    return out


def rand_dataspec(rng, shape=None, reftime=False):
    kind = rng.choice(["f8", "f8", "f4", "i4", "i8", "i1", "u2", "b1", "str"])
    d = {"kind": kind, "start": rng.randint(0, 5)}
    if shape is not None:
        d["shape"] = shape
    if rng.random() < 0.25:
        d["mask"] = [rng.randint(0, 6) for _ in range(rng.choice([1, 2]))]
    if kind == "str" and rng.random() < 0.2:
        d["fill"] = rng.choice(["zz", "it's", ""])
    if kind in ("f8", "f4") and rng.random() < 0.2:
        d["special"] = {str(rng.randint(0, 5)): rng.choice(["nan", "inf", "-inf", "huge", "-huge"])
                        for _ in range(rng.choice([1, 1, 2]))}
    if kind != "str" and kind != "b1":
        r = rng.random()
        if r < 0.2 or reftime:
            d["units"] = rng.choice(["days since 2000-01-01", "hours since 1970-01-01 00:00:00", "days since 1-1-1",
                                     "seconds since 1999-12-31T23:59:59", "days since bad", "since"])
            if rng.random() < 0.5:
                d["calendar"] = rng.choice(["noleap", "360_day", "gregorian", "standard", "martian", "julian"])
        elif r < 0.4:
            d["units"] = rng.choice(["m", "K", "degrees_north", "1", "not a unit", "kg m-2 s-1"])
        elif r < 0.45:
            d["calendar"] = "noleap"
        elif r < 0.5:
            d["units"] = rng.choice([{"np": "int64", "v": 5}, {"np": "float64", "v": 0.5}])
        if kind in ("f8", "f4", "i4", "i8") and rng.random() < 0.15:
            d["fill"] = rng.choice([-99, 9999])
    return d


def rand_shape(rng):
    r = rng.random()
    if r < 0.1:
        return []
    if r < 0.17:
        return [0]
    if r < 0.3:
        return [1]
    return [rng.choice([1, 2, 3, 5]) for _ in range(rng.choice([1, 1, 2, 2, 3]))]


def rand_construct_spec(rng, t=None, shape=None, standalone=True):
    t = t or rng.choice(ARRAY_TYPES)
    spec = {"type": t, "props": rand_props(rng)}
    if rng.random() < 0.5:
        spec["ncvar"] = rng.choice(["lat", "v1", "a_b", "time_1", "it's", "w\\z", "/grp/x"])
    if shape is None:
        shape = rand_shape(rng)
    if t == "dimension_coordinate" and len(shape) != 1:
        shape = [rng.choice([1, 2, 3, 5])]     # dimension coordinates are 1-d
    if rng.random() < 0.8:
        spec["data"] = rand_dataspec(rng, shape)
    if t in ("dimension_coordinate", "auxiliary_coordinate", "domain_ancillary") and 0 not in shape and rng.random() < 0.5:
        spec["bounds"] = dict(rand_dataspec(rng, shape + [rng.choice([2, 2, 4])]), trail=[2])
        spec["bounds"].pop("calendar", None)
        if rng.random() < 0.4:
            spec["bncvar"] = rng.choice(["lat_bnds", "bnds"])
        if rng.random() < 0.2:
            spec["bprops"] = {"long_name": "bounds of it"}
    if t == "cell_measure":
        if rng.random() < 0.8:
            spec["measure"] = rng.choice(["area", "volume"])
        if "data" not in spec and rng.random() < 0.5:
            spec["external"] = True
    if t in ("dimension_coordinate", "auxiliary_coordinate"):
        if rng.random() < 0.1 and "bounds" in spec:
            spec["clim"] = True
        if t == "auxiliary_coordinate" and rng.random() < 0.1:
            spec["geometry"] = rng.choice(["polygon", "line", "point"])
    if t == "domain_topology" and rng.random() < 0.8:
        spec["cell"] = rng.choice(["face", "edge", "point"])
    if t == "cell_connectivity" and rng.random() < 0.8:
        spec["conn"] = "edge"
    return spec


def rand_cell_method(rng, naxes=0):
    spec = {}
    if rng.random() < 0.9:
        spec["method"] = rng.choice(["mean", "maximum", "point", "sum"])
    if rng.random() < 0.85:
        pool = ["area", "time", "longitude"] + list(range(naxes))
        spec["axes"] = [rng.choice(pool) for _ in range(rng.choice([1, 1, 2]))]
    q = {}
    if rng.random() < 0.3:
        q["within"] = rng.choice(["years", "days"])
    if rng.random() < 0.3:
        q["where"] = "land"
    if rng.random() < 0.2:
        q["over"] = "years"
    if rng.random() < 0.2:
        q["comment"] = rng.choice(["a comment", "it's"])
    if rng.random() < 0.35:
        q["interval"] = [[rng.choice([1, 0.5, 6]), rng.choice(["hr", "degrees", "days"])]
                         for _ in range(rng.choice([1, 1, 2]))]
        if rng.random() < 0.3:
            spec["interval_tuple"] = True
    if q:
        spec["quals"] = q
    return spec


def rand_cref(rng, coord_keys=(), danc_keys=()):
    spec = {}
    if rng.random() < 0.5:
        spec["ncvar"] = rng.choice(["crs", "rotated_pole"])
    ck = list(coord_keys) or ["dimensioncoordinate0", "auxiliarycoordinate1"]
    if rng.random() < 0.8:
        spec["coords"] = sorted(set(rng.choice(ck) for _ in range(rng.choice([1, 2]))))
    vals = [6371007, 38.0, "rotated_latitude_longitude", {"np": "float64", "v": 190.0}, {"np": "int64", "v": 6371007},
            {"arr": [20.0, 50.0]}, {"data": 6371007, "units": "m"}, {"data": [1.5, 2.5]}]
    if rng.random() < 0.6:
        spec["datum"] = {k: rng.choice(vals) for k in rng.sample(["earth_radius", "semi_major_axis", "towgs84"], rng.choice([1, 2]))}
    if rng.random() < 0.7:
        spec["conv"] = {k: rng.choice(vals) for k in rng.sample(
            ["grid_mapping_name", "grid_north_pole_latitude", "standard_parallel", "standard_name"], rng.choice([1, 2, 3]))}
    if rng.random() < 0.4:
        dk = list(danc_keys) or ["domainancillary0", "domainancillary1"]
        spec["convanc"] = {t: rng.choice(dk) for t in rng.sample(["a", "b", "orog"], rng.choice([1, 2]))}
    return spec


def rand_skeleton(rng, tags):
    """An ab initio field or domain, complete or partially built."""
    sk = {"domain": rng.random() < 0.25}
    naxes = rng.choice([0, 1, 2, 2, 3, 3, 4])
    custom = rng.random() < 0.15
    axes = []
    for k in range(naxes):
        a = {"size": rng.choice([1, 2, 3, 3, 5])}
        if rng.random() < 0.4:
            a["ncdim"] = rng.choice(["x", "y", "t", "dim"])   # repeats wanted
        if rng.random() < 0.1:
            a["unlim"] = True
        if custom:
            a["key"] = rng.choice([f"ax{k}", f"my_axis_{'abcde'[k]}", f"domainaxis{k + 5}"])
        axes.append(a)
    if rng.random() < 0.07:
        axes.append({"size": None, "ncdim": rng.choice([None, "nosize"])})
        tags.add("axis-without-size")
    sk["axes"] = axes
    sk["props"] = rand_props(rng)
    if rng.random() < 0.6:
        sk["ncvar"] = rng.choice(["tas", "q", "v 1", "it's"])
    sized = [k for k, a in enumerate(axes) if a.get("size") is not None]
    if not sk["domain"] and rng.random() < 0.8:
        if sized and rng.random() < 0.85:
            n = rng.randint(0, min(3, len(sized)))
            d = rand_dataspec(rng)
            d["axes"] = rng.sample(sized, n)
            sk["data"] = d
        else:
            d = rand_dataspec(rng, rand_shape(rng))
            d["axes"] = None
            d["drop_axes"] = True
            sk["data"] = d
            tags.add("field-data-without-axes")
    cons = []
    used_dim = set()
    for _ in range(rng.choice([0, 1, 2, 3, 4, 5, 6])):
        t = rng.choice(ARRAY_TYPES if not sk["domain"] else [x for x in ARRAY_TYPES if x != "field_ancillary"])
        no_axes = rng.random() < 0.12 or not sized
        if t == "dimension_coordinate":
            free = [k for k in sized if k not in used_dim]
            if not free:
                no_axes = True
            ax = [rng.choice(free)] if not no_axes else None
            if ax:
                used_dim.add(ax[0])
        else:
            ax = None if no_axes else rng.sample(sized, rng.randint(1 if t != "field_ancillary" else 0, min(2, len(sized))))
            if ax is not None and t in ("domain_topology", "cell_connectivity"):
                ax = ax[:1]
        shape = [axes[k]["size"] for k in ax] if ax is not None else ([3] if t == "dimension_coordinate" else rand_shape(rng))
        spec = rand_construct_spec(rng, t, shape, standalone=False)
        if t in ("domain_topology", "cell_connectivity") and "data" in spec and ax is not None:
            spec["data"]["trail"] = [rng.choice([2, 3])]
        spec["axes"] = ax
        if ax is None:
            tags.add("missing-axes")
        if rng.random() < 0.3:
            spec["props"].pop("standard_name", None)
        if custom and rng.random() < 0.6:
            spec["key"] = rng.choice(["alpha", "beta", "key_x", f"{t[:3]}9", "n2"]) + rng.choice(["", "", "7"])
            tags.add("custom-keys")
        cons.append(spec)
    # no two constructs under one custom key
    seen = set()
    for c in cons:
        if c.get("key") is not None and c["key"] in seen:
            c.pop("key")
        seen.add(c.get("key"))
    sk["constructs"] = cons
    if not sk["domain"]:
        ncm = rng.choice([0, 0, 1, 2, 2, 3]) if rng.random() > 0.06 else rng.randint(11, 13)
        sk["cell_methods"] = [rand_cell_method(rng, len(axes)) for _ in range(ncm)]
        if ncm > 1 and rng.random() < 0.35:
            keys = [f"cellmethod{i}" for i in range(ncm)]
            rng.shuffle(keys)
            for cm, k in zip(sk["cell_methods"], keys):
                cm["key"] = k
        if ncm > 1:
            tags.add("several-cell-methods")
        if rng.random() < 0.15:
            sk["globals"] = {"Conventions": None, "history": "made up"}
    sk["crefs"] = [rand_cref(rng) for _ in range(rng.choice([0, 0, 1, 2]))]
    return sk


def rand_select(rng):
    r = rng.random()
    if r < 0.3:
        return []
    if r < 0.4:
        return [["domain"]]
    if r < 0.45:
        return [["data"]]
    t = rng.choice(ARRAY_TYPES + ["domain_axis", "cell_method", "coordinate_reference", "dimension_coordinate",
                                  "auxiliary_coordinate"])
    sel = [["nth", t, rng.randint(0, 5)]]
    r = rng.random()
    if r < 0.15 and t in ("dimension_coordinate", "auxiliary_coordinate", "domain_ancillary"):
        sel.append(["bounds"])
    elif r < 0.3 and t in ARRAY_TYPES:
        sel.append(["data"])
    return sel


def rand_mods(rng, tags):
    mods = []
    for _ in range(rng.choice([0, 1, 1, 2, 3])):
        r = rng.random()
        t = rng.choice(ARRAY_TYPES[:4])
        if r < 0.15:
            mods.append(["del_data", None])
            tags.add("missing-data")
        elif r < 0.25:
            mods.append(["del_axes", None])
            tags.add("field-data-without-axes")
        elif r < 0.4:
            mods.append(["clear_props", None])
            tags.add("no-identity")
        elif r < 0.5:
            mods.append(["del_nc", None])
        elif r < 0.6:
            mods.append(["set_prop", None, "units", rng.choice(["days since 2001-01-01", "bad units", "since"])])
            tags.add("reftime")
        elif r < 0.68:
            mods.append(["set_prop", None, "calendar", rng.choice(["noleap", "martian"])])
        elif r < 0.75:
            mods.append(["subspace0"])
            tags.add("size-1")
        elif r < 0.8:
            mods.append(["squeeze"])
        elif r < 0.87:
            mods.append(["set_data", None, {"kind": "str"}])
            tags.add("string-data")
        elif r < 0.93:
            mods.append(["mask", None])
        else:
            mods.append(["globals", {"history": "x", "Conventions": None}])
    return mods


def build_cases(chk):
    import os
    rng = chk.rng
    thorough = chk.tier == "thorough"
    scale = float(os.environ.get("VERIF_C19_SCALE", "1"))   # development knob only
    cases = []

    def N(quick, deep):
        return max(1, int((deep if thorough else quick) * scale))

    def add(fam, base, mods=(), select=(), kws=None, tags=(), clash=False):
        cases.append({"fam": fam, "base": base, "mods": list(mods), "select": list(select),
                      "kws": kws, "tags": sorted(tags), "clash": clash})

    # ---- corpus: minimised past failures
    sk_f19a = {"axes": [{"size": 3}], "constructs": [{"type": "dimension_coordinate", "axes": None, "data": {"shape": [3]}}]}
    add("corpus", ["skeleton", sk_f19a], kws=[{}], tags=["missing-axes"])
    add("corpus", ["skeleton", sk_f19a], select=[["domain"]], kws=[{}], tags=["missing-axes"])
    add("corpus", ["skeleton", {"axes": [{"size": 3}, {"size": 2}], "data": {"axes": [0, 1]},
                                "constructs": [{"type": "field_ancillary", "axes": None, "data": {"shape": [3, 2]}},
                                               {"type": "auxiliary_coordinate", "axes": None, "bounds": {"shape": [3, 2]}}]}],
        kws=[{}], tags=["missing-axes"])
    add("corpus", ["example", 1], select=[["nth", "auxiliary_coordinate", 0]],
        kws=[{"name": "x1"}, {"data_name": "dd", "bounds_name": "bb"}], tags=["coordinate-names"])
    add("corpus", ["example", 0], select=[["nth", "dimension_coordinate", 0]],
        kws=[{"name": "x1", "data_name": "dd", "bounds_name": "bb", "interior_ring_name": "ir"}], tags=["coordinate-names"])
    add("corpus", ["readback", 1], kws=[{}], tags=["numpy-valued-parameter"])
    add("corpus", ["construct", {"type": "dimension_coordinate", "props": {"a": {"np": "float32", "v": 1.5},
                                                                             "b": {"arr": [1.5, 2]}}}],
        kws=[{}], tags=["numpy-valued-property"])
    add("corpus", ["construct", {"type": "dimension_coordinate", "ncvar": "it's"}], kws=[{}], tags=["quote-in-ncvar"])
    add("corpus", ["cell_method", {"axes": ["area"], "method": "mean", "quals": {"interval": [[1, "hr"]]},
                                   "interval_tuple": True}], kws=[{}], tags=["interval-tuple"])
    add("corpus", ["cref", {"datum": {"earth_radius": {"data": 6371007, "units": "m"}}}], kws=[{}], tags=["data-valued-parameter"])
    add("corpus", ["skeleton", {"axes": [{"size": 3, "key": "x"}], "constructs": [
        {"type": "auxiliary_coordinate", "axes": [0], "key": "p", "props": {"long_name": "q"}, "data": {}},
        {"type": "auxiliary_coordinate", "axes": [0], "key": "q", "props": {"long_name": "q"}, "data": {}}]}],
        kws=[{}], tags=["custom-keys"])
    add("corpus", ["skeleton", {"axes": [{"size": 3, "key": "x", "ncdim": "d"}, {"size": 3, "key": "y", "ncdim": "d"}]}],
        kws=[{}], tags=["custom-keys"])
    add("corpus", ["empty", "Data"], kws=[], tags=["data-without-array"])
    add("corpus", ["data", {"shape": [3], "kind": "f8", "inf": True}], kws=[{}], tags=["nonfinite-data"])

    # ---- corpus of the deepening pass (seeded changes C19-s1..s3 and the defects repaired by C19-fix2-*)
    U0 = "days since 2000-01-01"
    add("corpus", ["data", {"kind": "f8", "shape": [3], "units": U0, "calendar": "noleap", "special": {"1": "huge"}}],
        kws=[{}], tags=["reftime-elements"])
    add("corpus", ["data", {"kind": "f8", "shape": [1, 3], "units": U0, "special": {"1": "huge"}}], kws=[{}], tags=["reftime-elements"])
    add("corpus", ["data", {"kind": "f8", "shape": [1], "units": U0, "special": {"0": "nan"}}], kws=[{}], tags=["reftime-elements"])
    add("corpus", ["data", {"kind": "f8", "shape": [3], "units": U0, "special": {"1": "inf"}}], kws=[{}], tags=["reftime-elements"])
    add("corpus", ["construct", {"type": "dimension_coordinate", "props": {"units": 5}, "data": {"kind": "f8", "shape": [2]}}],
        kws=[{}], tags=["non-string-units"])
    add("corpus", ["construct", {"type": "field_ancillary", "props": {"units": U0, "calendar": 7}, "data": {"kind": "f8", "shape": [2]}}],
        kws=[{}], tags=["non-string-units"])
    add("corpus", ["data", {"kind": "b1", "shape": [2], "mask": [1]}], kws=[{}], tags=["masked-boolean"])
    add("corpus", ["data", {"kind": "str", "shape": [2], "fill": "zz"}], kws=[{}], tags=["string-fill-value"])
    add("corpus", ["example", 0], mods=[["set_prop", None, "standard_name", "a\nb"]], kws=[{}, {"header": False}],
        tags=["newline-in-identity"])
    add("corpus", ["construct", {"type": "cell_measure", "measure": "area", "ncvar": "areacella", "external": True}],
        kws=[{}], tags=["external-cell-measure"])
    CM = lambda i, ax="domainaxis0": {"axes": [ax], "method": ["mean", "maximum", "minimum", "sum", "variance", "median"][i % 6],
                                      "quals": {"comment": f"step {i}"}}
    add("corpus", ["example", 0], mods=[["del_cms"], ["insert_cm", CM(0), "cellmethod1"], ["insert_cm", CM(1), "cellmethod0"]],
        kws=[{}, {"header": False}], tags=["cell-method-order"])
    add("corpus", ["example", 0], mods=[["insert_cm", CM(i, f"domainaxis{i % 2}")] for i in range(11)],
        kws=[{}, {"namespace": "", "string": False}], tags=["cell-method-order"])
    CLIM = [["insert_cm", {"axes": ["domainaxis2"], "method": "minimum", "quals": {"within": "years"}}],
            ["insert_cm", {"axes": ["domainaxis2"], "method": "mean", "quals": {"over": "years"}}]]
    add("corpus", ["example", 0], mods=CLIM + [["copy"]], kws=[{}], tags=["climatology"])
    add("corpus", ["example", 0], mods=CLIM + [["copy"]], select=[["domain"]], kws=[{}], tags=["climatology"])
    add("corpus", ["example", 0], mods=CLIM, select=[["nth", "dimension_coordinate", 2]], kws=[{}], tags=["climatology"])

    # ---- reference-time data of every small size; each position in turn holds an unconvertible / huge /
    #      NaN / infinite / masked value; with and without calendar; rows, columns, bad units, bad calendar
    rt = []
    for n in range(0, 6):
        shapes = [[n], [1, n], [n, 1]] if n else [[0], [1, 0]]
        for shape in shapes:
            for cal in (None, "noleap", "martian"):
                for units in (U0, "days since when"):
                    if (cal == "martian" or units != U0) and shape != [n]:
                        continue
                    base = {"kind": "f8", "shape": shape, "units": units, "start": 2}
                    if cal:
                        base["calendar"] = cal
                    rt.append(base)
                    for pos in range(n):
                        for bad in ("nan", "inf", "-inf", "huge", "-huge", "masked"):
                            d = dict(base)
                            if bad == "masked":
                                d["mask"] = [pos]
                            else:
                                d["special"] = {str(pos): bad}
                            rt.append(d)
    primary = [d for d in rt if len(d["shape"]) == 1 and d["units"] == U0 and d.get("calendar") != "martian"
               and (d.get("special") or {"x": "-huge"}).get(next(iter(d.get("special") or {"x": 0})), "") not in ("-inf", "-huge")]
    others = [d for d in rt if d not in primary]
    rng.shuffle(others)
    for d in primary + others[:N(120, 100000)]:
        add("reftime-elements", ["data", d], kws=[{}] if d["shape"] != [0, 2] else [], tags=["reftime-elements"])
    # ... and the same data inside a coordinate (with bounds) of a field and of its domain
    inside = list(primary)
    rng.shuffle(inside)
    for d in inside[:N(40, 400)]:
        n = d["shape"][0]
        props = {"standard_name": "time", "units": d["units"]}
        if d.get("calendar"):
            props["calendar"] = d["calendar"]
        con = {"type": "dimension_coordinate", "axes": [0], "props": props, "data": dict(d)}
        if n and rng.random() < 0.5:
            con["bounds"] = dict(d, trail=[2])
            con["bounds"].pop("calendar", None)
        sk = {"axes": [{"size": n}], "data": {"kind": "f4", "axes": [0]}, "constructs": [con]}
        add("reftime-elements", ["skeleton", sk], select=rng.choice([[], [["domain"]], [["nth", "dimension_coordinate", 0]]]),
            kws=[{}], tags=["reftime-elements"])

    # ---- cell methods whose keys do not sort into application order
    for n in range(N(24, 120)):
        ex = rng.choice([0, 1, 2, 3, 5, 7])
        mods = [["del_cms"]] if rng.random() < 0.5 else []
        r = rng.random()
        if r < 0.4:
            k = rng.randint(11, 14)
            mods += [["insert_cm", CM(i, f"domainaxis{i % 2}")] for i in range(k)]
        else:
            k = rng.randint(2, 6)
            keys = [f"cellmethod{i}" for i in range(k)] if r < 0.8 else rng.sample(["zeta", "alpha", "cm_9", "cm_10", "b2", "a7", "M"], k)
            rng.shuffle(keys)
            mods += [["insert_cm", CM(i, f"domainaxis{i % 2}"), keys[i]] for i in range(k)]
        add("cell-method-order", ["example", ex], mods=mods, kws=[{}, rand_kw(rng, "Field")], tags=["cell-method-order"])

    # ---- coordinate references with Data-valued datum AND conversion parameters under every namespace variant
    CREF = {"ncvar": "crs", "coords": ["dimensioncoordinate0", "dimensioncoordinate1"],
            "datum": {"earth_radius": {"data": 6371.007, "units": "km"}, "towgs84": {"data": [1.5, 2.5]}},
            "conv": {"grid_mapping_name": "polar_stereographic", "false_easting": {"data": 500.0, "units": "km"},
                     "standard_parallel": {"data": [20.0, 50.0], "units": "degrees_north"}}}
    for ns in (None, "", "cfdm", "cfdm.", "xyz", "xyz.", "my_cfdm"):
        kw = {} if ns is None else {"namespace": ns}
        add("cref-data-params", ["cref", CREF], kws=[kw, dict(kw, header=False), dict(kw, string=False, indent=4)],
            tags=["data-valued-parameter"])
        add("cref-data-params", ["cref", {"datum": CREF["datum"]}], kws=[kw], tags=["data-valued-parameter"])
        add("cref-data-params", ["cref", {"conv": CREF["conv"]}], kws=[kw], tags=["data-valued-parameter"])
        add("cref-data-params", ["example", 0], mods=[["insert_cref", CREF]], kws=[kw, dict(kw, header=False)],
            tags=["data-valued-parameter"])
        add("cref-data-params", ["example", 0], mods=[["insert_cref", CREF]], select=[["domain"]], kws=[kw],
            tags=["data-valued-parameter"])

    # ---- climatological time: copies, domains
    for ex in (0, 2, 7):
        f = {0: "domainaxis2", 2: "domainaxis0", 7: "domainaxis0"}[ex]
        clim = [["insert_cm", {"axes": [f], "method": "minimum", "quals": {"within": "years"}}],
                ["insert_cm", {"axes": [f], "method": "mean", "quals": {"over": "years"}}]]
        for sel in ([], [["domain"]]):
            add("climatology", ["example", ex], mods=clim + [["copy"]], select=sel, kws=[{}], tags=["climatology"])
            add("climatology", ["example", ex], mods=clim, select=sel, kws=[{}], tags=["climatology"])

    # ---- example fields: every part, default and random keyword variants
    parts = [[], [["domain"]], [["data"]]]
    for n in range(N_EXAMPLE):
        for sel in parts:
            cls = "Field" if not sel else ("Domain" if sel[0][0] == "domain" else "Data")
            add("example", ["example", n], select=sel, kws=[{}, rand_kw(rng, cls)], tags=[f"example{n}"])
        for t in ARRAY_TYPES + ["domain_axis", "cell_method", "coordinate_reference"]:
            for k in range(2 if not thorough else 5):
                cls = cls_of_type(t)
                add("example-construct", ["example", n], select=[["nth", t, k]], kws=[{}, rand_kw(rng, cls)],
                    tags=[f"example{n}"])
        for t in ("dimension_coordinate", "auxiliary_coordinate", "domain_ancillary"):
            add("example-bounds", ["example", n], select=[["nth", t, rng.randint(0, 3)], ["bounds"]],
                kws=[{}, rand_kw(rng, "Bounds")], tags=[f"example{n}"])
            add("example-data", ["example", n], select=[["nth", t, rng.randint(0, 3)], ["data"]],
                kws=[{}, rand_kw(rng, "Data")], tags=[f"example{n}"])
    # components of geometry and compressed example fields
    for n, sel in [(6, [["nth", "auxiliary_coordinate", 0], ["ring"]]),
                   (6, [["nth", "auxiliary_coordinate", 0], ["call", "get_node_count"]]),
                   (6, [["nth", "auxiliary_coordinate", 0], ["call", "get_part_node_count"]]),
                   (6, [["nth", "auxiliary_coordinate", 1], ["bounds"], ["data"], ["source"]]),
                   (3, [["data"], ["source"]]), (4, [["data"], ["source"]]), (5, [["data"], ["source"]]),
                   (1, [["nth", "coordinate_reference", 0], ["attr", "datum"]]),
                   (1, [["nth", "coordinate_reference", 1], ["attr", "coordinate_conversion"]])]:
        add("example-component", ["example", n], select=sel, kws=[{}], tags=[f"example{n}"])
    # DSG fields compressed in memory, and read back from a file written compressed
    for n, method in [(3, "contiguous"), (3, "indexed"), (4, "indexed_contiguous")]:
        for sel in ([], [["data"]], [["data"], ["source"]], [["domain"]], [["nth", "auxiliary_coordinate", 1]],
                    [["nth", "auxiliary_coordinate", 1], ["data"], ["source"]]):
            add("compressed", ["example", n], mods=[["compress", method]], select=sel, kws=[{}], tags=["compressed"])
            add("compressed", ["readback", n, [["compress", method]]], select=sel, kws=[{}], tags=["compressed", "readback"])
    for n in range(8):
        add("file-array", ["readback", n], select=[["data"], ["source"]], kws=[], tags=["readback"])

    # ---- example fields made partial
    for _ in range(N(120, 500)):
        tags = set()
        n = rng.randrange(N_EXAMPLE)
        mods = rand_mods(rng, tags)
        sel = rand_select(rng)
        if any(m[0] in ("subspace0", "squeeze") for m in mods) and n >= 8:
            n = rng.randrange(8)
        add("example-partial", ["example", n], mods=mods, select=sel, tags=tags | {f"example{n}"})

    # ---- read back from files written from example fields
    for n in range(8):
        rt = ["geometry-readback"] if n == 6 else ["readback"]
        add("readback", ["readback", n], kws=[{}, rand_kw(rng, "Field")], tags=rt)
        add("readback", ["readback", n], select=[["domain"]], kws=[{}], tags=rt)
        for _ in range(4 if not thorough else 12):
            add("readback", ["readback", n], select=rand_select(rng), tags=rt)

    # ---- ab initio fields and domains, complete and partially built
    for _ in range(N(400, 1800)):
        tags = set()
        sk = rand_skeleton(rng, tags)
        sel = [] if rng.random() < 0.7 else ([["domain"]] if not sk["domain"] else [])
        add("skeleton", ["skeleton", sk], select=sel, tags=tags)

    # ---- stand-alone constructs and data
    for _ in range(N(350, 1400)):
        r = rng.random()
        if r < 0.45:
            spec = rand_construct_spec(rng)
            add("standalone", ["construct", spec], tags=["standalone"])
        elif r < 0.6:
            add("standalone", ["cell_method", rand_cell_method(rng)], tags=["standalone"])
        elif r < 0.75:
            add("standalone", ["cref", rand_cref(rng)], tags=["standalone"])
        elif r < 0.9:
            add("standalone", ["data", rand_dataspec(rng, rand_shape(rng))], tags=["standalone"])
        else:
            add("standalone", ["axis", {"size": rng.choice([None, 1, 7]), "ncdim": rng.choice([None, "x", "it's"]),
                                         "unlim": rng.random() < 0.3}], tags=["standalone"])

    # ---- malformed stream: clashing variable names (refusals), odd units
    for _ in range(N(90, 350)):
        r = rng.random()
        if r < 0.4:
            add("clash", ["example", rng.randrange(8)], select=rng.choice([[], [["domain"]]]), clash=True, tags=["name-clash"])
        elif r < 0.7:
            t = rng.choice(["dimension_coordinate", "auxiliary_coordinate", "domain_ancillary", "cell_measure", "field_ancillary"])
            add("clash", ["example", rng.choice([1, 6, 7])], select=[["nth", t, rng.randint(0, 3)]], clash=True, tags=["name-clash"])
        else:
            spec = rand_dataspec(rng, rand_shape(rng))
            if spec["kind"] != "b1":
                spec["mask"] = [0]
            add("clash", ["data", spec], clash=True, tags=["name-clash"])
    return cases


def finish_kws(chk, cases, inventory):
    """Choose the keyword variants of cases that left them open (needs the class,
    which is only known after selection: use the base kind as a guide)."""
    rng = chk.rng
    for c in cases:
        if c["kws"] is not None:
            continue
        sel = c["select"]
        cls = "Field"
        if c["base"][0] in ("construct",):
            cls = cls_of_type(c["base"][1]["type"])
        elif c["base"][0] == "cell_method":
            cls = "CellMethod"
        elif c["base"][0] == "cref":
            cls = "CoordinateReference"
        elif c["base"][0] == "data":
            cls = "Data"
        elif c["base"][0] == "axis":
            cls = "DomainAxis"
        elif c["base"][0] == "skeleton" and c["base"][1].get("domain"):
            cls = "Domain"
        for st in sel:
            if st[0] == "domain":
                cls = "Domain"
            elif st[0] == "nth":
                cls = cls_of_type(st[1])
            elif st[0] == "bounds":
                cls = "Bounds"
            elif st[0] == "data":
                cls = "Data"
        n = 2 if c["fam"] != "clash" else 3
        kws = [{}] if c["fam"] != "clash" else []
        while len(kws) < n:
            kws.append(rand_kw(rng, cls, clash=c["clash"]))
        c["kws"] = kws
        c["cls_guess"] = cls


# ------------------------------------------------------------------ oracle helpers
def feature(c):
    tags = [t for t in c.get("tags", []) if not t.startswith("example") and t not in ("standalone",)]
    return tags[0] if tags else (c["fam"])


def nontrivial(c, r):
    """a case is non-trivial when the object has at least one component to look
    up or emit: a construct, data, bounds, a property or a qualifier"""
    a = r.get("abs")
    if not a:
        return bool(r.get("insp"))
    if a[0] == "fld":
        return bool(a[1]["items"]) or a[1]["var"]["data"] is not None
    if a[0] == "con":
        x = a[1]
        return bool(x["var"]["head"] or x["var"]["data"] or x["pre"] or x["post"] or x["bounds"])
    return True


def run(chk, model_ok):
    cases = build_cases(chk)
    # reflection: every class exporting a description method
    rc, out, err = lib.run_worker("drive/c19.py", {"mode": "classes"})
    inventory = out[0] if out and isinstance(out[0], list) else []
    if rc != 0 or not inventory:
        chk.fail("correspondence", "worker-crash", f"C19 class inventory failed rc={rc}: {err[-500:]}",
                 {"correspondence": "drive/c19.py classes"})
    skip_empty = ("Constant", "ConstantAccess", "Configuration", "atol", "rtol", "log_level", "Version", "netcdf_indexer")
    for k in inventory:
        if k["name"] in skip_empty or k.get("is_array"):
            continue
        if k["empty_ok"]:
            cases.append({"fam": "reflect-empty", "base": ["empty", k["name"]], "mods": [], "select": [],
                          "kws": [{}] if "creation_commands" in k["exports"] and k["name"] != "Data" else [],
                          "tags": ["empty:" + k["name"]] if k["name"] != "Data" else ["data-without-array"], "clash": False})
    finish_kws(chk, cases, inventory)
    for i, c in enumerate(cases):
        c["i"] = i

    import time
    t_gen = time.time()
    nw = 14
    shards = [cases[k::nw] for k in range(nw)]
    shards = [s for s in shards if s]
    res = lib.run_workers_parallel("drive/c19.py", [{"mode": "cases", "scratch": chk.scratch, "cases": s} for s in shards])
    rows = [None] * len(cases)
    for s, (rc, out, err) in zip(shards, res):
        for r in out:
            if isinstance(r, dict) and "i" in r:
                rows[r["i"]] = r
        if rc != 0 or len(out) != len(s):
            chk.fail("correspondence", "worker-crash", f"C19 worker died rc={rc}: {err[-400:]}",
                     {"correspondence": "drive/c19.py cases"})
    done = [(c, r) for c, r in zip(cases, rows) if r is not None]
    t_impl = time.time() - t_gen

    stats = {"families": {}, "classes": {}, "insp_calls": 0, "cc_calls": 0, "refusals": 0, "tags": {},
             "selection_missed": 0}
    explained = set()
    desc_lits, desc_idx, cc_lits, cc_idx = [], [], [], []
    cc_seen = set()
    ds_lits, ds_idx, ds_seen = [], [], set()
    seen_classes = set()
    for c, r in done:
        stats["families"][c["fam"]] = stats["families"].get(c["fam"], 0) + 1
        if r.get("harness_err"):
            chk.fail("correspondence", "harness-error", f"driver raised on case {c['i']}: {r['harness_err'][-300:]}",
                     {"correspondence": "drive/c19.py", "input": c})
            continue
        if r.get("build_err"):
            # the selected part does not exist in that object (e.g. no n-th construct): not a case
            if c["select"] and ("list index" in r["build_err"] or "ZeroDivision" in r["build_err"]
                                or "has no" in r["build_err"] or "no attribute" in r["build_err"]
                                or "AttributeError" in r["build_err"] or "ValueError" in r["build_err"]):
                stats["selection_missed"] += 1
                continue
            if c["fam"] in ("skeleton", "standalone", "reftime-elements") and (
                    r["build_err"].startswith("ValueError: Can't set") or "is not iterable" in r["build_err"]):
                # set_construct refused the generated combination: not an object of the space
                stats["recipes_refused_by_api"] = stats.get("recipes_refused_by_api", 0) + 1
                continue
            chk.fail("correspondence", "harness-build", f"could not build case {c['i']}: {r['build_err']}",
                     {"correspondence": "drive/c19.py build", "input": c})
            continue
        cls = r["cls"]
        seen_classes.add(cls)
        stats["classes"][cls] = stats["classes"].get(cls, 0) + 1
        for t in c.get("tags", []):
            if not t.startswith("example") and not t.startswith("empty:"):
                stats["tags"][t] = stats["tags"].get(t, 0) + 1
        feat = feature(c)
        # ---- (a) inspection
        for op, e in r["insp"].items():
            stats["insp_calls"] += 1
            if e is not None:
                explained.add(c["i"])
                chk.fail("property", f"{op}-raises:{feat}", f"{op}() of a {cls} raised {e}",
                         {"input": c, "expected": "a string", "observed": e})
        if not r.get("unchanged", True) or r.get("unchanged_after_cc") is False:
            explained.add(c["i"])
            chk.fail("property", f"inspection-changes-construct:{feat}",
                     f"repr/str/dump/creation_commands changed the {cls}", {"input": c, "observed": r.get("insp")})
        # ---- (b) creation commands
        for v in r.get("cc", []):
            stats["cc_calls"] += 1
            kw = v["kw"]
            clash = names_clash(kw, cls)
            if "cc_err" in v:
                if clash and v["cc_err"] == "ValueErr":
                    stats["refusals"] += 1
                else:
                    explained.add(c["i"])
                    chk.fail("property", f"creation-commands-raises:{feat}",
                             f"{cls}.creation_commands({kw}) raised {v['cc_err']}: {v.get('cc_msg')} at {v.get('where')}",
                             {"input": c, "kw": kw, "observed": v["cc_err"]})
                continue
            problems = []
            if v.get("shape_err"):
                problems.append(("creation-commands-format", v["shape_err"]))
            if v.get("exec_err"):
                problems.append(("commands-do-not-execute", v["exec_err"]))
            elif not clash or v.get("equal") is not None:
                if r.get("self_equal") is not True or (v.get("equal") is None and v.get("equals_err")):
                    # cfdm's equals itself raised (totality of equals is C05's property):
                    # judge by the independent fingerprint
                    stats["equals_raised"] = stats.get("equals_raised", 0) + 1
                    if v.get("fp_equal") is not True:
                        problems.append(("rebuilt-not-equal", "equals raised and the fingerprints differ"))
                elif v.get("equal") is not True:
                    problems.append(("rebuilt-not-equal", f"equals -> {v.get('equal')} {v.get('equals_err', '')}"))
                if v.get("nc_equal") is not True:
                    problems.append(("netcdf-names-differ", "netCDF names of the rebuilt construct differ"))
                if v.get("fp_equal") is not True and v.get("equal") is True and v.get("nc_equal") is True:
                    problems.append(("rebuilt-fingerprint-differs", "independent fingerprint of the rebuilt construct differs"))
            if clash and problems and not v.get("shape_err"):
                # clashing names may also be answered by code that does not work; the
                # exact refusals are pinned by the correspondence with the model
                stats["refusals"] += 1
                problems = []
            for sig, what in problems:
                explained.add(c["i"])
                chk.fail("property", f"{sig}:{feat}", f"{cls}.creation_commands({kw}): {what}",
                         {"input": c, "kw": kw, "observed": what})
            if v.get("unparsed"):
                chk.fail("correspondence", "unparsed-command",
                         f"creation_commands emitted a line the model has no command for: {v['unparsed'][:3]}",
                         {"correspondence": "C19.Run.check_cc", "input": c, "kw": kw})

        # ---- literals for the correspondence
        if r.get("datas_err"):
            chk.fail("correspondence", "harness-error", f"could not read the Data objects of case {c['i']}: {r['datas_err']}",
                     {"correspondence": "drive/c19.py data_rows", "input": c})
        for dr in r.get("datas", []):
            if "st" not in dr:
                chk.fail("correspondence", "harness-error", f"could not read a Data object of case {c['i']}: {dr.get('state_err')}",
                         {"correspondence": "drive/c19.py ddata_state", "input": c})
                continue
            stats["data_str_cases"] = stats.get("data_str_cases", 0) + 1
            n = 1
            for k in dr["st"]["shape"]:
                n *= k
            key = ("reftime:" if dr["st"]["units"][0] == "str" and "since" in dr["st"]["units"][1] else "plain:") + \
                  (str(n) if n <= 4 else "5+")
            stats.setdefault("data_str_sizes", {})
            stats["data_str_sizes"][key] = stats["data_str_sizes"].get(key, 0) + 1
            for ck in ("c1", "c2", "cm"):
                if dr["st"][ck][0] == "err":
                    stats.setdefault("conversion_errors", {})
                    stats["conversion_errors"][dr["st"][ck][1]] = stats["conversion_errors"].get(dr["st"][ck][1], 0) + 1
            lit = f"({g_ddata(dr['st'])}, {g_obs_text(dr['obs'])})"
            if lit not in ds_seen:
                ds_seen.add(lit)
                ds_lits.append(lit)
                ds_idx.append((c["i"], dr))
        if r.get("state") is not None:
            st = r["state"]
            lit = (f"({FIXED}, {g_state(st)}, {g_sitems(r.get('str_items'), r['insp'].get('str'))}, "
                   f"{g_ditems(r.get('dump_items'), r['insp'].get('dump'))})")
            desc_lits.append(lit)
            desc_idx.append(c["i"])
        if r.get("abs") is not None:
            for v in r.get("cc", []):
                if "cc_err" in v:
                    impl = g_err(v["cc_err"])
                elif "cmds" in v:
                    impl = "(Ok (" + glist(v["cmds"], g_cmd) + " : list cmd))"
                else:
                    continue
                lit = f"({FIXED}, {g_abs(r['abs'])}, {g_names(v['kw'], cls)}, {impl})"
                stats["cc_cases"] = stats.get("cc_cases", 0) + 1
                if lit in cc_seen:
                    continue   # same object, names and commands (variants differing in layout only)
                cc_seen.add(lit)
                cc_lits.append(lit)
                cc_idx.append((c["i"], v["kw"]))

    # ---- correspondence with the model
    t_coq = time.time()
    ncorr = 0
    if model_ok:
        bad = lib.coq_bad_indices("C19", REQ, "check_describe", desc_lits, chunk=150)
        ncorr += len(desc_lits)
        for b in bad[:40]:
            i = desc_idx[b]
            if i in explained:
                continue
            chk.fail("correspondence", "model-vs-impl",
                     "the model's description look-ups and the text of str()/dump() disagree",
                     {"correspondence": "C19.Run.check_describe", "input": cases[i],
                      "observed": {"state": rows[i].get("state"), "str": rows[i].get("str_items"),
                                   "dump": rows[i].get("dump_items"), "insp": rows[i].get("insp")}})
        inv_lits = [g_state(rows[i]["state"]) for i in desc_idx]
        badinv = lib.coq_bad_indices("C19", REQ, "check_inv", inv_lits, chunk=400)
        stats["states_outside_weak_invariant"] = len(badinv)
        for b in badinv[:10]:
            i = desc_idx[b]
            if "axis-without-size" in cases[i].get("tags", []):
                continue
            chk.fail("correspondence", "state-outside-invariant",
                     "a state built through the public API does not satisfy Model.inv_partial",
                     {"correspondence": "C19.Run.check_inv", "input": cases[i], "observed": rows[i].get("state")})
        bad = lib.coq_bad_indices("C19", REQ, "check_data_str", ds_lits, chunk=300)
        ncorr += len(ds_lits)
        for b in bad[:40]:
            i, dr = ds_idx[b]
            if i in explained:
                continue
            chk.fail("correspondence", "model-vs-impl",
                     "the model of Data.__str__ (element look-ups, conversions, layout) and str(data) disagree",
                     {"correspondence": "C19.Run.check_data_str", "input": cases[i], "observed": dr})
        bad = lib.coq_bad_indices("C19", REQ, "check_cc", cc_lits, chunk=60)
        ncorr += stats.get("cc_cases", 0)
        for b in bad[:40]:
            i, kw = cc_idx[b]
            if i in explained:
                continue
            v = [x for x in rows[i]["cc"] if x["kw"] == kw][0]
            chk.fail("correspondence", "model-vs-impl",
                     "the model's creation-commands compiler/interpreter and the implementation disagree",
                     {"correspondence": "C19.Run.check_cc", "input": cases[i], "kw": kw,
                      "observed": {"cc_err": v.get("cc_err"), "cmds": v.get("cmds", [])[:60]}})

    t_coq = time.time() - t_coq
    # ---- reflection coverage
    exported = {k["name"]: k for k in inventory}
    uncovered = sorted(n for n, k in exported.items()
                       if n not in seen_classes and n not in skip_empty)
    distinct = {lib.canon([c["base"], c["mods"], c["select"], c["kws"]]) for c, r in done if nontrivial(c, r)}
    samples = [{k: c[k] for k in ("fam", "base", "mods", "select", "kws")} for c, r in (done[0], done[len(done) // 2], done[-1])]
    chk.coverage.update({
        "evaluations": stats["insp_calls"] + stats["cc_calls"],
        "distinct_nontrivial": len(distinct),
        "rule": "a case = one object built through the public API (recipe: base + modifications + selection of a part) "
                "with its keyword variants of creation_commands; non-trivial when the object has at least one component "
                "to look up or emit (construct, data, bounds, property, qualifier); distinct = distinct canonical recipe",
        "samples": json.loads(json.dumps(samples))[:3],
        "traces_validated_against_impl": ncorr,
        "disagreements_checked": ncorr,
        "objects": len(done),
        "inspection_calls": stats["insp_calls"],
        "creation_commands_calls": stats["cc_calls"],
        "refusals_or_clashing_names": stats["refusals"],
        "equals_itself_raised": stats.get("equals_raised", 0),
        "families": stats["families"],
        "classes_exercised": stats["classes"],
        "feature_tags": stats["tags"],
        "classes_exporting_descriptions": len(exported),
        "classes_not_instantiated": uncovered,
        "selections_without_target": stats["selection_missed"],
        "recipes_refused_by_api": stats.get("recipes_refused_by_api", 0),
        "distinct_command_cases_evaluated_in_coq": len(cc_lits),
        "data_str_objects": stats.get("data_str_cases", 0),
        "distinct_data_str_cases_evaluated_in_coq": len(ds_lits),
        "data_str_sizes": stats.get("data_str_sizes", {}),
        "conversion_error_classes_seen": stats.get("conversion_errors", {}),
        "states_outside_weak_invariant": stats.get("states_outside_weak_invariant"),
        "seconds_driving_implementation": round(t_impl, 1),
        "seconds_evaluating_model_in_coq": round(t_coq, 1),
        "exhaustive": False,
        "historical_refutations": "C19/Refuted.v: witnesses against the pinned commit (F19a missing axes, "
                                  "coordinate names ignored, tag of custom keys), against Data.__str__ before fix2-1 "
                                  "(NaN / inf reference times), against an unguarded middle conversion and against "
                                  "cell methods emitted in sorted key order",
    })
    chk.assumptions += [
        "cell-method qualifiers and netCDF names are strings, as CF requires; units and calendar that are not strings "
        "(numbers, numpy scalars) ARE generated, for constructs and for Data",
        "float data may hold NaN and +/-inf: an object holding NaN is not equal to its own copy under cfdm's equals, so the "
        "rebuilt object is then judged by the independent fingerprint (NaN equal to NaN) instead of equals",
        "the outcomes of the date-time conversions (netCDF4.num2date through Data.datetime_array) are inputs of the model of "
        "Data.__str__: the harness performs them on the same scalar / pair the code converts and hands text or exception class to Coq",
        "a cell method edited in place after insertion so that a non-time axis becomes 'climatological' bypasses the validation "
        "of set_construct; such states are not generated (their commands are refused by set_construct when executed)",
        "every array returned by the implementation to the harness is overwritten in place after it was recorded",
        "Data objects given to creation_commands hold an array (equals itself raises on cfdm.Data() without one)",
        "the fresh namespace contains only what the 'namespace' keyword documents: `import cfdm`, "
        "`import cfdm as <ns>` or `from cfdm import *`; no numpy",
        "a Bounds taken from its parent is compared inside the parent (it reports the parent's units by inheritance)",
        "variable names that clash with each other, with c/b/i/mask or with the module name may be refused or yield "
        "unusable code; which ones are refused is pinned by the correspondence (Model.refused)",
        "referential integrity of the construct container (every axis key mentioned is a domain axis) is C02's property; "
        "states violating it are outside Model.inv_partial",
        "literal printing of values (repr round-trip) is exercised by the oracle, not proved: values are opaque tokens in the model",
    ]


def replay(chk, path):
    d = json.load(open(path))
    cases = []
    for x in d.get("cases", []):
        c = x.get("input")
        if not c or "base" not in c:
            continue
        c = dict(c)
        if x.get("kw") is not None:
            c["kws"] = [x["kw"]]
        c["i"] = len(cases)
        cases.append(c)
    rc, out, err = lib.run_worker("drive/c19.py", {"mode": "cases", "scratch": chk.scratch, "cases": cases})
    bad = 0
    for c, r in zip(cases, out):
        probs = [f"{k}: {v}" for k, v in (r.get("insp") or {}).items() if v]
        if r.get("unchanged") is False:
            probs.append("changed")
        for v in r.get("cc", []):
            if "cc_err" in v and not names_clash(v["kw"], r.get("cls", "")):
                probs.append("creation_commands raised " + v["cc_err"])
            elif "cc_err" not in v:
                by_fp = r.get("self_equal") is not True or (v.get("equal") is None and v.get("equals_err"))
                same = v.get("fp_equal") if by_fp else v.get("equal")
                if v.get("exec_err") or same is not True or v.get("nc_equal") is not True:
                    probs.append(f"rebuild: {v.get('exec_err')} equal={v.get('equal')} fingerprint={v.get('fp_equal')} "
                                 f"nc={v.get('nc_equal')}")
        print(("FAIL " if probs else "ok   ") + json.dumps({k: c.get(k) for k in ("base", "mods", "select", "kws")})[:300], probs)
        bad += bool(probs)
    return 1 if bad else 0
