"""C15 - UGRID meshes are mapped to topology constructs correctly (DESIGN.md section 4, C15)."""
import json

import lib
from lib import gz, gnat, gbool, glist

REQ = "From CfdmV Require Import Common.Base C15.Model C15.Mesh C15.Run."
DEPENDS = []
MODEL_FILES = ["Model", "Mesh", "Run"]


# ---------------------------------------------------------------- printers
def g_oz(x):
    return "None" if x is None else f"(Some {gz(x)})"


def g_arr(a):
    # (annotated: an all-missing array gives Coq nothing to infer the element type from)
    return "(" + glist(a, lambda r: glist(r, g_oz)) + " : arr)"


def g_obs(o):
    """o: an observed array {"rows": ...} or {"err": ...}"""
    if o is None:
        return "(Err OtherErr)"
    if "rows" in o:
        rows = o["rows"]
        if len(o["shape"]) != 2 or any(isinstance(v, float) for r in rows for v in r):
            return "(Err OtherErr)"
        return f"(Ok {g_arr(rows)})"
    e = o.get("err", "OtherErr")
    if e.startswith("OtherErr"):
        e = "OtherErr"
    return f"(Err {e})"


def g_s(x):
    return '"' + x + '"%string'


def g_opt(x, f):
    return "None" if x is None else f"(Some {f(x)})"


def mesh_meta(s):
    """The file's metadata as drive/c15.py encodes it (names, dimensions, attributes): a Gallina meshmeta."""
    raw = s.get("raw") or {}
    faces, edges = s.get("faces"), s.get("edges")
    pad = s.get("pad", 0)
    si, tr = s["si"], s["tr"]
    si_attr = s.get("si_attr", True)
    dims = [("nNodes", s["n_nodes"])]
    vs = [("node_x", ["nNodes"]), ("node_y", ["nNodes"])]
    attrs, coords, sis = [], [], []
    if not raw.get("drop_node_coords"):
        coords.append(("node_coordinates", ["node_x", "node_y"]))

    def conn(name, celldim, other, transposed, start):
        vs.append((name, [other, celldim] if transposed else [celldim, other]))
        if si_attr or start:
            sis.append((name, start))

    if faces:
        w = max([len(f) for f in faces] + [1]) + pad
        dims += [("nFaces", len(faces)), ("nMaxFaceNodes", w)]
        conn("face_nodes", "nFaces", "nMaxFaceNodes", tr["face"], si["face"])
        attrs.append(("face_node_connectivity", "no_such_variable" if raw.get("drop_face_var") else "face_nodes"))
        if raw.get("face_dimension"):
            attrs.append(("face_dimension", raw["face_dimension"]))
        elif tr["face"] or tr.get("ff") or s.get("dim_attr"):
            attrs.append(("face_dimension", "nFaces"))
        ff = s.get("face_face")
        if ff is not None:
            w2 = max([len(r) for r in ff] + [1])
            dims.append(("nMaxFaceFaces", w2))
            ffdim = "nFaces"
            if raw.get("ff_other_dim"):
                dims.append(("nOther", len(faces) + 2))
                ffdim = "nOther"
            conn("face_links", ffdim, "nMaxFaceFaces", tr.get("ff", False), si["ff"])
            attrs.append(("face_face_connectivity", "face_links"))
        if s.get("face_coords"):
            coords.append(("face_coordinates", ["face_x", "face_y"]))
            vs += [("face_x", ["nFaces"]), ("face_y", ["nFaces"])]
    if edges:
        dims += [("nEdges", len(edges)), ("Two", 2)]
        conn("edge_nodes", "nEdges", "Two", tr["edge"], si["edge"])
        attrs.append(("edge_node_connectivity", "edge_nodes"))
        if tr["edge"] or s.get("dim_attr"):
            attrs.append(("edge_dimension", "nEdges"))
        if s.get("edge_coords"):
            coords.append(("edge_coordinates", ["edge_x"] if raw.get("edge_coord_one") else ["edge_x", "edge_y"]))
            vs += [("edge_x", ["nEdges"]), ("edge_y", ["nEdges"])]
    topdim = raw.get("topdim", 2 if faces else 1)
    pair = lambda f, g: (lambda kv: f"({f(kv[0])}, {g(kv[1])})")
    return ("{| mm_dims := " + glist(dims, pair(g_s, gz)) + "; mm_vars := " + glist(vs, pair(g_s, lambda l: glist(l, g_s)))
            + "; mm_attrs := " + glist(attrs, pair(g_s, g_s)) + "; mm_coords := " + glist(coords, pair(g_s, lambda l: glist(l, g_s)))
            + f"; mm_topdim := Some {gz(topdim)}; mm_si := " + glist(sis, pair(g_s, gz)) + " |}")


def loc_summary_obs(o):
    """What the constructs of a field show of the reader's decisions (shapes, not values)."""
    if not o or "dt" not in o or "rows" not in o["dt"]:
        return None
    dt = o["dt"]
    cc = o.get("cc") or []
    ccr = cc[0].get("rows") if len(cc) == 1 else None
    br = None
    for a in o.get("aux", []):
        if a.get("name") == "longitude" and "bounds_rows" in a:
            br = a["bounds_rows"]
    ax = o.get("axis_sizes") or [None]
    return (dt.get("cell") or "?", ax[0], dt["rows"], ccr, br)


def mesh_literal(s, r):
    field = r.get("field") or {}
    files = file_arrays(s)
    if "read_err" in field:
        obs = "(Err OtherErr)"
    else:
        items = []
        for loc in ("node", "edge", "face"):
            t = loc_summary_obs(field.get(loc))
            items.append("None" if t is None or t[1] is None else
                         f"(Some ({g_s(t[0])}, {gz(t[1])}, {gz(t[2])}, {g_opt(t[3], gz)}, {g_opt(t[4], gz)}))")
        obs = "(Ok [" + "; ".join(items) + "])"
    data_on = []
    for loc, dim in (("node", "nNodes"), ("edge", "nEdges"), ("face", "nFaces")):
        data_on.append(dim if loc in s.get("locs", []) and (loc == "node" or loc in files) else None)
    intent = []
    for loc in ("node", "edge", "face"):
        src = ("edge" if "edge" in files else "face" if "face" in files else None) if loc == "node" else (loc if loc in files else None)
        if src is None or not s.get("valid", True):
            intent.append("None")
            continue
        ccf = "None"
        if loc == "face" and "ff" in files:
            ccf = f"(Some ({gbool(files['ff'][2])}, {gz(files['ff'][1])}))"
        intent.append(f"(Some (({gbool(files[src][2])}, {gz(files[src][1])}), {ccf}))")
    return f"({mesh_meta(s)}, {glist(data_on, lambda d: g_opt(d, g_s))}, {obs}, [{'; '.join(intent)}])"


# ---------------------------------------------------------------- mesh derivations (generator side)
def cyc(f):
    return list(zip(f, f[1:] + f[:1]))


def derive_edges(faces):
    seen, out = {}, []
    for f in faces:
        for a, b in cyc(f):
            key = (min(a, b), max(a, b))
            if a != b and key not in seen:
                seen[key] = len(out)
                out.append([a, b])
    return out


def derive_face_face(faces, aligned):
    owners = {}
    for i, f in enumerate(faces):
        for a, b in cyc(f):
            owners.setdefault((min(a, b), max(a, b)), []).append(i)
    out = []
    for i, f in enumerate(faces):
        r = []
        for a, b in cyc(f):
            others = [j for j in owners[(min(a, b), max(a, b))] if j != i]
            r.append(others[0] if others else None)
        if not aligned:
            seen = []
            for v in r:
                if v is not None and v not in seen:
                    seen.append(v)
            r = seen
        out.append(r)
    return out


def derive_face_edge(faces, edges):
    idx = {(min(a, b), max(a, b)): k for k, (a, b) in enumerate(edges)}
    return [[idx.get((min(a, b), max(a, b))) for a, b in cyc(f)] for f in faces]


def derive_edge_face(faces, edges):
    owners = {}
    for i, f in enumerate(faces):
        for a, b in cyc(f):
            owners.setdefault((min(a, b), max(a, b)), []).append(i)
    return [(owners.get((min(a, b), max(a, b)), []) + [None, None])[:2] for a, b in edges]


# ---------------------------------------------------------------- generators
def gen_grid(rng):
    nx, ny = rng.randint(1, 3), rng.randint(1, 3)
    faces = []
    for j in range(ny):
        for i in range(nx):
            a = j * (nx + 1) + i
            q = [a, a + 1, a + nx + 2, a + nx + 1]
            r = rng.random()
            if r < 0.12 and nx * ny > 1:
                continue  # a hole
            if r < 0.5:
                if rng.random() < 0.5:
                    faces += [[q[0], q[1], q[2]], [q[0], q[2], q[3]]]
                else:
                    faces += [[q[0], q[1], q[3]], [q[1], q[2], q[3]]]
            else:
                faces.append(q)
    if not faces:
        faces = [[0, 1, nx + 2, nx + 1]]
    return (nx + 1) * (ny + 1), faces


def gen_polygons(rng):
    k = rng.randint(3, 7)
    faces = [list(range(k))]
    n = k
    for s in range(k):
        r = rng.random()
        a, b = s, (s + 1) % k
        if r < 0.35:
            faces.append([b, a, n])
            n += 1
        elif r < 0.5:
            faces.append([b, a, n, n + 1])
            n += 2
    return n, faces


def gen_random_faces(rng):
    n = rng.randint(3, 9)
    faces = []
    for _ in range(rng.randint(1, 5)):
        k = rng.randint(3, min(6, n))
        faces.append(rng.sample(range(n), k))
    return n, faces


def gen_isolated_cells(rng):
    faces, n = [], 0
    for _ in range(rng.randint(2, 4)):
        k = rng.randint(3, 5)
        faces.append(list(range(n, n + k)))
        n += k
    return n, faces


def gen_network(rng):
    n = rng.randint(2, 9)
    edges = []
    nodes = list(range(n))
    rng.shuffle(nodes)
    comp = rng.randint(1, 2)
    for i in range(1, n):
        if comp == 2 and i == n // 2:
            continue  # start a second component
        lo = 0 if not (comp == 2 and i > n // 2) else n // 2
        edges.append([nodes[rng.randint(lo, i - 1)], nodes[i]])
    for _ in range(rng.randint(0, 2)):
        a, b = rng.sample(range(n), 2)
        if [a, b] not in edges and [b, a] not in edges:
            edges.append([a, b])
    if not edges:
        edges = [[0, 1]]
    return n, edges


def relabel(rng, n, faces, edges):
    """Random node renumbering, cell order, orientation and starting vertex."""
    perm = list(range(n))
    rng.shuffle(perm)
    if faces is not None:
        out = []
        for f in faces:
            f = [perm[v] for v in f]
            s = rng.randrange(len(f))
            f = f[s:] + f[:s]
            if rng.random() < 0.4:
                f = f[::-1]
            out.append(f)
        rng.shuffle(out)
        faces = out
    if edges is not None:
        edges = [[perm[a], perm[b]] if rng.random() < 0.5 else [perm[b], perm[a]] for a, b in edges]
        rng.shuffle(edges)
    return faces, edges


def make_spec(rng, fam):
    faces = edges = None
    if fam == "grid":
        n, faces = gen_grid(rng)
    elif fam == "polygons":
        n, faces = gen_polygons(rng)
    elif fam == "random-faces":
        n, faces = gen_random_faces(rng)
    elif fam == "isolated-cells":
        n, faces = gen_isolated_cells(rng)
    else:
        n, edges = gen_network(rng)
    extra = rng.choice([0, 0, 0, 1, 2])  # nodes that belong to no cell
    n += extra
    faces, edges = relabel(rng, n, faces, edges)
    s = {"fam": fam, "n_nodes": n, "faces": faces, "edges": edges, "valid": True}
    if faces is not None:
        if rng.random() < 0.55:
            e = derive_edges(faces)
            _, e = relabel(rng, 0, None, e) if False else (None, e)
            e = [[a, b] if rng.random() < 0.5 else [b, a] for a, b in e]
            rng.shuffle(e)
            s["edges"] = e
        if rng.random() < 0.6:
            s["face_face"] = derive_face_face(faces, aligned=rng.random() < 0.6)
        if s["edges"] and rng.random() < 0.4:
            s["face_edge"] = derive_face_edge(faces, s["edges"])
        if s["edges"] and rng.random() < 0.4:
            s["edge_face"] = derive_edge_face(faces, s["edges"])
        s["face_coords"] = rng.random() < 0.4
    s["edge_coords"] = rng.random() < 0.4
    s["si"] = {"face": rng.choice([0, 1]), "edge": rng.choice([0, 1]), "ff": rng.choice([0, 1])}
    if rng.random() < 0.6:
        v = rng.choice([0, 1])
        s["si"] = {"face": v, "edge": v, "ff": v}
    s["si_attr"] = rng.random() < 0.7
    s["tr"] = {"face": rng.random() < 0.3, "edge": rng.random() < 0.3, "ff": rng.random() < 0.3}
    s["dim_attr"] = rng.random() < 0.2
    s["dtype"] = rng.choice(["i4", "i4", "i8", "i2"])
    s["fill"] = rng.choice([-99, -1, 9999])
    s["pad"] = rng.choice([0, 0, 0, 1, 2])
    xs = [rng.randint(-50, 50) for _ in range(n)]
    ys = [rng.randint(-80, 80) for _ in range(n)]
    s["coords"] = [xs, ys]
    s["locs"] = ["node", "edge", "face"]
    sub = {}
    for loc, size in (("node", n), ("edge", len(s["edges"] or [])), ("face", len(faces or []))):
        if size and rng.random() < 0.75:
            r = rng.random()
            k = rng.randint(1, size)
            if r < 0.2:
                idx = list(range(k))                      # a leading block: ids stay 0..k-1
            elif r < 0.35 and size > 1:
                idx = list(range(1, rng.randint(2, size)))  # ids 1..k: taken for one-based ids
            elif r < 0.6:
                idx = sorted(rng.sample(range(size), k))
            else:
                idx = rng.sample(range(size), k)
            sub[loc] = idx
    s["sub"] = sub
    s["mesh2"] = rng.random() < 0.3
    return s


def malformed(rng, s):
    """Turn a valid spec into a malformed one; returns the kind."""
    kind = rng.choice(["node-out-of-range", "below-start-index", "empty-row", "missing-variable", "bad-location",
                       "topdim", "no-node-coordinates", "foreign-face-dimension", "ff-other-dimension", "coordinate-count"])
    s["valid"] = False
    s["mesh2"] = False
    s["malformed"] = kind
    which = "face" if s["faces"] else "edge"
    rows = s["faces"] if s["faces"] else s["edges"]
    i = rng.randrange(len(rows))
    j = rng.randrange(len(rows[i]))
    raw = {}
    if kind == "node-out-of-range":
        raw[which] = [[i, j, s["n_nodes"] + s["si"][which] + rng.randint(0, 2)]]
    elif kind == "below-start-index":
        s["si"][which] = 1
        raw[which] = [[i, j, 0]]
    elif kind == "empty-row" and which == "face":
        s["faces"].append([])
        if s.get("face_face") is not None:
            s["face_face"].append([])
        if s.get("face_edge") is not None:
            s["face_edge"].append([])
    elif kind == "missing-variable" and which == "face":
        raw["drop_face_var"] = True
    elif kind == "bad-location":
        raw["location_attr"] = "volume"
    elif kind == "topdim":
        raw["topdim"] = rng.choice([1, 2, 3, 4, 0])
    elif kind == "no-node-coordinates":
        raw["drop_node_coords"] = True
    elif kind == "foreign-face-dimension":
        raw["face_dimension"] = rng.choice(["nNodes", "nMaxFaceNodes", "nFaces"])
    elif kind == "ff-other-dimension":
        raw["ff_other_dim"] = True
    elif kind == "coordinate-count":
        raw["edge_coord_one"] = True
        s["edge_coords"] = True
    s["raw"] = raw
    return kind


# ---------------------------------------------------------------- what the file holds (as the driver encodes it)
def stored_array(rows, width, offset, overrides, transposed):
    a = [[(r[j] + offset if j < len(r) and r[j] is not None else None) for j in range(width)] for r in rows]
    for (i, j, v) in overrides or []:
        a[i][j] = v
    if transposed:
        a = [[a[i][j] for i in range(len(a))] for j in range(width)]
    return a


def file_arrays(s):
    """name -> (stored array, start index, transposed, cell rows as given zero-based, width)"""
    out = {}
    raw = s.get("raw") or {}
    pad = s.get("pad", 0)
    if s.get("faces"):
        w = max([len(f) for f in s["faces"]] + [1]) + pad
        out["face"] = (stored_array(s["faces"], w, s["si"]["face"], raw.get("face"), s["tr"]["face"]),
                       s["si"]["face"], s["tr"]["face"], w)
        if s.get("face_face") is not None:
            w2 = max([len(r) for r in s["face_face"]] + [1])
            out["ff"] = (stored_array(s["face_face"], w2, s["si"]["ff"], None, s["tr"].get("ff", False)),
                         s["si"]["ff"], s["tr"].get("ff", False), w2)
    if s.get("edges"):
        out["edge"] = (stored_array(s["edges"], 2, s["si"]["edge"], raw.get("edge"), s["tr"]["edge"]),
                       s["si"]["edge"], s["tr"]["edge"], 2)
    return out


# ---------------------------------------------------------------- independent oracle (from the raw zero-based mesh)
def padded(rows, width):
    return [list(r) + [None] * (width - len(r)) for r in rows]


def exp_point(s):
    n = s["n_nodes"]
    nb = [set() for _ in range(n)]
    if s.get("edges"):
        for a, b in s["edges"]:
            if a != b:
                nb[a].add(b)
                nb[b].add(a)
    else:
        for f in s["faces"]:
            for a, b in cyc(f):
                if a != b:
                    nb[a].add(b)
                    nb[b].add(a)
    w = 1 + max(len(x) for x in nb)
    return [[k] + sorted(nb[k]) + [None] * (w - 1 - len(nb[k])) for k in range(n)]


def rank_rows(rows):
    vals = sorted({v for r in rows for v in r if v is not None})
    pos = {v: i for i, v in enumerate(vals)}
    return [[None if v is None else pos[v] for v in r] for r in rows]


def drop_empty_columns(rows):
    if not rows:
        return rows
    w = len(rows[0])
    used = [j for j in range(w) if any(r[j] is not None for r in rows)]
    if len(used) == w or not used:
        return rows
    return [r[used[0]:used[-1] + 1] for r in rows]


def plus(rows, k):
    return [[None if v is None else v + k for v in r] for r in rows]


def canon_point(rows):
    """Sort the neighbours of each row (their order is arbitrary); None if padding is not trailing."""
    out = []
    for r in rows:
        vals = [v for v in r[1:] if v is not None]
        k = len(vals)
        if any(v is not None for v in r[1 + k:]) or not r:
            return None
        out.append([r[0]] + sorted(vals) + [None] * (len(r) - 1 - k))
    return out


def same_multiset_rows(a, b):
    if a is None or b is None or len(a) != len(b):
        return False
    for r, q in zip(a, b):
        if len(r) != len(q) or r[:1] != q[:1]:
            return False
        if sorted((v for v in r[1:] if v is not None)) != sorted((v for v in q[1:] if v is not None)):
            return False
    return True


def same_content(a, b, same_shape):
    """Rows agree on the first element and on the multiset of the other present values."""
    if a is None or b is None or len(a) != len(b):
        return False
    for r, q in zip(a, b):
        if not r or not q or r[0] != q[0] or (same_shape and len(r) != len(q)):
            return False
        if sorted(v for v in r[1:] if v is not None) != sorted(v for v in q[1:] if v is not None):
            return False
    return True


def exp_sub_ids(full, idx, start):
    """Expected normalisation of rows idx of an id-first array: cell idx[k] becomes k + start,
    neighbours outside the selection are dropped."""
    pos = {full[c][0]: k + start for k, c in enumerate(idx)}
    return [[pos[full[c][0]]] + [pos[v] for v in full[c][1:] if v is not None and v in pos]
            + [None] * sum(1 for v in full[c][1:] if v is None or v not in pos) for c in idx]


def check_sub(fail, what, full, sub, idx, ids_first, loc):
    """full: expected whole array (already verified); sub: observation of x[idx] and its normalisations."""
    if sub is None:
        return
    if "sub_err" in sub:
        fail("topology-subspace-raises", f"{what}[{idx}] raised {sub['sub_err']}: {sub.get('msg')}", loc=loc)
        return
    es = [full[c] for c in idx]
    got = rows_of(sub["array"])
    if not (same_content(got, es, True) if ids_first else got == es):
        fail("topology-subspace", f"{what}[{idx}] is not rows {idx} of the array: {sub['array']}", es, sub["array"], loc)
        return
    n0, n0b, n1, n1b = (rows_of(sub[k]) for k in ("norm0", "norm0b", "norm1", "norm1b"))
    if ids_first:
        ok = same_content(n0, exp_sub_ids(full, idx, 0), True) and same_content(n1, exp_sub_ids(full, idx, 1), False)
    else:
        e0 = rank_rows(es)
        ok = n0 == e0 and n1 == plus(drop_empty_columns(e0), 1)
    if not ok:
        fail("normalise-subspace", f"normalise() of {what}[{idx}] changed the topology: {sub['norm0']} / {sub['norm1']}",
             es, [sub["norm0"], sub["norm1"]], loc)
    elif n0b != n0 or n1b != n1:
        fail("normalise-not-idempotent", f"a second normalisation changed {what}[{idx}]", [n0, n1], [n0b, n1b], loc)


def check_ops(fail, loc, ops, exp, ebs, ecc, idx, ids_first, counters):
    """Copy and whole-field subspace: the topology constructs and bounds follow the cells."""
    def dt_ok(got, want):
        return same_content(got, want, True) if ids_first else got == want

    def part(ob, want_dt, want_cc, want_b, size):
        if ob is None:
            return "nothing observed"
        if "err" in ob:
            return f"raised {ob['err']}: {ob.get('msg')}"
        if ob.get("axis_sizes") != [size]:
            return f"axis sizes {ob.get('axis_sizes')}, expected [{size}]"
        if not dt_ok(rows_of(ob.get("dt")), want_dt):
            return f"domain topology {ob.get('dt')}"
        if want_cc is not None and [rows_of(c) for c in ob.get("cc", [])] != [want_cc]:
            return f"cell connectivity {ob.get('cc')}"
        for k, v in want_b.items():
            g = rows_of((ob.get("bounds") or {}).get(k))
            if g != v:
                return ("BOUNDS", k, g, v)
        return None

    bad = part(ops.get("copy"), exp, ecc, ebs, len(exp))
    if bad is not None:
        fail("field-copy", f"a copy of the field on {loc}, taken after the arrays of the original had been read and "
             f"overwritten in place, differs from what was read: {bad}", loc=loc)
        return
    fs = ops.get("fsub")
    if not idx or fs is None:
        return
    want_dt = [exp[c] for c in idx]
    want_cc = None if ecc is None else [ecc[c] for c in idx]
    want_b = {k: [v[c] for c in idx] for k, v in ebs.items()}
    bad = part(fs, want_dt, want_cc, want_b, len(idx))
    if isinstance(bad, tuple):
        _, k, g, v = bad
        reversed_rule = len(idx) > 1 and idx[-1] < idx[0] and g == [r[::-1] for r in v]
        if reversed_rule and loc == "edge":
            # CF 7.1 as cfdm applies it to any (n, 2) bounds: a decreasing index list swaps the two vertices of
            # every edge; the end points of each edge are kept
            counters["edge-bounds-swapped-by-decreasing-index"] = counters.get("edge-bounds-swapped-by-decreasing-index", 0) + 1
            bad = None
        elif reversed_rule:
            fail("field-subspace-reverses-polygon-bounds", f"field[{idx}] on faces: the {k} bounds are the node coordinates "
                 f"in reverse vertex order (padding first), no longer those gathered through the domain topology of the "
                 f"subspace: {g}", v, g, loc)
            return
        else:
            bad = f"{k} bounds {g}"
    if bad is not None:
        fail("field-subspace", f"field[{idx}] on {loc}: the constructs of the subspace are not rows {idx} of those read: {bad}",
             [want_dt, want_cc, want_b], fs, loc)
        return
    if fs.get("data") and fs["data"].get("rows") != list(idx):
        fail("field-subspace", f"field[{idx}] on {loc}: data {fs.get('data')}", loc=loc)
    elif ops.get("fsub_again") != fs:
        fail("array-not-repeatable", f"field[{idx}] on {loc}: a second access (after the first arrays were overwritten) differs",
             fs, ops.get("fsub_again"), loc)
    counters["field-subspaces"] = counters.get("field-subspaces", 0) + 1


def strip_sub(x):
    if isinstance(x, dict):
        return {k: v for k, v in x.items() if k != "sub"}
    if isinstance(x, list):
        return [strip_sub(v) for v in x]
    return x


def rows_of(o):
    return o["rows"] if o and "rows" in o and len(o.get("shape", [])) == 2 else None


# ---------------------------------------------------------------- cases
CORPUS = [
    # F15a: start_index = 1 (edge/face/point domain topologies were one-based)
    {"fam": "corpus-F15a", "n_nodes": 7, "faces": [[0, 1, 3], [1, 2, 4, 3], [3, 4, 6, 5, 0]], "edges": None,
     "face_face": [[1, 2], [0, 2], [0, 1]], "si": {"face": 1, "edge": 1, "ff": 1}, "si_attr": True,
     "tr": {"face": False, "edge": False, "ff": False}, "dtype": "i4", "fill": -99, "pad": 0,
     "coords": [[0, 1, 2, 3, 4, 5, 6], [0, 10, 20, 30, 40, 50, 60]], "locs": ["node", "edge", "face"], "valid": True},
    # F15b: node 5 belongs to no cell
    {"fam": "corpus-F15b", "n_nodes": 6, "faces": [[0, 1, 2], [2, 1, 3, 4]], "edges": [[0, 1], [1, 2], [2, 0], [1, 3], [3, 4], [4, 2]],
     "si": {"face": 0, "edge": 0, "ff": 0}, "si_attr": True, "tr": {"face": False, "edge": False, "ff": False},
     "dtype": "i4", "fill": -99, "pad": 0, "coords": [[0, 1, 2, 3, 4, 5], [5, 4, 3, 2, 1, 0]],
     "locs": ["node", "edge", "face"], "valid": True},
    # F15c: a single triangle, point cells from faces (boundary edges)
    {"fam": "corpus-F15c", "n_nodes": 3, "faces": [[0, 1, 2]], "edges": None, "si": {"face": 0, "edge": 0, "ff": 0},
     "si_attr": False, "tr": {"face": False, "edge": False, "ff": False}, "dtype": "i4", "fill": -99, "pad": 0,
     "coords": [[0, 1, 2], [0, 10, 20]], "locs": ["node", "face"], "valid": True},
    # F15d: padded face rows, point cells from faces
    {"fam": "corpus-F15d", "n_nodes": 5, "faces": [[0, 1, 2], [2, 1, 3, 4]], "edges": None, "si": {"face": 0, "edge": 0, "ff": 0},
     "si_attr": True, "tr": {"face": True, "edge": False, "ff": False}, "dtype": "i8", "fill": -1, "pad": 1,
     "coords": [[0, 1, 2, 3, 4], [0, 10, 20, 30, 40]], "locs": ["node", "face"], "valid": True},
    # metadata decisions (seed-robustness pass): face_face_connectivity on a foreign dimension (the reader before
    # C15-fix3-1 raises when attaching the construct, the repaired one reports and drops it) ...
    {"fam": "corpus-ff-other-dimension", "n_nodes": 5, "faces": [[0, 1, 2], [2, 1, 3, 4]], "edges": [[0, 1], [1, 2], [2, 0], [1, 3], [3, 4], [4, 2]],
     "face_face": [[1], [0]], "si": {"face": 0, "edge": 1, "ff": 0}, "si_attr": False, "tr": {"face": False, "edge": False, "ff": False},
     "dtype": "i4", "fill": -99, "pad": 0, "coords": [[0, 1, 2, 3, 4], [0, 10, 20, 30, 40]], "locs": ["node", "edge", "face"],
     "valid": False, "malformed": "ff-other-dimension", "raw": {"ff_other_dim": True}, "mesh2": False},
    # ... and a face_dimension attribute naming the node-count dimension of face_node_connectivity: the face data
    # variable does not span it, the mesh is reported and ignored for it (27c43f0), nodes and edges keep their constructs
    {"fam": "corpus-foreign-face-dimension", "n_nodes": 5, "faces": [[0, 1, 2], [2, 1, 3, 4]], "edges": [[0, 1], [1, 2], [2, 0], [1, 3], [3, 4], [4, 2]],
     "si": {"face": 1, "edge": 1, "ff": 1}, "si_attr": True, "tr": {"face": False, "edge": False, "ff": False},
     "dtype": "i4", "fill": -99, "pad": 0, "coords": [[0, 1, 2, 3, 4], [0, 10, 20, 30, 40]], "locs": ["node", "edge", "face"],
     "valid": False, "malformed": "foreign-face-dimension", "raw": {"face_dimension": "nMaxFaceNodes"}, "mesh2": False},
    {"fam": "corpus-foreign-face-dimension", "n_nodes": 5, "faces": [[0, 1, 2], [2, 1, 3, 4]], "edges": None,
     "si": {"face": 0, "edge": 0, "ff": 0}, "si_attr": True, "tr": {"face": False, "edge": False, "ff": False},
     "dtype": "i4", "fill": -99, "pad": 0, "coords": [[0, 1, 2, 3, 4], [0, 10, 20, 30, 40]], "locs": ["node", "face"],
     "valid": False, "malformed": "foreign-face-dimension", "raw": {"face_dimension": "nMaxFaceNodes"}, "mesh2": False},
]


def build_cases(chk):
    rng = chk.rng
    T = chk.tier == "thorough"
    cases = [json.loads(json.dumps(c)) for c in CORPUS]
    fams = ["grid", "polygons", "random-faces", "isolated-cells", "network"]
    per = 900 if T else 64
    for fam in fams:
        for _ in range(per):
            cases.append(make_spec(rng, fam))
    for _ in range(300 if T else 30):
        s = make_spec(rng, rng.choice(fams))
        malformed(rng, s)
        cases.append(s)
    for i, c in enumerate(cases):
        c["i"] = i
    return cases


def run_cases(cases, scratch, nworkers=16):
    shards = [cases[k::nworkers] for k in range(nworkers)]
    shards = [s for s in shards if s]
    res = lib.run_workers_parallel("drive/c15.py", [{"scratch": scratch, "cases": s} for s in shards])
    rows = [None] * len(cases)
    crashed = []
    for s, (rc, out, err) in zip(shards, res):
        for r in out:
            rows[r["i"]] = r
        if rc != 0 or len(out) != len(s):
            crashed.append((rc, err[-400:]))
    return rows, crashed


def brief(s):
    return {k: v for k, v in s.items() if k not in ("coords",)}


def check_valid(chk, s, r, counters):
    """The property oracle on one valid mesh; returns the set of explained (loc, what) pairs."""
    explained = set()
    files = file_arrays(s)
    field = r.get("field") or {}
    domain = r.get("domain") or {}

    def fail(sig, what, exp=None, got=None, loc=None):
        explained.add(loc)
        chk.fail("property", sig, f"{what} [{s['fam']}, start_index {s['si']}, stored transposed {s['tr']}]",
                 {"input": s, "expected": exp, "observed": got})

    if "read_err" in field:
        fail("read-raises", f"cfdm.read raised {field['read_err']}: {field.get('msg')}")
        return explained
    n = s["n_nodes"]
    xs, ys = s["coords"]
    for loc in ("node", "edge", "face"):
        have = (loc == "node") or (loc in files)
        o = field.get(loc)
        if not have:
            continue
        if o is None or "observe_err" in o:
            fail("field-missing", f"no field for data located on {loc}: {o}", loc=loc)
            continue
        counters["loc-" + loc] = counters.get("loc-" + loc, 0) + 1
        dt = o.get("dt")
        if dt is None:
            fail("no-domain-topology", f"field on {loc} has no domain topology construct", loc=loc)
            continue
        got = rows_of(dt["array"])
        if loc == "node":
            from_faces = "edge" not in files
            exp = exp_point(s)
            cg = canon_point(got) if got is not None else None
            if dt.get("cell") != "point" or cg != exp:
                if got is None and from_faces and any(len(f) != files["face"][3] for f in s["faces"]):
                    sig = "point-topology-padded-faces-raise"
                elif got is not None and len(got) != n:
                    sig = "point-topology-node-without-cell"
                elif got is not None and cg is not None and cg == plus(exp, 1):
                    sig = "domain-topology-not-zero-based"
                elif got is not None and from_faces:
                    sig = "point-topology-from-faces-neighbours"
                else:
                    sig = "point-topology-rows"
                fail(sig, f"point domain topology differs from the node adjacency of the mesh: {dt['array']}", exp, dt["array"], loc)
            else:
                # normalisation: ids are 0..n-1 already
                n0, n0b = rows_of(dt["norm0"]), rows_of(dt["norm0b"])
                n1, n1b = rows_of(dt["norm1"]), rows_of(dt["norm1b"])
                if not same_multiset_rows(n0, exp) or not same_multiset_rows(n1, plus(drop_empty_columns(exp), 1)):
                    fail("normalise-point-changes-topology", f"normalise() of the point topology: {dt['norm0']} / {dt['norm1']}",
                         exp, dt["norm0"], loc)
                elif n0b != n0 or n1b != n1:
                    fail("normalise-not-idempotent", "a second normalisation changed the point topology", n0, n0b, loc)
                else:
                    check_sub(fail, "point domain topology", exp, dt.get("sub"), (s.get("sub") or {}).get(loc), True, loc)
        else:
            stored, si, tr, w = files[loc]
            cells = s["faces"] if loc == "face" else s["edges"]
            exp = padded(cells, w)
            if dt.get("cell") != loc or got != exp:
                sig = "domain-topology-not-zero-based" if got == plus(exp, 1) and si == 1 else "domain-topology-rows"
                fail(sig, f"{loc} domain topology differs from the zero-based cell nodes: {dt['array']}", exp, dt["array"], loc)
            if dt.get("again") != dt.get("array"):
                fail("array-not-repeatable", "a second access of the domain topology array gave another value", loc=loc)
            e0 = rank_rows(exp)
            e1 = plus(drop_empty_columns(e0), 1)
            if got == exp:
                if rows_of(dt["norm0"]) != e0 or rows_of(dt["norm1"]) != e1:
                    fail("normalise-cells", f"normalise() is not the rank compression of the node ids: {dt['norm0']} / {dt['norm1']}",
                         [e0, e1], [dt["norm0"], dt["norm1"]], loc)
                elif rows_of(dt["norm0b"]) != e0 or rows_of(dt["norm1b"]) != e1:
                    fail("normalise-not-idempotent", "a second normalisation changed the domain topology", e0, dt["norm0b"], loc)
                else:
                    check_sub(fail, f"{loc} domain topology", exp, dt.get("sub"), (s.get("sub") or {}).get(loc), False, loc)
            # bounds
            auxs = {a.get("name"): a for a in o.get("aux", [])}
            for name, cs in (("longitude", xs), ("latitude", ys)):
                a = auxs.get(name)
                eb = [[None if v is None else cs[v] for v in rr] for rr in exp]
                if a is None or rows_of(a.get("bounds")) != eb:
                    fail("bounds-gather", f"{loc} {name} bounds are not the node coordinates gathered through the connectivity: "
                         f"{a and a.get('bounds')}", eb, a and a.get("bounds"), loc)
                has_cell_coords = s.get(loc + "_coords")
                if a is not None and bool(has_cell_coords) != ("data" in a):
                    fail("cell-coordinates", f"{loc} {name} coordinate values present={'data' in a}, expected {bool(has_cell_coords)}", loc=loc)
            # cell connectivity
            ccs = o.get("cc", [])
            if loc == "face" and "ff" in files:
                ecc = [[i] + rr for i, rr in enumerate(padded(s["face_face"], files["ff"][3]))]
                if len(ccs) != 1 or rows_of(ccs[0]["array"]) != ecc:
                    fail("cell-connectivity-rows", f"face cell connectivity differs from [cell, neighbours...]: {ccs}", ecc, ccs, "ff")
                else:
                    c0 = ccs[0]
                    if rows_of(c0["norm0"]) != ecc or rows_of(c0["norm0b"]) != ecc or rows_of(c0["norm1"]) != plus(ecc, 1):
                        fail("normalise-cell-connectivity", f"normalise() changed a zero-based cell connectivity: {c0}", ecc, c0, "ff")
                    else:
                        check_sub(fail, "cell connectivity", ecc, c0.get("sub"), (s.get("sub") or {}).get(loc), True, "ff")
            elif ccs:
                fail("cell-connectivity-unexpected", f"unexpected cell connectivity on {loc}: {ccs}", loc="ff")
        if o.get("axis_sizes") and len(o["axis_sizes"]) == 1 and got is not None and o["axis_sizes"][0] != len(got):
            if loc not in explained:
                fail("topology-axis-size", f"{loc}: domain axis size {o['axis_sizes']} but {len(got)} topology rows", loc=loc)
        # copies and whole-field subspaces; the second mesh variable of the file
        if loc not in explained and got is not None:
            if loc == "node":
                ebs, ecc_full, exp_dt = {}, None, exp_point(s)
            else:
                exp_dt = padded(s["faces"] if loc == "face" else s["edges"], files[loc][3])
                ebs = {name: [[None if v is None else cs[v] for v in rr] for rr in exp_dt]
                       for name, cs in (("longitude", xs), ("latitude", ys))}
                ecc_full = None
                if loc == "face" and "ff" in files:
                    ecc_full = [[i] + rr for i, rr in enumerate(padded(s["face_face"], files["ff"][3]))]
            check_ops(fail, loc, o.get("ops") or {}, exp_dt, ebs, ecc_full, (s.get("sub") or {}).get(loc), loc == "node", counters)
            if s.get("mesh2") and loc not in explained:
                o2 = field.get("2:" + loc)
                if not o2 or "dt" not in o2:
                    fail("second-mesh", f"no domain topology for data on {loc} of the second mesh topology variable: {o2}", loc=loc)
                else:
                    b2 = {a.get("name"): rows_of(a.get("bounds")) for a in o2.get("aux", []) if "bounds" in a}
                    w2 = {k: [[None if v is None else v + 1000 for v in rr] for rr in rows] for k, rows in ebs.items()}
                    if (strip_sub(o2["dt"]) != strip_sub(o["dt"])
                            or [c.get("array") for c in o2.get("cc", [])] != [c.get("array") for c in o.get("cc", [])]
                            or b2 != w2):
                        fail("second-mesh", f"{loc}: the constructs from a second mesh topology variable that shares the "
                             f"connectivity variables differ from those of the first: {[c.get('array') for c in o2.get('cc', [])]} / {b2}",
                             [o.get("dt"), o.get("cc"), w2], [o2.get("dt"), o2.get("cc"), b2], loc)
                    counters["second-mesh-" + loc] = counters.get("second-mesh-" + loc, 0) + 1
        # the domain read from the mesh variable carries the same constructs
        d = domain.get(loc)
        if isinstance(domain, dict) and "read_err" not in domain:
            if d is None:
                fail("domain-missing", f"read(domain=True) gave no domain for {loc} cells", loc=loc)
            else:
                for key in ("dt", "cc"):
                    if strip_sub(d.get(key)) != strip_sub(o.get(key)):
                        fail("field-vs-domain", f"{loc}: {key} of the domain differs from that of the field", o.get(key), d.get(key), loc)
                fa = {a.get("name"): a.get("bounds") for a in o.get("aux", [])}
                da = {a.get("name"): a.get("bounds") for a in d.get("aux", [])}
                if fa != da:
                    fail("field-vs-domain", f"{loc}: bounds of the domain differ from those of the field", fa, da, loc)
    if isinstance(domain, dict) and "read_err" in domain:
        fail("read-raises", f"cfdm.read(domain=True) raised {domain['read_err']}: {domain.get('msg')}")
    return explained


def literals(s, r):
    """(kind, literal, loc) for the correspondence."""
    out = []
    files = file_arrays(s)
    field = r.get("field") or {}
    if "read_err" in field:
        return out
    if (s.get("raw") or {}).get("face_dimension"):
        # a face_dimension attribute that contradicts the storage order the generator chose: which
        # order the reader takes is the subject of the "mesh" correspondence (Mesh.cell_dimension);
        # the array models below are given the generator's intended order, which is undefined here
        return out
    n = s["n_nodes"]
    for loc in ("edge", "face"):
        o = field.get(loc)
        if loc not in files or not o or "dt" not in o:
            continue
        stored, si, tr, w = files[loc]
        auxs = {a.get("name"): a for a in o.get("aux", [])}
        co = []
        for name, cs in (("longitude", s["coords"][0]), ("latitude", s["coords"][1])):
            a = auxs.get(name)
            if a is not None and "bounds" in a:
                co.append(f"({glist(cs, gz)}, {g_obs(a['bounds'])})")
        dt = o["dt"]
        out.append(("cells", f"({gz(si)}, {gbool(tr)}, {g_arr(stored)}, [{'; '.join(co)}], {g_obs(dt['array'])}, "
                             f"{g_obs(dt['norm0'])}, {g_obs(dt['norm1'])})", loc))
        if loc == "face" and "ff" in files and len(o.get("cc", [])) == 1:
            st2, si2, tr2, w2 = files["ff"]
            out.append(("conn", f"({gz(si2)}, {gbool(tr2)}, {g_arr(st2)}, {g_obs(o['cc'][0]['array'])})", "ff"))
            c0 = o["cc"][0]
            norm_lit(out, "norm_ids", c0["array"], c0.get("norm0"), c0.get("norm1rm"), "ff")
            if c0.get("sub") and "array" in c0["sub"]:
                norm_lit(out, "norm_ids", c0["sub"]["array"], c0["sub"]["norm0"], c0["sub"]["norm1"], "ff")
        if dt.get("sub") and "array" in dt["sub"]:
            norm_lit(out, "norm_cells", dt["sub"]["array"], dt["sub"]["norm0"], dt["sub"]["norm1"], loc)
    o = field.get("node")
    if o and "dt" in o:
        src = "edge" if "edge" in files else ("face" if "face" in files else None)
        if src:
            stored, si, tr, w = files[src]
            a = dict(o["dt"]["array"])
            if "rows" in a and len(a["shape"]) == 2:
                cp = canon_point(a["rows"])
                # (a missing value inside a row only arises from a malformed node id:
                #  such rows are compared as they are)
                a = {"rows": cp if cp is not None else a["rows"], "shape": a["shape"]}
            out.append(("point", f"({gbool(src == 'face')}, {gnat(n)}, {gz(si)}, {gbool(tr)}, {g_arr(stored)}, {g_obs(a)})", "node"))
            dt = o["dt"]
            norm_lit(out, "norm_ids", dt["array"], dt.get("norm0"), dt.get("norm1"), "node")
            if dt.get("sub") and "array" in dt["sub"]:
                norm_lit(out, "norm_ids", dt["sub"]["array"], dt["sub"]["norm0"], dt["sub"]["norm1"], "node")
    return out


def norm_lit(out, kind, a, o0, o1, loc):
    """The model normalises the array exactly as the implementation presented it."""
    if a and "rows" in a and len(a["shape"]) == 2 and a["rows"] and o0 is not None and o1 is not None:
        out.append((kind, f"({g_arr(a['rows'])}, {g_obs(o0)}, {g_obs(o1)})", loc))


def nontrivial(s):
    cells = (s.get("faces") or []) + (s.get("edges") or [])
    if len(cells) < 2:
        return False
    seen = set()
    for c in cells:
        if seen & set(c):
            return True
        seen |= set(c)
    return any(len(c) != len(cells[0]) for c in cells)


def run(chk, model_ok):
    cases = build_cases(chk)
    rows, crashed = run_cases(cases, chk.scratch)
    for rc, err in crashed:
        chk.fail("correspondence", "worker-crash", f"C15 worker died rc={rc}: {err}", {"correspondence": "drive/c15.py"})
    counters, fam_count = {}, {}
    lits = {"cells": [], "point": [], "conn": [], "norm_ids": [], "norm_cells": [], "mesh": []}
    meta = {"cells": [], "point": [], "conn": [], "norm_ids": [], "norm_cells": [], "mesh": []}
    explained = {}
    mal_outcomes = {}
    for s, r in zip(cases, rows):
        if r is None:
            continue
        if "harness_err" in r:
            chk.fail("correspondence", "harness-error", r["harness_err"], {"correspondence": "drive/c15.py", "input": s})
            continue
        fam_count[s["fam"]] = fam_count.get(s["fam"], 0) + 1
        if s["valid"]:
            explained[s["i"]] = check_valid(chk, s, r, counters)
        else:
            k = s["malformed"]
            f = r.get("field") or {}
            tag = "read-raises" if "read_err" in f else "read-ok"
            mal_outcomes[f"{k}:{tag}"] = mal_outcomes.get(f"{k}:{tag}", 0) + 1
            explained[s["i"]] = set()
        for kind, lit, loc in literals(s, r):
            lits[kind].append(lit)
            meta[kind].append((s, r, loc))
        if not (s.get("raw") or {}).get("location_attr"):
            lits["mesh"].append(mesh_literal(s, r))
            meta["mesh"].append((s, r, "mesh"))
    ncorr = 0
    if model_ok:
        for kind, fn in (("cells", "check_cells"), ("point", "check_point"), ("conn", "check_conn"),
                         ("norm_ids", "check_norm_ids"), ("norm_cells", "check_norm_cells"), ("mesh", "check_mesh")):
            if not lits[kind]:
                continue
            bad = lib.coq_bad_indices("C15", REQ, fn, lits[kind], chunk=120)
            ncorr += len(lits[kind])
            for i in bad[:40]:
                s, r, loc = meta[kind][i]
                if loc in explained.get(s["i"], set()) or None in explained.get(s["i"], set()):
                    continue
                if kind == "mesh" and explained.get(s["i"]):
                    continue
                chk.fail("correspondence", "model-vs-impl:" + kind,
                         f"model and implementation disagree on the {kind} arrays of a mesh ({s['fam']}, {loc})",
                         {"correspondence": "C15.Run." + fn, "input": s, "observed": (r.get("field") or {}).get(
                             {"ff": "face"}.get(loc, loc)), "literal": lits[kind][i][:1500]})
    distinct = {lib.canon({k: v for k, v in s.items() if k != "i"}) for s in cases if s["valid"] and nontrivial(s)}
    feats = {
        "start_index_1": sum(1 for s in cases if 1 in s["si"].values()),
        "mixed_start_index": sum(1 for s in cases if len(set(s["si"].values())) > 1),
        "transposed": sum(1 for s in cases if any(s["tr"].values())),
        "padded_rows": sum(1 for s in cases if s.get("faces") and len({len(f) for f in s["faces"]}) > 1),
        "empty_columns": sum(1 for s in cases if s.get("pad") and s.get("faces")),
        "node_without_cell": sum(1 for s in cases if s["valid"] and len({v for c in (s.get("faces") or []) + (s.get("edges") or []) for v in c}) < s["n_nodes"]),
        "faces_only": sum(1 for s in cases if s.get("faces") and not s.get("edges")),
        "edges_only": sum(1 for s in cases if not s.get("faces")),
        "face_face": sum(1 for s in cases if s.get("face_face") is not None),
        "face_edge_or_edge_face": sum(1 for s in cases if s.get("face_edge") is not None or s.get("edge_face") is not None),
        "cell_coordinates": sum(1 for s in cases if s.get("face_coords") or s.get("edge_coords")),
        "subspaced_then_normalised": sum(len(s.get("sub") or {}) for s in cases),
    }
    chk.coverage.update({
        "evaluations": len(cases),
        "distinct_nontrivial": len(distinct),
        "rule": "hand-encoded UGRID files (netCDF4-python) from seeded mesh generators: structured grids with split quads and holes, "
                "a polygon with attached triangles/quads, arbitrary faces over a node pool, disjoint faces, 1-d networks with two "
                "components; every mesh is randomly renumbered, re-oriented and shuffled, may have nodes in no cell, and varies "
                "start_index per connectivity variable, storage order, optional connectivities, cell coordinates, integer type, "
                "fill value and all-missing columns; read as fields and as domains.  Non-trivial = valid mesh with at least two "
                "cells that share a node or differ in node count; distinct by canonical JSON",
        "samples": [brief(cases[len(CORPUS)]), brief(cases[len(cases) // 2]), brief(cases[-1])],
        "traces_validated_against_impl": ncorr,
        "disagreements_checked": ncorr,
        "families": fam_count,
        "features": feats,
        "locations_checked": counters,
        "malformed_outcomes": mal_outcomes,
        "correspondence_cases": {k: len(v) for k, v in lits.items()},
        "exhaustive": False,
    })
    chk.assumptions += [
        "netCDF4-python writes the hand-encoded files faithfully; cfdm's generic variable reading (masking of _FillValue) is the subject of C07",
        "node coordinates are integer-valued doubles so that gathered bounds compare exactly",
        "the order of the neighbours in a point-cell row is arbitrary (CF data model): rows are compared after sorting the neighbours",
        "when a mesh has both edge_node_connectivity and face_node_connectivity the node adjacency is that of the edges "
        "(generated edge lists are exactly the face boundaries)",
        "volume cells and location index sets are outside the check",
    ]


def replay(chk, path):
    d = json.load(open(path))
    bad = 0
    for x in d.get("cases", []):
        s = x.get("input")
        if not s or "n_nodes" not in s:
            continue
        s["i"] = 0
        rc, out, err = lib.run_worker("drive/c15.py", {"scratch": chk.scratch, "cases": [s]})
        if not out:
            print("worker failed", rc, err[-300:])
            bad += 1
            continue
        before = len(chk.failures)
        if s.get("valid", True):
            check_valid(chk, s, out[0], {})
        for f in chk.failures[before:]:
            print("FAILS:", f.signature, "-", f.what[:300])
        bad += len(chk.failures) > before
    return 1 if bad else 0
