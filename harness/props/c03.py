"""C03 - indexing, assignment and subspacing (DESIGN.md section 4, C03)."""
import itertools
import json

import numpy as np

import lib
from lib import gz, gnat, gbool, gopt, glist

REQ = "From CfdmV Require Import Common.Base C03.Model C03.Run."
DEPENDS = []


# ---------------------------------------------------------------- printers
def g_oz(x):
    return "None" if x is None else f"(Some {gz(x)})"


def g_index(i):
    k = i[0]
    if k == "int":
        return f"(IInt {gz(i[1])})"
    if k == "slice":
        return f"(ISlice {gopt(i[1], gz)} {gopt(i[2], gz)} {gopt(i[3], gz)})"
    if k == "list":
        return f"(IList {glist(i[1], gz)})"
    if k == "bool":
        return f"(IBool {glist(i[1], gbool)})"
    return "IEllipsis"


def g_obs(row, key="ok"):
    if key in row:
        o = row[key]
        return f"(Ok ({glist(o['shape'], gnat)}, {glist(o['flat'], g_oz)}))"
    e = row.get("err", "OtherErr")
    if e.startswith("OtherErr"):
        e = "OtherErr"
    return f"(Err {e})"


# ---------------------------------------------------------------- generators
def rand_shape(rng, max_rank=4, min_rank=0):
    rank = rng.choice([0, 1, 1, 2, 2, 2, 3, 3, 4])
    rank = max(min_rank, min(rank, max_rank))
    while True:
        shape = [rng.choice([1, 2, 3, 4, 5, 6]) for _ in range(rank)]
        if int(np.prod(shape)) <= 150:
            return shape


def rand_flat(rng, shape, masked):
    n = int(np.prod(shape)) if shape else 1
    flat = list(range(10, 10 + n))
    if masked:
        for j in range(n):
            if rng.random() < 0.2:
                flat[j] = None
    return flat


def rand_opt(rng, n):
    r = rng.random()
    if r < 0.3:
        return None
    return rng.randint(-n - 2, n + 2)


def rand_axis_index(rng, n, allow_int=True):
    """An in-range index for an axis of size n."""
    r = rng.random()
    if r < 0.2 and allow_int:
        return ["int", rng.randint(-n, n - 1)]
    if r < 0.55:
        step = rng.choice([None, 1, 1, 2, 3, -1, -1, -2, -3])
        return ["slice", rand_opt(rng, n), rand_opt(rng, n), step]
    if r < 0.9:
        kind = rng.random()
        if kind < 0.15:
            l = [rng.randint(-n, n - 1)]
        elif kind < 0.3:
            # descending to 0 (F03a) / ascending
            l = list(range(n - 1, -1, -1)) if rng.random() < 0.5 else list(range(n))
            if rng.random() < 0.5 and len(l) > 2:
                l = l[::2] + [0] if l[0] != 0 else l
        elif kind < 0.5:
            # repeated adjacent elements (F03c)
            l = []
            for _ in range(rng.randint(1, 3)):
                v = rng.randint(-n, n - 1)
                l += [v, v] if rng.random() < 0.6 else [v]
        else:
            l = [rng.randint(-n, n - 1) for _ in range(rng.randint(0, n + 1))]
        return ["list", l]
    l = [rng.random() < 0.5 for _ in range(n)]
    return ["bool", l]


FULL = ["slice", None, None, None]


def rand_idx(rng, shape, prefer_lists=False):
    idx = []
    for n in shape:
        if prefer_lists and rng.random() < 0.6:
            while True:
                i = rand_axis_index(rng, n)
                if i[0] in ("list", "bool"):
                    break
            idx.append(i)
        else:
            idx.append(rand_axis_index(rng, n))
    # Ellipsis / omitted trailing axes
    r = rng.random()
    if r < 0.2 and shape:
        k = rng.randint(0, len(shape))
        idx = idx[:k]
    elif r < 0.45:
        a = rng.randint(0, len(idx))
        b = rng.randint(a, len(idx))
        idx = idx[:a] + [["ellipsis"]] + idx[b:]
    return idx


def malformed_idx(rng, shape):
    kind = rng.choice(["too_many", "bool_len", "list_oob", "scalar", "step0"])
    idx = [rand_axis_index(rng, n) for n in shape]
    if kind == "too_many":
        idx = idx + [["int", 0]] * rng.randint(1, 2)
    elif kind == "bool_len" and shape:
        k = rng.randrange(len(shape))
        idx[k] = ["bool", [True] * (shape[k] + rng.choice([1, 2]))]
    elif kind == "list_oob" and shape:
        k = rng.randrange(len(shape))
        n = shape[k]
        idx[k] = ["list", [0, rng.choice([n, n + 1, -n - 1])]]
    elif kind == "step0" and shape:
        k = rng.randrange(len(shape))
        idx[k] = ["slice", None, None, 0]
    else:
        idx = idx + [["int", 0]]
    return idx, kind


# ---------------------------------------------------------------- numpy oracle
def expand(idx, ndim):
    """numpy expansion of Ellipsis and omitted axes; None if not a valid expression."""
    ne = sum(1 for i in idx if i[0] == "ellipsis")
    if ne > 1:
        return None
    rest = len(idx) - ne
    if rest > ndim:
        return None
    out = []
    for i in idx:
        if i[0] == "ellipsis":
            out += [FULL] * (ndim - rest)
        else:
            out.append(i)
    out += [FULL] * (ndim - len(out))
    return out


def axis_positions(n, i):
    k = i[0]
    if k == "int":
        return [i[1] % n] if -n <= i[1] < n else None
    if k == "slice":
        if i[3] == 0:
            return None
        return list(range(*slice(i[1], i[2], i[3]).indices(n)))
    if k == "list":
        if any(not (-n <= x < n) for x in i[1]):
            return None
        return [x % n for x in i[1]]
    if k == "bool":
        if len(i[1]) != n:
            return None
        return [j for j, b in enumerate(i[1]) if b]
    return None


def np_array(shape, flat):
    vals = np.array([0 if x is None else x for x in flat], dtype="i8").reshape(shape)
    mask = np.array([x is None for x in flat], dtype=bool).reshape(shape)
    return np.ma.array(vals, mask=mask)


def to_obs(a):
    a = np.ma.asanyarray(a)
    m = np.ma.getmaskarray(a)
    return {"shape": list(a.shape),
            "flat": [None if mm else int(v) for v, mm in zip(a.data.ravel().tolist(), m.ravel().tolist())]}


def oracle_positions(shape, idx):
    e = expand(idx, len(shape))
    if e is None:
        return None
    poss = []
    for n, i in zip(shape, e):
        p = axis_positions(n, i)
        if p is None:
            return None
        poss.append(p)
    return poss


def oracle_get(shape, flat, idx):
    poss = oracle_positions(shape, idx)
    if poss is None:
        return None
    a = np_array(shape, flat)
    if not shape:
        return to_obs(a)
    return to_obs(a[np.ix_(*poss)])


def oracle_set(shape, flat, idx, value):
    poss = oracle_positions(shape, idx)
    if poss is None:
        return None
    a = np_array(shape, flat)
    tshape = [len(p) for p in poss]
    if value == "masked":
        v = np.ma.array(np.zeros(tshape, dtype="i8"), mask=True)
    else:
        v0 = np_array(value["shape"], value["flat"])
        try:
            v = np.ma.array(np.broadcast_to(v0.data, tshape), mask=np.broadcast_to(np.ma.getmaskarray(v0), tshape))
        except ValueError:
            return "ValueErr"
    data = a.data.copy()
    mask = np.ma.getmaskarray(a).copy()
    for t in itertools.product(*[range(k) for k in tshape]):
        pos = tuple(p[j] for p, j in zip(poss, t))
        data[pos] = v.data[t]
        mask[pos] = np.ma.getmaskarray(v)[t]
    return to_obs(np.ma.array(data, mask=mask))


def dask_neg_slice(shape, idx):
    """F03f: a negative-step slice whose start lies below -n (dask's normalize_slice turns the
    clipped start -1 into 'the last element')."""
    e = expand(idx, len(shape))
    if e is None:
        return False
    for n, i in zip(shape, e):
        if i[0] == "slice" and i[3] is not None and i[3] < 0 and i[1] is not None and i[1] < -n and n >= 1:
            return True
    return False


def empty_seq_index(shape, idx):
    e = expand(idx, len(shape)) or []
    return any((i[0] == "list" and not i[1]) or (i[0] == "bool" and not any(i[1])) for i in e)


def trivial_idx(idx):
    return all(i[0] == "ellipsis" or i == FULL for i in idx)


# ---------------------------------------------------------------- case builders
def build_cases(chk):
    rng = chk.rng
    T = chk.tier == "thorough"
    mult = 16 if T else 1
    get_cases, set_cases, bnd_cases, fld_cases, geo_cases = [], [], [], [], []

    # corpus (minimised earlier failures) first
    set_cases.append({"shape": [5, 8], "flat": list(range(40)), "idx": [["list", [3, 0]], ["list", [1, 2]]],
                      "value": {"shape": [], "flat": [-1]}, "valid": True, "fam": "corpus-F03a", "src": "mem"})
    set_cases.append({"shape": [3, 4, 5], "flat": list(range(60)),
                      "idx": [["list", [1, 1]], FULL, ["list", [2, 2]]],
                      "value": {"shape": [2, 4, 2], "flat": list(range(100, 116))}, "valid": True,
                      "fam": "corpus-F03c", "src": "mem"})
    bnd_cases.append({"size": 5, "nb": 2, "idx": [["list", [-1, 0]]], "valid": True, "fam": "corpus-F03b"})

    # exhaustive 1-d get over all slices for n <= 4 and small 2-d products
    if True:
        for n in ([1, 2, 3, 4, 5, 6] if T else [1, 2, 3, 4]):
            flat = list(range(10, 10 + n))
            rngv = [None] + list(range(-n - 1, n + 2))
            for a in rngv:
                for b in rngv:
                    for c in [None, 1, 2, -1, -2, 3, -3]:
                        get_cases.append({"shape": [n], "flat": flat, "idx": [["slice", a, b, c]],
                                          "valid": True, "fam": "exh-slice", "src": "mem"})
            for i in range(-n, n):
                get_cases.append({"shape": [n], "flat": flat, "idx": [["int", i]], "valid": True,
                                  "fam": "exh-int", "src": "mem", "bare": True})
    # random get cases per source
    for src, cnt in (("mem", 1800), ("nc4", 350), ("h5", 350), ("ragged", 200)):
        bases = []
        for _ in range(25 if src != "mem" else 200):
            if src == "ragged":
                shape = [rng.randint(1, 4), rng.randint(1, 5)]
            else:
                shape = rand_shape(rng)
            bases.append((shape, rand_flat(rng, shape, bool(shape) and rng.random() < 0.4)))
        for k in range(cnt * mult):
            shape, flat = rng.choice(bases)
            if rng.random() < 0.12:
                idx, kind = malformed_idx(rng, shape)
                get_cases.append({"shape": shape, "flat": flat, "idx": idx, "valid": False,
                                  "fam": "malformed-" + kind, "src": src})
            else:
                idx = rand_idx(rng, shape, prefer_lists=rng.random() < 0.5)
                get_cases.append({"shape": shape, "flat": flat, "idx": idx, "valid": True, "fam": "get-" + src,
                                  "src": src, "as_array": rng.random() < 0.3})
    # set cases
    for k in range(1800 * mult):
        shape = rand_shape(rng, min_rank=0)
        flat = rand_flat(rng, shape, rng.random() < 0.3)
        multi = rng.random() < 0.7
        idx = rand_idx(rng, shape, prefer_lists=multi)
        poss = oracle_positions(shape, idx)
        if poss is None:
            continue
        tshape = [len(p) for p in poss]
        r = rng.random()
        if r < 0.15:
            value = "masked"
        elif r < 0.35:
            value = {"shape": [], "flat": [-7]}
        else:
            # a broadcastable shape: drop leading dims, set some extents to 1
            vs = list(tshape)
            for j in range(len(vs)):
                if rng.random() < 0.25:
                    vs[j] = 1
            drop = rng.randint(0, len(vs)) if rng.random() < 0.3 else 0
            vs = vs[drop:]
            nlists = sum(1 for i in (expand(idx, len(shape)) or []) if i[0] in ("list", "bool") and len(i[1]) != 1)
            if rng.random() < 0.06 and vs and nlists < 2 and 0 not in tshape:
                j = rng.randrange(len(vs))
                vs[j] = vs[j] + 2  # not broadcastable
            n = int(np.prod(vs)) if vs else 1
            vflat = [-(j + 1) for j in range(n)]
            if rng.random() < 0.3:
                vflat = [None if rng.random() < 0.3 else x for x in vflat]
            value = {"shape": vs, "flat": vflat, "as_data": (None not in vflat) and rng.random() < 0.2}
        if 0 in tshape and value != "masked" and value["shape"] and int(np.prod(value["shape"])) == 0:
            pass
        set_cases.append({"shape": shape, "flat": flat, "idx": idx, "value": value, "valid": True,
                          "fam": "set-multi" if sum(1 for i in (expand(idx, len(shape)) or []) if i[0] in ("list", "bool")) >= 2 else "set",
                          "src": "mem", "as_array": rng.random() < 0.2})
    # bounds of 1-d constructs
    for k in range(700 * mult):
        n = rng.randint(1, 6)
        nb = rng.choice([2, 2, 2, 3, 4])
        i = rand_axis_index(rng, n)
        idx = [i] if rng.random() < 0.7 else [i, ["ellipsis"]]
        bnd_cases.append({"size": n, "nb": nb, "idx": idx, "valid": True, "fam": "bounds",
                          "dim": rng.random() < 0.6, "bare": rng.random() < 0.3, "as_array": rng.random() < 0.3})
    # fields
    for k in range(350 * mult):
        nax = rng.randint(1, 4)
        sizes = [rng.choice([1, 2, 3, 4, 5]) for _ in range(nax)]
        ndata = rng.randint(1, nax)
        data_axes = rng.sample(range(nax), ndata)
        cons = []
        for a in range(nax):
            if rng.random() < 0.8:
                cons.append({"type": "dim", "axes": [a], "bounds": rng.choice([0, 2, 2])})
        for _ in range(rng.randint(0, 4)):
            t = rng.choice(["aux", "aux", "measure", "anc", "domanc"])
            if t == "anc":
                pool = data_axes
            else:
                pool = list(range(nax))
            axes = rng.sample(pool, rng.randint(1, min(3, len(pool))))
            cons.append({"type": t, "axes": axes, "bounds": rng.choice([0, 0, 2, 4]) if t in ("aux", "domanc") else 0})
        dshape = [sizes[a] for a in data_axes]
        idx = rand_idx(rng, dshape, prefer_lists=rng.random() < 0.4)
        fld_cases.append({"spec": {"sizes": sizes, "data_axes": data_axes, "constructs": cons}, "idx": idx,
                          "valid": True, "fam": "field", "as_array": rng.random() < 0.2})
    # geometry field (interior rings): example_field(6) has one axis of size 2
    for i in [["int", 0], ["int", 1], ["int", -1], ["slice", None, None, -1], ["slice", 0, 1, None],
              ["list", [1, 0]], ["list", [0, 1]], ["list", [1]], ["bool", [False, True]], ["slice", None, None, None],
              ["list", [-1, 0]], ["list", [1, 1]]]:
        geo_cases.append({"idx": [i], "fam": "geometry", "valid": True})
    return get_cases, set_cases, bnd_cases, fld_cases, geo_cases


def run_family(mode, cases, scratch, nworkers=10):
    for i, c in enumerate(cases):
        c["i"] = i
    shards = [cases[k::nworkers] for k in range(nworkers)]
    shards = [s for s in shards if s]
    res = lib.run_workers_parallel("drive/c03.py", [{"mode": mode, "scratch": scratch, "cases": s} for s in shards])
    rows = [None] * len(cases)
    crashed = []
    for s, (rc, out, err) in zip(shards, res):
        for r in out:
            rows[r["i"]] = r
        if rc != 0 or len(out) != len(s):
            crashed.append((rc, err[-400:]))
    return rows, crashed


def run(chk, model_ok):
    get_cases, set_cases, bnd_cases, fld_cases, geo_cases = build_cases(chk)
    scratch = chk.scratch
    stats = {}
    fails_before = len(chk.failures)

    def crash(mode, crashed):
        for rc, err in crashed:
            chk.fail("correspondence", "worker-crash", f"C03 {mode} worker died rc={rc}: {err}",
                     {"correspondence": "drive/c03.py " + mode})

    explained = set()

    # ---------------- get
    rows, crashed = run_family("get", get_cases, scratch)
    crash("get", crashed)
    lits = []
    lit_case = []
    for c, r in zip(get_cases, rows):
        if r is None:
            continue
        if "harness_err" in r:
            chk.fail("correspondence", "harness-error", r["harness_err"], {"correspondence": "drive/c03.py get", "input": c})
            continue
        stats[c["fam"]] = stats.get(c["fam"], 0) + 1
        if c["valid"]:
            exp = oracle_get(c["shape"], c["flat"], c["idx"])
            got = r.get("ok")
            ok = got is not None and exp is not None and got["shape"] == exp["shape"] and got["flat"] == exp["flat"] \
                and got["dtype"] == "int64"
            if not ok:
                explained.add(("get", c["i"]))
                sig = "getitem-differs-from-numpy:" + c["src"]
                if dask_neg_slice(c["shape"], c["idx"]):
                    sig = "neg-step-slice-start-below-minus-n"
                elif c["src"] == "nc4" and empty_seq_index(c["shape"], c["idx"]) and exp is not None and not exp["flat"] \
                        and (got is None or not got["flat"]):
                    sig = "empty-sequence-index-netcdf4-shape"
                chk.fail("property", sig,
                         f"d[{c['idx']}] on shape {c['shape']} ({c['src']}): expected {exp}, got {got or r.get('err')}",
                         {"input": c, "expected": exp, "observed": r})
            if not r.get("source_unchanged", True):
                chk.fail("property", "getitem-changed-source", f"indexing changed the source array: {c['idx']}",
                         {"input": c, "observed": r})
            if r.get("ok_again") is False:
                chk.fail("property", "getitem-result-aliased", f"the array of d[{c['idx']}] changed after the array "
                         "returned earlier was overwritten in place", {"input": c, "observed": r})
            if c["src"] == "ragged" and "ok" in r and r.get("compressed_after") != "ragged contiguous":
                chk.fail("property", "getitem-uncompressed-source", "indexing a compressed array uncompressed the source",
                         {"input": c, "observed": r})
        else:
            if "ok" in r and c["fam"] in ("malformed-too_many", "malformed-bool_len", "malformed-list_oob", "malformed-scalar"):
                if oracle_positions(c["shape"], c["idx"]) is None:
                    explained.add(("get", c["i"]))
                    chk.fail("property", "malformed-index-accepted",
                             f"malformed index {c['idx']} on shape {c['shape']} returned {r['ok']['shape']} instead of raising",
                             {"input": c, "observed": r})
        lits.append(f"({glist(c['shape'], gz)}, {glist(c['flat'], g_oz)}, {glist(c['idx'], g_index)}, {g_obs(r)})")
        lit_case.append(("get", c, r))
    ncorr = 0
    if model_ok and lits:
        bad = lib.coq_bad_indices("C03", REQ, "check_get", lits, chunk=250)
        ncorr += len(lits)
        for i in bad[:40]:
            fam, c, r = lit_case[i]
            if (fam, c["i"]) in explained:
                continue
            chk.fail("correspondence", "model-vs-impl:get", f"model and implementation disagree on d[{c['idx']}] shape {c['shape']}",
                     {"correspondence": "C03.Run.check_get", "input": c, "observed": r})

    # ---------------- set
    rows, crashed = run_family("set", set_cases, scratch)
    crash("set", crashed)
    lits, lit_case = [], []
    for c, r in zip(set_cases, rows):
        if r is None:
            continue
        if "harness_err" in r:
            chk.fail("correspondence", "harness-error", r["harness_err"], {"correspondence": "drive/c03.py set", "input": c})
            continue
        stats[c["fam"]] = stats.get(c["fam"], 0) + 1
        exp = oracle_set(c["shape"], c["flat"], c["idx"], c["value"])
        if exp == "ValueErr":
            if r.get("err") != "ValueErr":
                explained.add(("set", c["i"]))
                chk.fail("property", "setitem-unbroadcastable-accepted",
                         f"assigning a value of shape {c['value']['shape']} with {c['idx']} on {c['shape']} did not raise ValueError",
                         {"input": c, "observed": r})
            elif r.get("after_err") and r["after_err"]["flat"] != c["flat"]:
                chk.fail("property", "setitem-failed-but-changed", "a rejected assignment changed the data", {"input": c, "observed": r})
        elif exp is not None:
            got = r.get("ok")
            if got is None or got["shape"] != exp["shape"] or got["flat"] != exp["flat"]:
                explained.add(("set", c["i"]))
                sig = "setitem-differs-from-numpy"
                chk.fail("property", sig,
                         f"d[{c['idx']}] = {c['value']} on shape {c['shape']}: expected {exp}, got {got or r.get('err')}",
                         {"input": c, "expected": exp, "observed": r})
        # literal for the model
        if c["value"] == "masked":
            vshape, vflat = [1] * len(c["shape"]), [None]
        else:
            vs = c["value"]["shape"]
            if len(vs) > len(c["shape"]):
                continue
            vshape = [1] * (len(c["shape"]) - len(vs)) + vs
            vflat = c["value"]["flat"]
        lits.append(f"({glist(c['shape'], gz)}, {glist(c['flat'], g_oz)}, {glist(c['idx'], g_index)}, "
                    f"{glist(vshape, gnat)}, {glist(vflat, g_oz)}, {g_obs(r)})")
        lit_case.append(("set", c, r))
    if model_ok and lits:
        bad = lib.coq_bad_indices("C03", REQ, "check_set", lits, chunk=200)
        ncorr += len(lits)
        for i in bad[:40]:
            fam, c, r = lit_case[i]
            if (fam, c["i"]) in explained:
                continue
            chk.fail("correspondence", "model-vs-impl:set",
                     f"model and implementation disagree on d[{c['idx']}] = {c['value']} shape {c['shape']}",
                     {"correspondence": "C03.Run.check_set", "input": c, "observed": r})

    # ---------------- bounds reversal
    rows, crashed = run_family("bounds", bnd_cases, scratch)
    crash("bounds", crashed)
    lits, lit_case = [], []
    for c, r in zip(bnd_cases, rows):
        if r is None:
            continue
        if "harness_err" in r:
            chk.fail("correspondence", "harness-error", r["harness_err"], {"correspondence": "drive/c03.py bounds", "input": c})
            continue
        stats[c["fam"]] = stats.get(c["fam"], 0) + 1
        n, nb = c["size"], c["nb"]
        poss = oracle_positions([n], [i for i in c["idx"]])
        if poss is None or "err" in r:
            if poss is not None and poss[0] and not dask_neg_slice([n], c["idx"]):
                chk.fail("property", "bounds-getitem-raised", f"x[{c['idx']}] raised {r.get('err')}", {"input": c, "observed": r})
            continue
        p = poss[0]
        if not p:
            continue
        if dask_neg_slice([n], c["idx"]):
            continue
        data = [10 * j for j in p]
        fwd = [[100 + j * nb + b for b in range(nb)] for j in p]
        rev = [list(reversed(x)) for x in fwd]
        gotb = r["bounds"]["flat"]
        gotb = [gotb[j * nb:(j + 1) * nb] for j in range(len(p))]
        is_fwd, is_rev = gotb == fwd, gotb == rev
        if r["data"]["flat"] != data or not (is_fwd or is_rev) or r["bounds"]["shape"] != [len(p), nb]:
            chk.fail("property", "bounds-not-diced-with-data", f"x[{c['idx']}]: data {r['data']['flat']} bounds {gotb}",
                     {"input": c, "observed": r})
            continue
        dec = len(p) >= 2 and all(p[j] > p[j + 1] for j in range(len(p) - 1))
        inc = len(p) >= 2 and all(p[j] < p[j + 1] for j in range(len(p) - 1))
        # only two-vertex bounds follow the direction of the axis; others are never reordered
        if (nb == 2 and ((dec and not is_rev) or (inc and not is_fwd))) or (nb != 2 and not is_fwd):
            explained.add(("bounds", c["i"]))
            chk.fail("property", "bounds-reversal-rule",
                     f"1-d construct indexed with {c['idx']} (positions {p}): bounds {'not ' if dec else ''}reversed",
                     {"input": c, "observed": r})
        if not r.get("source_unchanged", True):
            chk.fail("property", "getitem-changed-source", "subspacing a construct changed it", {"input": c})
        if len(p) >= 1 and not (is_fwd and is_rev):
            lits.append(f"({gz(n)}, {gz(nb)}, {glist(c['idx'], g_index)}, {gbool(is_rev)})")
            lit_case.append(("bounds", c, r))
    if model_ok and lits:
        bad = lib.coq_bad_indices("C03", REQ, "check_rev", lits, chunk=400)
        ncorr += len(lits)
        for i in bad[:40]:
            fam, c, r = lit_case[i]
            if (fam, c["i"]) in explained:
                continue
            chk.fail("correspondence", "model-vs-impl:bounds-reversal",
                     f"model and implementation disagree on the reversal of bounds for {c['idx']} (size {c['size']})",
                     {"correspondence": "C03.Run.check_rev", "input": c, "observed": r})

    # ---------------- fields
    rows, crashed = run_family("field", fld_cases, scratch)
    crash("field", crashed)
    lits, lit_case = [], []
    for c, r in zip(fld_cases, rows):
        if r is None:
            continue
        if "harness_err" in r:
            chk.fail("correspondence", "harness-error", r["harness_err"], {"correspondence": "drive/c03.py field", "input": c})
            continue
        stats[c["fam"]] = stats.get(c["fam"], 0) + 1
        spec = c["spec"]
        dshape = [spec["sizes"][a] for a in spec["data_axes"]]
        poss = oracle_positions(dshape, c["idx"])
        if poss is None:
            continue
        if dask_neg_slice(dshape, c["idx"]):
            continue
        empty = any(len(p) == 0 for p in poss)
        if empty:
            if r.get("err") != "IndexErr":
                chk.fail("property", "field-empty-subspace-accepted", f"f[{c['idx']}] gives an empty axis but did not raise IndexError",
                         {"input": c, "observed": {k: v for k, v in r.items() if k != 'before'}})
            continue
        if "ok" not in r:
            chk.fail("property", "field-getitem-raised", f"f[{c['idx']}] raised {r.get('err')}", {"input": c})
            continue
        if not r.get("source_unchanged", True):
            chk.fail("property", "getitem-changed-source", "subspacing a field changed it", {"input": c})
        axis_pos = {a: p for a, p in zip(spec["data_axes"], poss)}
        g = r["ok"]
        b = r["before"]
        problems = []
        exp_sizes = [len(axis_pos[a]) if a in axis_pos else s for a, s in enumerate(spec["sizes"])]
        if g["axis_sizes"] != exp_sizes:
            problems.append(f"domain axis sizes {g['axis_sizes']} expected {exp_sizes}")
        d0 = np.array(b["data"]["flat"]).reshape(b["data"]["shape"])
        if g["data"]["flat"] != d0[np.ix_(*poss)].ravel().tolist():
            problems.append("field data")
        cons_lit = []
        for con, c0, c1 in zip(spec["constructs"], b["constructs"], g["constructs"]):
            cp = [axis_pos.get(a, list(range(spec["sizes"][a]))) for a in con["axes"]]
            a0 = np.array(c0["data"]["flat"]).reshape(c0["data"]["shape"])
            if c1["data"]["flat"] != a0[np.ix_(*cp)].ravel().tolist():
                problems.append(f"construct {con} data")
            if "bounds" in c0:
                b0 = np.array(c0["bounds"]["flat"]).reshape(c0["bounds"]["shape"])
                nb = b0.shape[-1]
                e = b0[np.ix_(*cp, list(range(nb)))]
                got = np.array(c1["bounds"]["flat"]).reshape(c1["bounds"]["shape"])
                same = got.shape == e.shape and (got == e).all()
                samer = got.shape == e.shape and (got == e[..., ::-1]).all()
                p = cp[0]
                dec = len(con["axes"]) == 1 and len(p) >= 2 and all(p[j] > p[j + 1] for j in range(len(p) - 1))
                inc = len(p) >= 2 and all(p[j] < p[j + 1] for j in range(len(p) - 1))
                if not (same or samer) or (len(con["axes"]) > 1 and not same) or (nb == 2 and dec and not samer) or \
                        (len(con["axes"]) == 1 and inc and not same) or (nb != 2 and not same):
                    problems.append(f"construct {con} bounds")
            spans = any(a in axis_pos for a in con["axes"])
            cons_lit.append((con["axes"], c0["data"]["shape"], c1["data"]["shape"] if spans else None))
        if problems:
            explained.add(("field", c["i"]))
            chk.fail("property", "field-subspace-constructs", f"f[{c['idx']}]: " + "; ".join(problems[:4]),
                     {"input": c, "observed": g})
        lits.append(f"({glist(dshape, gz)}, {glist(c['idx'], g_index)}, {glist(spec['data_axes'], gnat)}, "
                    + glist(cons_lit, lambda t: f"({glist(t[0], gnat)}, {glist(t[1], gz)}, {gopt(t[2], lambda s: glist(s, gnat))})") + ")")
        lit_case.append(("field", c, r))
    if model_ok and lits:
        bad = lib.coq_bad_indices("C03", REQ, "check_field", lits, chunk=300)
        ncorr += len(lits)
        for i in bad[:40]:
            fam, c, r = lit_case[i]
            if (fam, c["i"]) in explained:
                continue
            chk.fail("correspondence", "model-vs-impl:field", f"model and implementation disagree on which constructs f[{c['idx']}] dices",
                     {"correspondence": "C03.Run.check_field", "input": c})

    # ---------------- geometry (interior rings)
    rows, crashed = run_family("geometry", geo_cases, scratch, nworkers=2)
    crash("geometry", crashed)
    for c, r in zip(geo_cases, rows):
        if r is None:
            continue
        stats[c["fam"]] = stats.get(c["fam"], 0) + 1
        p = oracle_positions([2], c["idx"])[0]
        if "ok" not in r:
            chk.fail("property", "geometry-getitem-raised", f"example_field(6)[{c['idx']}] raised {r.get('err')}: {r.get('msg')}",
                     {"input": c})
            continue
        for k, e in r["ok"].items():
            for name in ("bounds", "ring", "data"):
                if name + "0" in e:
                    a0 = np.array([np.nan if x is None else x for x in e[name + "0"]["flat"]]).reshape(e[name + "0"]["shape"])
                    a1 = np.array([np.nan if x is None else x for x in e[name + "1"]["flat"]]).reshape(e[name + "1"]["shape"])
                    exp = a0[p]
                    if a1.shape != exp.shape or not np.array_equal(a1, exp, equal_nan=True):
                        chk.fail("property", "geometry-subspace", f"{k} {name} not diced by {c['idx']}", {"input": c})

    allc = get_cases + set_cases + bnd_cases + fld_cases + geo_cases
    distinct = set()
    for c in allc:
        if c.get("valid") and not trivial_idx(c["idx"]):
            distinct.add(lib.canon({k: v for k, v in c.items() if k not in ("i",)}))
    chk.coverage.update({
        "evaluations": len(allc),
        "distinct_nontrivial": len(distinct),
        "rule": "seeded random index tuples over {int, slice (all sign combinations, None), integer list (unsorted, negative, repeated, "
                "descending to 0), boolean list, Ellipsis, omitted axes} for shapes of rank 0-4 (sizes 1-6), masked and unmasked, "
                "held in memory / netCDF4 / h5netcdf / ragged-compressed; exhaustive slices for 1-d sizes <= 4; assignments with "
                "broadcastable (and a few unbroadcastable) values and the masked constant; 1-d constructs with bounds; generated "
                "fields with 1-4 axes and up to 8 metadata constructs; a malformed stream (too many indices, wrong-length boolean, "
                "out-of-range list, zero step). Non-trivial = valid case whose index is not all full slices; distinct by canonical JSON",
        "samples": [get_cases[len(get_cases) // 2]["idx"], set_cases[-1], bnd_cases[-1], fld_cases[-1]["idx"]],
        "traces_validated_against_impl": ncorr,
        "disagreements_checked": ncorr,
        "families": stats,
        "exhaustive": False,
    })
    chk.assumptions += [
        "the reference semantics is numpy's: per-axis positions applied independently (np.ix_), row-major last-store-wins for repeated positions",
        "values are 64-bit integers and the masked constant; dtype preservation is checked by the oracle, float arithmetic is not involved",
        "out-of-range integer indices are outside the property ('in-range index expression'); the model reproduces what the code does with them",
        "numpy basic slicing, netCDF4/h5py hyperslab reads and dask's normalize_index are trusted (modelled by their documented semantics)",
    ]


def replay(chk, path):
    d = json.load(open(path))
    bad = 0
    for x in d.get("cases", []):
        c = x.get("input")
        if not c or "idx" not in c:
            continue
        mode = "set" if "value" in c else ("bounds" if "nb" in c else ("field" if "spec" in c else "get"))
        c["i"] = 0
        rc, out, err = lib.run_worker("drive/c03.py", {"mode": mode, "scratch": chk.scratch, "cases": [c]})
        print(mode, json.dumps(c)[:300], "->", json.dumps(out)[:600])
        if mode == "get":
            bad += out[0].get("ok", {}).get("flat") != (oracle_get(c["shape"], c["flat"], c["idx"]) or {}).get("flat")
        elif mode == "set":
            e = oracle_set(c["shape"], c["flat"], c["idx"], c["value"])
            bad += (out[0].get("ok", {}).get("flat") != e.get("flat")) if isinstance(e, dict) else (out[0].get("err") != e)
        else:
            bad += 1
    return 1 if bad else 0
